#!/usr/bin/env python
"""C20 finding 7: option -L accepts three of the five IPMI privilege levels;
'-L callback' and '-L oem' end in an uncaught KeyError.

IPMI 2.0 (tables 22-15/22-18/22-20, Get Channel Authentication Capabilities /
Activate Session / Set Session Privilege Level): requested privilege level
1h = Callback, 2h = User, 3h = Operator, 4h = Administrator, 5h = OEM
proprietary.  Session.set_priv_level() maps only 'user', 'operator' and
'administrator' (Session even defines PRIV_LEVEL_OEM = 5), and main() passes
the option value to it unguarded, so the two other levels (and any misspelt
one) produce a traceback "KeyError: 'callback'" instead of a session at that
level or a usage message.

The demo runs the real RMCP interface against a v1.5 LAN BMC model and looks
at the privilege level requested in the three session set-up commands.
"""
import os
import sys

sys.path.insert(0, os.path.join(os.path.dirname(os.path.abspath(__file__)), '..'))
from common import run_tool      # noqa: E402
import lanbmc                    # noqa: E402

LEVELS = (('callback', 1), ('user', 2), ('operator', 3), ('administrator', 4),
          ('oem', 5))

violations = 0
for name, code in LEVELS:
    bmc = lanbmc.LanBmc()
    lanbmc.install(bmc)
    argv = ['-H', '10.0.0.1', '-U', 'admin', '-P', 'secret', '-L', name,
            'bmc', 'info']
    res = run_tool(argv, interface='rmcp')
    privs = {}
    for rs, netfn, lun, rq, cmd, data in bmc.msgs:
        if (netfn, cmd) == (6, 0x38):
            privs['auth cap'] = data[1] & 0x0f
        elif (netfn, cmd) == (6, 0x3a):
            privs['activate'] = data[1] & 0x0f
        elif (netfn, cmd) == (6, 0x3b):
            privs['set priv'] = data[0] & 0x0f
    print('ipmitool.py -I rmcp %s' % ' '.join(argv))
    print('  expected: exit status 0, Activate Session with maximum requested '
          'privilege level %d' % code)
    print('  got     : %s, requested levels: %s' % (res.describe(), privs))
    if (res.exc is not None or res.status != 0
            or privs.get('activate') != code):
        violations += 1
        print('  VIOLATION')

sys.exit(1 if violations else 0)
