#!/usr/bin/env python
"""C20 finding 3: 'sdr show <id>' and 'sdr showall' raise AttributeError for
every SDR type that has no id string / entity fields.

sdr_show() prints s.device_id_string and s.entity_id / s.entity_instance
unconditionally.  The library decodes these attributes only for record types
01h, 02h, 03h, 11h and 12h; Entity Association (08h), Management Controller
Confirmation (13h), OEM (C0h) records and every type the library does not know
(09h, 10h, 14h, ...) have neither.  Such records are ordinary content of a
Device SDR repository (PICMG boards carry OEM and entity association records),
so 'sdr showall' aborts at the first of them and never shows the sensors that
follow.  ('sdr list' uses getattr(..., None) and 'sdr raw' does not decode -
both work.)
"""
import os
import sys

sys.path.insert(0, os.path.join(os.path.dirname(os.path.abspath(__file__)), '..'))
from common import run_tool      # noqa: E402
import sdrbmc                    # noqa: E402

records = [sdrbmc.full_sensor_sdr(1, 5, b'TEMP1'),
           sdrbmc.entity_association_sdr(2),
           sdrbmc.oem_sdr(3),
           sdrbmc.mc_confirmation_sdr(4),
           sdrbmc.full_sensor_sdr(5, 6, b'TEMP2')]
readings = {(0, 5): 0x20, (0, 6): 0x21}

violations = 0
for argv in (['sdr', 'show', '2'], ['sdr', 'show', '0x3'], ['sdr', 'show', '4'],
             ['sdr', 'showall']):
    bmc = sdrbmc.SdrBmc(records, readings)
    res = run_tool(argv, bmc)
    print('ipmitool.py %s' % ' '.join(argv))
    print('  expected: exit status 0, record(s) shown')
    print('  got     : %s' % res.describe())
    if argv[-1] == 'showall':
        shown = res.stdout.count('SDR record ID')
        print('  records shown: %d of %d (TEMP2 shown: %s)'
              % (shown, len(records), 'TEMP2' in res.stdout))
    if res.exc is not None or res.status != 0:
        violations += 1
        print('  VIOLATION')

sys.exit(1 if violations else 0)
