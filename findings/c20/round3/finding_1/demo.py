"""C20 finding 1: `-t <addr> -b <channel>` -- neither option takes effect.

main() turns `-b 7` into the routing [(0x20, 7, 0)], i.e. ONE hop with
rq_sa=0x20, rs_sa=<channel>, channel=0.  The target address given with -t is
lost and the channel number is used as a slave address.

Shown on the two real interfaces that implement bridging:
 (a) ipmitool interface: the command line handed to the external ipmitool
     (only Popen is replaced) carries neither `-t 0x82` nor `-b 7`;
 (b) rmcp interface: the IPMB frame put into the RMCP packet (only the socket
     write is replaced) is a plain, un-bridged request to slave address 0x07.
"""
import sys, io, contextlib
sys.path.insert(0, '/tmp/h3_C20')
import pyipmi, pyipmi.interfaces
import pyipmi.ipmitool as tool
from pyipmi.interfaces.ipmitool import Ipmitool
from pyipmi.interfaces.rmcp import Rmcp

bad = 0

# ---- (a) ipmitool interface -------------------------------------------------
cmds = []
def fake_run(cmd):
    cmds.append(cmd)
    # Get Device ID reply as printed by `ipmitool raw`
    return b' 12 81 01 23 02 bf 98 3a 00 34 12\n', 0
Ipmitool._run_ipmitool = staticmethod(fake_run)

argv = ['-I', 'ipmitool', '-H', '10.0.0.1', '-U', 'admin', '-P', 'pw',
        '-t', '0x82', '-b', '7', 'raw', '0x06', '0x01']
sys.argv = ['ipmitool.py'] + argv
out = io.StringIO()
status = 0
with contextlib.redirect_stdout(out):
    try:
        tool.main()
    except SystemExit as e:
        status = e.code or 0
print('argv            :', ' '.join(argv))
print('exit status     :', status)
print('ipmitool invoked:', cmds[0] if cmds else None)
print('expected        : ... -t 0x82 -b 7 ... raw 0x06 0x01 (Send Message on channel 7 to 0x82)')
if not cmds or ' -t 0x82' not in cmds[0] or ' -b 7' not in cmds[0]:
    print('VIOLATION (a): target address 0x82 and channel 7 are not passed on')
    bad = 1

# ---- (b) rmcp interface -----------------------------------------------------
# take the Target exactly as main() builds it ...
captured = {}
class Probe(object):
    def open(self): pass
    def close(self): pass
    def send_and_receive_raw(self, target, lun, netfn, raw):
        captured['target'] = target
        return b'\x00'
orig = pyipmi.interfaces.create_interface
pyipmi.interfaces.create_interface = lambda name, **kw: Probe()
sys.argv = ['ipmitool.py', '-t', '0x82', '-b', '7', 'raw', '0x06', '0x01']
with contextlib.redirect_stdout(io.StringIO()):
    try:
        tool.main()
    except SystemExit:
        pass
pyipmi.interfaces.create_interface = orig
target = captured['target']
print()
print('Target built by main():', [(r.rq_sa, r.rs_sa, r.channel) for r in target.routing],
      'ipmb_address=0x%02x' % target.ipmb_address)

# ... and let the real Rmcp interface encode a request for it
class Stop(Exception):
    pass
frames = []
rmcp = Rmcp()
rmcp._drain_socket = lambda: None
def grab(data):
    frames.append(bytes(data))
    raise Stop()
rmcp._send_ipmi_msg = grab
try:
    rmcp.send_and_receive_raw(target, 0, 0x06, b'\x01')
except Stop:
    pass
frame = frames[0]
print('IPMB frame sent by rmcp:', ' '.join('%02x' % b for b in frame))
# expected: Send Message (netfn App 0x06 -> 0x18, cmd 0x34) to the BMC 0x20 with
# channel 7 (tracking) that wraps a request whose rs_sa is 0x82
is_send_message = frame[0] == 0x20 and frame[1] >> 2 == 0x06 and frame[5] == 0x34
print('expected               : 20 18 c8 81 xx 34 47 | 82 18 66 20 xx 01 cs | cs   '
      '(Send Message, channel 7, embedded request to 0x82)')
if not is_send_message or 0x82 not in frame:
    print('VIOLATION (b): request goes un-bridged to rs_sa=0x%02x; 0x82 appears nowhere' % frame[0])
    bad = 1

sys.exit(bad)
