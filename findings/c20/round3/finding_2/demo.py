"""C20 finding 2: `-o pullups=off` and `-o power=off` (aardvark) have no effect.

usage():  pullups=<on|off>  Enable/disable pullups
          power=<on|off>    Enable/disable target power
parse_interface_options() turns 'off' into enable_i2c_pullups=False /
enable_target_power=False, but Aardvark.open() only applies the values when
they are true (`if self.i2c_pullups:`), so 'off' is never written to the
adapter: the adapter keeps whatever state it had (pull-ups are ON by default
on Aardvark hardware; target power keeps the previous setting).

Only the pyaardvark module (the USB adapter) is replaced by a recording fake
that answers Get Device ID on the I2C bus.
"""
import sys, io, contextlib
sys.path.insert(0, '/tmp/h3_C20')
import pyipmi.ipmitool as tool
import pyipmi.interfaces.aardvark as aardvark_mod


def csum(b):
    return (-sum(b)) & 0xff


class FakeDev(object):
    """Aardvark adapter + a BMC at 0x20 on the bus. Records attribute writes."""
    def __init__(self):
        object.__setattr__(self, 'writes', [])
        object.__setattr__(self, 'pending', None)

    def __setattr__(self, name, value):
        self.writes.append((name, value))
        object.__setattr__(self, name, value)

    def enable_i2c_slave(self, addr):
        pass

    def close(self):
        pass

    def i2c_master_write(self, i2c_addr, data):
        d = list(data)          # netfn/lun, chk, rq_sa, seq/lun, cmd, ..., chk
        rs_sa = i2c_addr << 1
        netfn, rs_lun = d[0] >> 2, d[0] & 3
        rq_sa, seq, rq_lun, cmd = d[2], d[3] >> 2, d[3] & 3, d[4]
        if (netfn, cmd) == (6, 1):
            body = [0, 0x12, 0x81, 0x01, 0x23, 0x02, 0xbf, 0x98, 0x3a, 0x00, 0x34, 0x12]
        else:
            body = [0xc1]
        h = [rq_sa, ((netfn | 1) << 2) | rq_lun]
        h.append(csum(h))
        t = [rs_sa, (seq << 2) | rs_lun, cmd] + body
        t.append(csum(t))
        object.__setattr__(self, 'pending', (rq_sa >> 1, bytes(bytearray(h[1:] + t))))

    def poll(self, timeout):
        return [1] if self.pending else []

    def i2c_slave_read(self):
        p = self.pending
        object.__setattr__(self, 'pending', None)
        return p


class FakePyaardvark(object):
    def __init__(self):
        self.dev = None

    def open(self, port=None, serial_number=None):
        self.dev = FakeDev()
        return self.dev


def run(argv):
    fake = FakePyaardvark()
    aardvark_mod.pyaardvark = fake
    sys.argv = ['ipmitool.py'] + argv
    out = io.StringIO()
    status = 0
    with contextlib.redirect_stdout(out):
        try:
            tool.main()
        except SystemExit as e:
            status = e.code or 0
    return status, out.getvalue().strip(), fake.dev.writes


bad = 0
for opt, attr in (('pullups', 'i2c_pullups'), ('power', 'target_power')):
    for val, want in (('on', True), ('off', False)):
        argv = ['-I', 'aardvark', '-o', '%s=%s' % (opt, val), 'raw', '0x06', '0x01']
        status, out, writes = run(argv)
        got = [v for (n, v) in writes if n == attr]
        ok = got == [want]
        print('%-50s exit=%d reply=[%s]' % (' '.join(argv), status, out))
        print('   adapter writes: %s' % writes)
        print('   expected %s=%s written once; got %s  -> %s'
              % (attr, want, got, 'ok' if ok else 'VIOLATION: option has no effect'))
        if not ok:
            bad = 1
sys.exit(bad)
