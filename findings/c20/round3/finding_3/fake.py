"""Fake interface + small reference BMC built from the IPMI/PICMG/HPM.1 specs."""
import sys, io, contextlib
from array import array
sys.path.insert(0, '/tmp/h3_C20')
import pyipmi, pyipmi.interfaces, pyipmi.ipmitool as tool
from pyipmi.msgs import create_message, encode_message, decode_message
from pyipmi.utils import ByteBuffer, py3_array_tobytes


def full_sdr(rid, number, lun, name=b'TEMP'):
    body = [0x20, lun, number, 3, 1, 0x7f, 0x68, 0x01, 0x01,
            0, 0, 0, 0, 0x3f, 0x3f,
            0x00, 0x01, 0x00, 0x00,   # units, linearization linear
            1, 0, 0, 0, 0, 0,         # M Mtol B Bacc acc rexp
            0x07, 50, 60, 10, 0xff, 0,
            100, 90, 80, 5, 10, 20, 1, 1, 0, 0, 0,
            0xc0 | len(name)] + list(name)
    return [rid & 0xff, rid >> 8, 0x51, 0x01, len(body)] + body


def compact_sdr(rid, number, lun, name=b'DISC'):
    body = [0x20, lun, number, 3, 1, 0x7f, 0x68, 0x05, 0x6f,
            0, 0, 0, 0, 0, 0, 0xc0, 0, 0, 0, 0, 0, 0, 0, 0, 0, 0,
            0xc0 | len(name)] + list(name)
    return [rid & 0xff, rid >> 8, 0x51, 0x02, len(body)] + body


class Bmc(object):
    def __init__(self):
        self.log = []
        self.sdrs = {1: full_sdr(1, 5, 0), 2: compact_sdr(2, 6, 0)}
        self.fault = None   # callable(netfn, data) -> None | cc | exception

    def handle(self, lun, netfn, data):
        cmd = data[0]
        d = list(data[1:])
        k = (netfn, cmd)
        if k == (6, 1):
            return [0, 0x12, 0x81, 0x01, 0x23, 0x02, 0xbf, 0x98, 0x3a, 0x00, 0x34, 0x12, 1, 2, 3, 4]
        if k in ((6, 2), (6, 3), (0, 2)):
            return [0]
        if k == (0, 1):
            return [0, 0x21, 0x00, 0x00]
        if k == (0x0a, 0x40):
            return [0, 0x51, 0, 0, 0xff, 0xff, 0, 0, 0, 0, 0, 0, 0, 0, 0x0a]
        if k == (0x0a, 0x42) or k == (0x0a, 0x22) or k == (4, 0x22):
            return [0, 0x34, 0x12]
        if k == (0x0a, 0x47):
            return [0, 0x01]
        if k == (0x0a, 0x20):
            return [0, 0x51, len(self.sdrs), 0, 0xff, 0xff, 0, 0, 0, 0, 0, 0, 0, 0, 0x0a]
        if k == (4, 0x20):
            return [0, len(self.sdrs), 0x01]
        if k in ((4, 0x21), (0x0a, 0x23)):
            rid = d[2] | d[3] << 8
            off, cnt = d[4], d[5]
            ids = sorted(self.sdrs)
            if rid == 0:
                rid = ids[0]
            if rid not in self.sdrs:
                return [0xcb]
            i = ids.index(rid)
            nxt = ids[i + 1] if i + 1 < len(ids) else 0xffff
            rec = self.sdrs[rid]
            return [0, nxt & 0xff, nxt >> 8] + rec[off:off + cnt]
        if k == (4, 0x2d):
            return [0, 0x30 + lun, 0xc0, 0x00, 0x80]
        if k == (4, 0x2a):
            return [0]
        if k == (0x2c, 0x11):   # get power level
            return [0, 0, 0x01, 0, 1, 10]
        return [0xc1]


class FakeIntf(object):
    NAME = 'fake'
    def __init__(self, bmc, **kw):
        self.bmc = bmc
        self.kw = kw
        self.events = []
    def open(self): self.events.append('open')
    def close(self): self.events.append('close')
    def establish_session(self, s): self.events.append('establish'); self.session = s
    def close_session(self): self.events.append('close_session')
    def send_and_receive_raw(self, target, lun, netfn, raw_bytes):
        data = array('B', raw_bytes)
        rt = None
        if target.routing:
            rt = [(r.rq_sa, r.rs_sa, r.channel) for r in target.routing]
        self.bmc.log.append((target.ipmb_address, rt, lun, netfn, list(data)))
        if self.bmc.fault:
            f = self.bmc.fault(netfn, list(data))
            if isinstance(f, BaseException):
                raise f
            if f is not None:
                return py3_array_tobytes(array('B', [f]))
        return py3_array_tobytes(array('B', self.bmc.handle(lun, netfn, data)))
    def send_and_receive(self, req):
        b = ByteBuffer((req.cmdid,))
        b.push_string(encode_message(req))
        rsp_data = self.send_and_receive_raw(req.target, req.lun, req.netfn, py3_array_tobytes(b))
        rsp = create_message(req.netfn + 1, req.cmdid, req.group_extension)
        decode_message(rsp, rsp_data)
        return rsp


def run(argv, bmc=None, create=None):
    bmc = bmc or Bmc()
    made = []
    def _create(name, *a, **kw):
        i = FakeIntf(bmc, **kw); i.name = name; made.append(i); return i
    orig = pyipmi.interfaces.create_interface
    pyipmi.interfaces.create_interface = create or _create
    old_argv = sys.argv
    sys.argv = ['ipmitool.py'] + argv
    out = io.StringIO()
    status = 0
    exc = None
    try:
        with contextlib.redirect_stdout(out):
            try:
                tool.main()
            except SystemExit as e:
                status = e.code if e.code is not None else 0
            except BaseException as e:
                exc = e
    finally:
        pyipmi.interfaces.create_interface = orig
        sys.argv = old_argv
    return dict(out=out.getvalue(), status=status, exc=exc, log=bmc.log, intf=made[0] if made else None)
