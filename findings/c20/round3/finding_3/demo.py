"""C20 finding 3: `sdr list` (all sensors) and `sdr show` / `sdr showall`
(compact sensors) read sensors of a non-zero owner LUN on LUN 0.

The API call is get_sensor_reading(sensor_number, lun); a sensor is identified
by (owner, LUN, number) -- IPMI v2.0 43.1 bytes 6-8 -- and the same number may
exist on several LUNs.  sdr_show() passes s.owner_lun for full records, but
cmd_sdr_list() and the compact branch of sdr_show() drop it, so Get Sensor
Reading goes to LUN 0: the tool shows the reading of a different sensor (or
fails with CBh).

Reference BMC (fake.py, built from the spec): two SDRs, sensor #5 (full) on
LUN 1 and sensor #6 (compact) on LUN 2; Get Sensor Reading answers 0x30+LUN,
so the LUN that was addressed is visible in the reading.
"""
import os, sys
sys.path.insert(0, os.path.dirname(os.path.abspath(__file__)))
from fake import Bmc, full_sdr, compact_sdr, run

bad = 0
for argv, expect in ((['sdr', 'list'], [(1, 5), (2, 6)]),
                     (['sdr', 'show', '1'], [(1, 5)]),
                     (['sdr', 'show', '2'], [(2, 6)]),
                     (['sdr', 'showall'], [(1, 5), (2, 6)])):
    bmc = Bmc()
    bmc.sdrs = {1: full_sdr(1, 5, 1), 2: compact_sdr(2, 6, 2)}
    r = run(argv, bmc)
    got = [(lun, data[1]) for (_, _, lun, netfn, data) in r['log']
           if netfn == 0x04 and data[0] == 0x2d]
    print('ipmitool.py %s  -> exit %s' % (' '.join(argv), r['status']))
    print(r['out'].rstrip())
    print('   Get Sensor Reading (LUN, sensor#) expected %s got %s  -> %s\n'
          % (expect, got, 'ok' if got == expect else 'VIOLATION'))
    if got != expect:
        bad = 1
sys.exit(bad)
