#!/usr/bin/env python
"""C20 finding 4: with the native RMCP interface (-I rmcp) a timeout, or a BMC
error code during session set-up, ends the tool with a Python traceback
instead of a message and sys.exit(1).

main() maps only CompletionCodeError and IpmiTimeoutError.  The RMCP
interface never raises IpmiTimeoutError: an unanswered datagram surfaces as
socket.timeout (ASF ping) or RetryError (IPMI messages).  On top of that the
`finally: ipmi.close()` of main() calls Rmcp.close_session(), which
dereferences self._session - still None when establish_session() failed
before 'Activate Session' - and, when the BMC is silent, sends Close Session
and raises RetryError again; either exception replaces the SystemExit(1) that
main() had already raised for a BMC error code.

 (a) no BMC at the given host (nothing answers)
 (b) the BMC rejects 'Get Session Challenge' with 81h (invalid user name)
 (c) the BMC stops answering after the session has been set up
RetryError is also what the library's SDR helpers raise after a BMC has
answered with a "try again" completion code five times, on any interface:
 (d) substituted interface, 'Get Device SDR' always answers CEh (response
     could not be provided)
and the ipmitool back-end reports an unreachable BMC as IpmiConnectionError:
 (e) -I ipmitool, the ipmitool program prints "Error: Unable to establish LAN
     session" and exits with status 1 (what it does when nothing answers)
"""
import os
import sys

sys.path.insert(0, os.path.join(os.path.dirname(os.path.abspath(__file__)), '..'))
from common import run_tool      # noqa: E402
import lanbmc                    # noqa: E402

SCENARIOS = (
    ('(a) nothing answers', dict(silent=True), 'Command timed out'),
    ('(b) Get Session Challenge -> cc 0x81', dict(cc_for={(6, 0x39): 0x81}),
     'Command returned with completion code 0x81'),
    ('(c) silent after session set-up', dict(silent_after_session=True),
     'Command timed out'),
)
ARGV = ['-H', '10.0.0.1', '-U', 'admin', '-P', 'secret', 'bmc', 'info']

violations = 0

# (d) on the substituted interface
from common import Bmc      # noqa: E402


class BusyBmc(Bmc):
    def h_04_22(self, lun, d):      # Reserve Device SDR Repository
        return [0x00, 0x01, 0x00]

    def h_04_21(self, lun, d):      # Get Device SDR
        return [0xce]


res = run_tool(['sdr', 'show', '1'], BusyBmc())
print('(d) Get Device SDR -> cc 0xce, always: ipmitool.py -I fake sdr show 1')
print('  expected: a message on stdout, SystemExit with non-zero status')
print('  got     : stdout %r, %s' % (res.stdout, res.describe()))
if res.exc is not None or not res.status or not res.stdout:
    violations += 1
    print('  VIOLATION')

# (e) ipmitool back-end
import pyipmi.interfaces.ipmitool as ipmitool_intf      # noqa: E402
ipmitool_intf.Ipmitool._run_ipmitool = staticmethod(
    lambda cmd: (b'Error: Unable to establish LAN session\n', 1))
res = run_tool(['-H', '10.0.0.1', 'bmc', 'info'], interface='ipmitool')
print('(e) ipmitool program cannot reach the BMC: ipmitool.py -I ipmitool '
      '-H 10.0.0.1 bmc info')
print('  expected: a message on stdout, SystemExit with non-zero status')
print('  got     : stdout %r, %s' % (res.stdout, res.describe()))
if res.exc is not None or not res.status or not res.stdout:
    violations += 1
    print('  VIOLATION')

for name, cfg, message in SCENARIOS:
    bmc = lanbmc.LanBmc()
    for k, v in cfg.items():
        setattr(bmc, k, v)
    lanbmc.install(bmc)
    res = run_tool(ARGV, interface='rmcp')
    print('%s: ipmitool.py -I rmcp %s' % (name, ' '.join(ARGV)))
    print('  expected: stdout %r, SystemExit with non-zero status' % message)
    print('  got     : stdout %r, %s' % (res.stdout, res.describe()))
    if res.exc is not None or not res.status or message not in res.stdout:
        violations += 1
        print('  VIOLATION')

sys.exit(1 if violations else 0)
