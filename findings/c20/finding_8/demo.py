#!/usr/bin/env python
"""C20 finding 8: the Aardvark interface options 'pullups=off' and 'power=off'
have no effect.

usage(): "pullups=<on|off> Enable/disable pullups", "power=<on|off>
Enable/disable target power".  parse_interface_options() turns 'off' into
enable_i2c_pullups=False / enable_target_power=False (tests/test_ipmitool.py
checks that), but Aardvark.open() applies the two settings with

    if self.i2c_pullups:   self.enable_pullups(self.i2c_pullups)
    if self.target_power:  self.enable_target_power(self.target_power)

so False is treated like "option not given" and the adapter keeps whatever it
had: the pull-ups of an Aardvark are ON after power-up, and both settings
survive aa_close(), so `-o power=off` after an earlier `-o power=on` leaves
the target powered.  (fastmode is handled correctly with `is not None`.)

The demo installs a stand-in for the `pyaardvark` module (the adapter), runs
the real tool with -I aardvark and reads the adapter's registers.
"""
import os
import sys
import types


class Adapter(object):
    """What pyaardvark.open() returns; power-up state of the hardware, with
    target power left on by an earlier `-o power=on` run."""

    def __init__(self):
        self.i2c_pullups = True
        self.target_power = True
        self.i2c_bitrate = 100
        self.writes = []

    def enable_i2c_slave(self, addr):
        pass

    def close(self):
        pass

    def i2c_master_write(self, addr, data):
        self.writes.append((addr, bytes(bytearray(data))))

    def poll(self, timeout):
        return []            # nobody on the bus: the command times out


ADAPTER = Adapter()
fake = types.ModuleType('pyaardvark')
fake.open = lambda port=None, serial_number=None: ADAPTER
sys.modules['pyaardvark'] = fake

sys.path.insert(0, os.path.join(os.path.dirname(os.path.abspath(__file__)), '..'))
from common import run_tool      # noqa: E402
import time                      # noqa: E402
time.sleep = lambda s: None      # do not wait between the retries

violations = 0
for opts, want in (('pullups=off,power=off,fastmode=on', (False, False, 400)),
                   ('pullups=on,power=on,fastmode=off', (True, True, 100))):
    ADAPTER.__init__()
    if opts.startswith('pullups=on'):
        ADAPTER.i2c_pullups = ADAPTER.target_power = False
    before = (ADAPTER.i2c_pullups, ADAPTER.target_power, ADAPTER.i2c_bitrate)
    res = run_tool(['-o', opts, 'bmc', 'info'], interface='aardvark')
    got = (ADAPTER.i2c_pullups, ADAPTER.target_power, ADAPTER.i2c_bitrate)
    print('ipmitool.py -I aardvark -o %s bmc info   (%s; %d I2C writes)'
          % (opts, res.describe(), len(ADAPTER.writes)))
    print('  adapter before (pullups, target power, kHz): %s' % (before,))
    print('  expected after                             : %s' % (want,))
    print('  got                                        : %s' % (got,))
    if got != want:
        violations += 1
        print('  VIOLATION')

sys.exit(1 if violations else 0)
