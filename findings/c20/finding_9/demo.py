#!/usr/bin/env python
"""C20 finding 9: 'sdr list', 'sdr show' and 'sdr showall' abort with
ZeroDivisionError / ValueError for a non-linear sensor whose raw value is
outside the domain of its linearization function.

IPMI 2.0, 36.2/43.1 byte 24: a full sensor record may declare the
linearization 1/x, ln, log10, log2, sqrt, ...  A tachometer that measures the
period of a fan (1/x, M=1, B=0) legitimately reads raw 0 while the fan stands
still, and unused threshold bytes of an SDR are 0 as well.
SdrFullSensorRecord.convert_sensor_raw_to_value() then raises
ZeroDivisionError (1/x) or ValueError "math domain error" (ln/log of 0).
 * cmd_sdr_list() catches CompletionCodeError only: one such sensor aborts the
   whole listing with a traceback (both exception types);
 * sdr_show() converts the reading and ALL six threshold bytes
   unconditionally; cmd_sdr_show()/cmd_sdr_show_all() catch ValueError (and
   then print an empty line instead of the record) but not ZeroDivisionError.
"""
import os
import sys

sys.path.insert(0, os.path.join(os.path.dirname(os.path.abspath(__file__)), '..'))
from common import run_tool      # noqa: E402
import sdrbmc                    # noqa: E402

L_LN, L_1_X = 1, 7
violations = 0
for lin_name, lin in (('1/x', L_1_X), ('ln', L_LN)):
    records = [sdrbmc.full_sensor_sdr(1, 5, b'TEMP1'),
               sdrbmc.full_sensor_sdr(2, 6, b'FAN1', linearization=lin,
                                      thresholds=[0xff, 0xf0, 0xe0, 0, 0, 0]),
               sdrbmc.full_sensor_sdr(3, 7, b'TEMP2')]
    readings = {(0, 5): 0x20, (0, 6): 0x00, (0, 7): 0x21}
    for argv in (['sdr', 'list'], ['sdr', 'show', '2'], ['sdr', 'showall']):
        bmc = sdrbmc.SdrBmc(records, readings)
        res = run_tool(argv, bmc)
        print('FAN1 linearization %s, raw reading 0: ipmitool.py %s'
              % (lin_name, ' '.join(argv)))
        print('  expected: exit status 0; TEMP2 %s'
              % ('listed' if argv[1] != 'show' else '-'))
        print('  got     : %s; TEMP2 in output: %s'
              % (res.describe(), 'TEMP2' in res.stdout))
        if res.exc is not None or res.status != 0:
            violations += 1
            print('  VIOLATION')

sys.exit(1 if violations else 0)
