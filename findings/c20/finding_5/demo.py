#!/usr/bin/env python
"""C20 finding 5: 'sdr list' (and 'sdr show' / 'sdr showall' for compact sensor
records) read every sensor on LUN 0, whatever the sensor owner LUN in the SDR.

IPMI 2.0, 43.1/43.2: byte 7 bits [1:0] of a sensor record is the *sensor owner
LUN*, "LUN in the sensor owner that is used to send/receive IPMB messages to
access the sensor"; sensor numbers are unique per LUN only, so a controller
with more than 255 sensors - or a carrier that puts its modules' sensors on
LUN 1 - reuses numbers.  The API takes the LUN: get_sensor_reading(number,
lun); sdr_show() passes s.owner_lun for full sensor records, but
cmd_sdr_list() and the compact branch of sdr_show() call
get_sensor_reading(s.number) -> LUN 0.  The tool therefore prints the reading
of a different sensor (or 'ERR: CC=0xcb') under the name of the LUN-1 sensor.
"""
import os
import sys

sys.path.insert(0, os.path.join(os.path.dirname(os.path.abspath(__file__)), '..'))
from common import run_tool, fmt_req      # noqa: E402
import sdrbmc                             # noqa: E402

records = [sdrbmc.full_sensor_sdr(1, 7, b'INLET', lun=0),
           sdrbmc.full_sensor_sdr(2, 7, b'AMC1TEMP', lun=1),
           sdrbmc.compact_sensor_sdr(3, 8, b'AMC1HS', lun=1)]
# M=1, B=0: the raw reading is the value in degrees C
readings = {(0, 7): 20, (1, 7): 71, (1, 8): 0x10}

violations = 0
for argv in (['sdr', 'list'], ['sdr', 'show', '3']):
    bmc = sdrbmc.SdrBmc(records, readings)
    res = run_tool(argv, bmc)
    got = [(e[1], e[3][0]) for e in bmc.log if (e[0], e[2]) == (0x04, 0x2d)]
    if argv[1] == 'list':
        want = [(0, 7), (1, 7), (1, 8)]
    else:
        want = [(1, 8)]
    print('ipmitool.py %s   (%s)' % (' '.join(argv), res.describe()))
    print(res.stdout.rstrip())
    print('  expected Get Sensor Reading (LUN, sensor#): %s' % want)
    print('  got                                       : %s' % got)
    if got != want:
        violations += 1
        print('  VIOLATION: the sensors of LUN 1 are read on LUN 0')
    if argv[1] == 'list' and ' 71.0 ' not in res.stdout:
        print('  AMC1TEMP (71 degrees C on LUN 1) is listed with the reading '
              'of INLET (20 degrees C on LUN 0)')

sys.exit(1 if violations else 0)
