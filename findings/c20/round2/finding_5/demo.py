#!/usr/bin/env python
"""C20 finding 5: the numeric interface option 'cipher' of the ipmitool
back-end is rejected with an uncaught ValueError when it is written in hex,
unlike every other numeric option or argument of the tool (-t, -p, -b, command
arguments, raw bytes; commit 64806d0).

Run:  cd /tmp/hunt2_c20 && /venv/bin/python -B _hunt/finding_5/demo.py
"""
import os
import sys
sys.path.insert(0, os.path.join(os.path.dirname(__file__), '..'))
from harness import run_tool
from pyipmi.interfaces.ipmitool import Ipmitool

command_lines = []


def fake_run(cmd):
    """stands for the ipmitool executable: Get Device ID answer of a BMC"""
    command_lines.append(cmd)
    return (b' 20 81 01 23 02 bf 98 3a 00 34 12\n', 0)


Ipmitool._run_ipmitool = staticmethod(fake_run)

failed = False
for cipher, number in (('17', 17), ('0x11', 17), ('0x3', 3)):
    del command_lines[:]
    argv = ['-I', 'ipmitool', '-H', '10.0.0.1', '-p', '0x26f', '-t', '0x20',
            '-U', 'admin', '-P', 'secret',
            '-o', 'interface_type=lanplus,cipher=%s' % cipher,
            'raw', '0x06', '0x01']
    status, out, b, tb = run_tool(argv)
    print('$ ipmitool.py %s' % ' '.join(argv))
    print('  expected: exit status 0, ipmitool run with cipher suite %d '
          '(-C %d or -C 0x%x)' % (number, number, number))
    used = [w for c in command_lines for w in [c.split(' -C ')[-1].split()[0]]
            if ' -C ' in c]
    print('  got     : exit status %s, ipmitool run with -C %s' % (status, used))
    if tb:
        print('    ' + '\n    '.join(tb.rstrip().splitlines()[-3:]))
    if status != 0 or [int(u, 0) for u in used] != [number]:
        failed = True
        print('  -> VIOLATION: the interface option does not take effect, a '
              'Python error escapes main()\n')
    else:
        print('  -> ok\n')

sys.exit(1 if failed else 0)
