#!/usr/bin/env python
"""C20 finding 2: 'hpm install' puts the image's inaccessibility timeout into
the Rollback Override Policy byte of the HPM.1 Activate Firmware request.

Run:  cd /tmp/hunt2_c20 && /venv/bin/python -B _hunt/finding_2/demo.py
(about 6 s on the unmodified tree, about 15 s with the fix: the library really
waits for the inaccessibility time-out once an activation succeeds)
"""
import hashlib
import os
import struct
import sys
import tempfile
sys.path.insert(0, os.path.join(os.path.dirname(__file__), '..'))
from harness import Bmc, run_tool, cksum

DEVICE_ID, MANUFACTURER, PRODUCT = 0x12, 0x003a98, 0x1234


def hpm_image(inaccessibility_timeout):
    """HPM.1 upgrade image (HPM.1 R1.0 section 4): header, one 'upload for
    upgrade' action for component 0, MD5."""
    header = (b'PICMGFWU' + bytes([0x00, DEVICE_ID])
              + struct.pack('<I', MANUFACTURER)[:3] + struct.pack('<H', PRODUCT)
              + struct.pack('<I', 0x5b06a2cb)           # time
              + bytes([0x00,                            # image capabilities
                       0x01,                            # components: 0
                       5,                               # self-test timeout
                       5,                               # rollback timeout
                       inaccessibility_timeout])
              + bytes([1, 0x00])                        # earliest compatible
              + bytes([1, 0x10, 0, 0, 0, 0])            # firmware revision
              + struct.pack('<H', 0))                   # OEM data length
    header += bytes([cksum(header)])
    firmware = bytes(range(40))
    action = bytes([0x02, 0x01])                        # upload, component 0
    action += bytes([cksum(action)])
    action += (bytes([1, 0x10, 0, 0, 0, 0]) + b'BOOT'.ljust(21, b'\0')
               + struct.pack('<I', len(firmware)) + firmware)
    body = header + action
    return body + hashlib.md5(body).digest()


class HpmBmc(Bmc):
    """IPM controller that implements HPM.1 and checks its requests."""

    def __init__(self):
        Bmc.__init__(self)
        self.device_id = bytes([DEVICE_ID, 0x81, 0x01, 0x10, 0x02, 0xbf])\
            + struct.pack('<I', MANUFACTURER)[:3] + struct.pack('<H', PRODUCT)
        self.activate_requests = []

    def _handle(self, netfn, lun, cmd, d):
        if netfn == 0x2c and d[:1] == b'\x00':
            if cmd == 0x2e:      # Get target upgrade capabilities
                return bytes([0, 0, 0x00, 0xff, 5, 5, 5, 5, 0x01])
            if cmd in (0x30, 0x31, 0x32, 0x33):   # abort, initiate, upload,
                return b'\x00\x00'                # finish
            if cmd == 0x34:      # Get upgrade status
                return bytes([0, 0, 0x00, 0x00])
            if cmd == 0x35:      # Activate firmware (HPM.1 "Activate Firmware" command):
                # byte 1 PICMG id, byte 2 (optional) rollback override policy,
                # 00h = automatic rollback allowed, 01h = overridden,
                # all other values reserved
                self.activate_requests.append(d)
                if len(d) > 2 or (len(d) == 2 and d[1] > 1):
                    return b'\xcc'                # invalid data field
                return b'\x00\x00'
        return Bmc._handle(self, netfn, lun, cmd, d)


failed = False
for timeout in (3, 1):
    with tempfile.NamedTemporaryFile(suffix='.hpm', delete=False) as f:
        f.write(hpm_image(timeout))
    try:
        status, out, b, tb = run_tool(['-I', 'fake', 'hpm', 'install',
                                       f.name, '0'], HpmBmc())
    finally:
        os.unlink(f.name)
    print('$ ipmitool.py hpm install <image with inaccessibility timeout %d> 0'
          % timeout)
    print('    ' + out.rstrip().replace('\n', '\n    '))
    if tb:
        print(tb)
    got = [r.hex() for r in b.activate_requests]
    print('  expected: exit status 0; Activate Firmware request data "00" '
          '(no rollback override\n            policy, as the user gave none) '
          'or "0000"')
    print('  got     : exit status %s; Activate Firmware request data %s'
          % (status, got))
    if status != 0 or got not in (['00'], ['0000']):
        failed = True
        print('  -> VIOLATION: byte 2 is the image\'s inaccessibility timeout '
              '(%02xh)%s\n' % (timeout, {
                  1: ', which the BMC must read as "automatic rollback '
                     'overridden"'}.get(timeout, ', a reserved policy value; '
                                        'the upgrade ends after the upload')))
    else:
        print('  -> ok\n')

sys.exit(1 if failed else 0)
