#!/usr/bin/env python
"""C20 finding 3: 'hpm capabilities' ends with UnicodeDecodeError when a
component's description string contains a backslash followed by 'u' or 'U'
(sibling of the repaired image-description defect, commit 6b53135).

Run:  cd /tmp/hunt2_c20 && /venv/bin/python -B _hunt/finding_3/demo.py
"""
import os
import sys
sys.path.insert(0, os.path.join(os.path.dirname(__file__), '..'))
from harness import Bmc, run_tool


class HpmBmc(Bmc):
    """IPM controller with two HPM.1 components (Get Target Upgrade
    Capabilities, Get Component Properties)."""

    def __init__(self, descriptions):
        Bmc.__init__(self)
        self.descriptions = descriptions

    def _handle(self, netfn, lun, cmd, d):
        if netfn == 0x2c and d[:1] == b'\x00':
            if cmd == 0x2e:      # Get target upgrade capabilities
                return bytes([0, 0, 0x00, 0xff, 5, 5, 5, 5, 0x03])
            if cmd == 0x2f:      # Get component properties
                comp, selector = d[1], d[2]
                if comp > 1:
                    return b'\x82'
                if selector == 0:
                    return bytes([0, 0, 0x0e])
                if selector == 1:
                    return bytes([0, 0, 1, 0x23, 0, 0, 0, 0])
                if selector == 2:    # 11 characters + NUL, ASCII / Latin-1
                    return bytes([0, 0]) + \
                        self.descriptions[comp].ljust(12, b'\0')
                if selector == 3:
                    return bytes([0, 0, 1, 0x22, 0, 0, 0, 0])
                if selector == 4:
                    return bytes([0, 0, 1, 0x24, 0, 0, 0, 0])
                return b'\x83'
        return Bmc._handle(self, netfn, lun, cmd, d)


failed = False
for descriptions in ((b'IPMC', b'BOOT'),
                     (b'IPMC', b'fw\\u-boot'),
                     (b'C:\\Updater', b'BOOT')):
    status, out, b, tb = run_tool(['-I', 'fake', 'hpm', 'capabilities'],
                                  HpmBmc(descriptions))
    print('$ ipmitool.py hpm capabilities     (component descriptions %r)'
          % (descriptions,))
    print('  expected: exit status 0, components 0 and 1 printed, no Python '
          'error')
    print('  got     : exit status %s, components printed: %s'
          % (status, [c for c in (0, 1) if 'Component ID: %d' % c in out]))
    if tb:
        print('    ' + tb.rstrip().splitlines()[-1])
    if status != 0 or 'Component ID: 1' not in out:
        failed = True
        print('  -> VIOLATION: a Python error escapes main()\n')
    else:
        print('  -> ok\n')

sys.exit(1 if failed else 0)
