#!/usr/bin/env python
"""C20 finding 1: 'sdr list' / 'sdr show' / 'sdr showall' abort on a non-linear
sensor (Full Sensor Record, linearization 70h..7Fh).

Run:  cd /tmp/hunt2_c20 && /venv/bin/python -B _hunt/finding_1/demo.py
"""
import os
import sys
sys.path.insert(0, os.path.join(os.path.dirname(__file__), '..'))
from harness import Bmc, run_tool


def full_sensor_record(rec_id, number, name, linearization):
    """IPMI 2.0 table 43-1 'Full Sensor Record', byte by byte."""
    body = bytes([
        0x20, 0x00, number,        # 6-8   owner id, owner lun, sensor number
        0x03, 0x01,                # 9-10  entity id (processor), instance
        0x7f, 0x68,                # 11-12 initialization, capabilities
        0x01, 0x01,                # 13-14 sensor type temperature, threshold
        0x80, 0x0a, 0x80, 0x7a,    # 15-18 assertion / deassertion masks
        0x38, 0x38,                # 19-20 reading mask
        0x00, 0x01, 0x00,          # 21-23 units: unsigned, degrees C
        linearization,             # 24    linearization
        0x01, 0x00,                # 25-26 M = 1, tolerance
        0x00, 0x00, 0x00,          # 27-29 B = 0, accuracy
        0x00,                      # 30    R exp, B exp
        0x00, 0x00, 0x00, 0x00,    # 31-34 analog flags, nominal, max, min
        0xff, 0x00,                # 35-36 sensor max / min reading
        90, 80, 70, 5, 10, 20,     # 37-42 thresholds
        0x00, 0x00, 0x00, 0x00,    # 43-46 hysteresis, reserved
        0x00,                      # 47    OEM
        0xc0 | len(name)]) + name  # 48    id string type/length + string
    return bytes([rec_id & 0xff, rec_id >> 8, 0x51, 0x01, len(body)]) + body


def bmc():
    b = Bmc()
    b.sdrs = [full_sensor_record(1, 1, b'CPU TEMP', 0x00),     # linear
              full_sensor_record(2, 2, b'THERMISTOR', 0x70),   # non-linear
              full_sensor_record(3, 3, b'INLET TEMP', 0x00)]   # linear
    return b


failed = False
print('Reference BMC: SDR repository with three full sensor records; record '
      '0x0002 has\nlinearization byte 70h ("non-linear", IPMI 2.0 table 43-1 '
      'byte 24), all sensors\nanswer Get Sensor Reading with completion code '
      '00h.\n')

for argv, expect_records in ((['sdr', 'list'], ('0x0001', '0x0002', '0x0003')),
                             (['sdr', 'showall'], ('0x0001', '0x0002', '0x0003')),
                             (['sdr', 'show', '2'], ('0x0002',))):
    status, out, b, tb = run_tool(['-I', 'fake'] + argv, bmc())
    shown = [r for r in expect_records if r in out]
    print('$ ipmitool.py %s' % ' '.join(argv))
    print('    ' + out.rstrip().replace('\n', '\n    '))
    print('  expected: exit status 0, records %s listed' % (expect_records,))
    print('  got     : exit status %s, records %s listed' % (status, tuple(shown)))
    if tb:
        print(tb)
    if status != 0 or tuple(shown) != expect_records or 'Command failed' in out:
        failed = True
        print('  -> VIOLATION: the command does not complete against a '
              'conforming BMC\n')
    else:
        print('  -> ok\n')

sys.exit(1 if failed else 0)
