#!/usr/bin/env python
"""C20 finding 4: 'picmg channel status' without its argument ends with an
IndexError; every other table entry that takes arguments prints its usage or
returns when they are missing.

Run:  cd /tmp/hunt2_c20 && /venv/bin/python -B _hunt/finding_4/demo.py
"""
import os
import sys
sys.path.insert(0, os.path.join(os.path.dirname(__file__), '..'))
from harness import Bmc, run_tool

failed = False
print('Argument vectors: every table entry that takes arguments, called '
      'without them.\n')
for argv in (['sensor', 'rearm'], ['sdr', 'raw'], ['sdr', 'show'], ['raw'],
             ['hpm', 'check'], ['hpm', 'install'],
             ['picmg', 'portstate', 'get'], ['picmg', 'channel', 'power'],
             ['picmg', 'channel', 'status']):
    status, out, b, tb = run_tool(['-I', 'fake'] + argv, Bmc())
    verdict = 'ok'
    if tb is not None or status not in (0, 1, 2):
        verdict = 'VIOLATION: Python error escapes main()'
        failed = True
    print('$ ipmitool.py %-22s -> exit status %-45s requests %d   %s'
          % (' '.join(argv), status, len(b.log), verdict))
    if tb:
        print('    ' + '\n    '.join(tb.rstrip().splitlines()[-4:]))

print('\nexpected: a usage message or nothing, exit status 0 (as for the '
      'eight siblings)')
sys.exit(1 if failed else 0)
