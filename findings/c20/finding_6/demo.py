#!/usr/bin/env python
"""C20 finding 6: numeric arguments written in hex are accepted by half of the
tool and crash the other half with ValueError.

-t, -p, 'sensor rearm', 'sdr raw', 'sdr show' and 'raw' parse their numbers
with int(x, 0); '-b', 'fru print', 'picmg portstate get', 'picmg channel
status', 'picmg channel power' and 'hpm install' use int(x), so the same
number written as 0x.. escapes main() as "ValueError: invalid literal for
int() with base 10" (traceback, no usage message).  The property quantifies
over numeric arguments in decimal and in hex.

For every command the demo runs the decimal and the hex spelling of the same
argument vector and compares the requests seen by the BMC.
"""
import os
import sys

sys.path.insert(0, os.path.join(os.path.dirname(os.path.abspath(__file__)), '..'))
from common import Bmc, run_tool      # noqa: E402

HPM = os.path.join(os.path.dirname(os.path.abspath(__file__)),
                   '..', '..', 'tests', 'hpm_bin', 'firmware.hpm')


class Board(Bmc):
    def h_0a_10(self, lun, d):          # Get FRU Inventory Area Info
        return [0x00, 0x08, 0x00, 0x00]

    def h_0a_11(self, lun, d):          # Read FRU Data: empty common header
        hdr = [0x01, 0, 0, 0, 0, 0, 0, 0xff]
        off, cnt = d[1] | d[2] << 8, d[3]
        return [0x00, len(hdr[off:off + cnt])] + hdr[off:off + cnt]

    def h_04_2a(self, lun, d):          # Re-arm Sensor Events
        return [0x00]

    def h_2c_0f(self, lun, d):          # Get Port State: one enabled link
        return [0x00, 0x00, d[1], 0x01, 0x00, 0x00, 0x01]

    def h_2c_25(self, lun, d):          # Get Power Channel Status
        return [0x00, 0x00, 0x10, 0x07, 0x5b]

    def h_2c_24(self, lun, d):          # Power Channel Control
        return [0x00, 0x00]

    def h_2c_30(self, lun, d):          # Abort Firmware Upgrade: refuse, so
        return [0xd5]                   # that 'hpm install' stops right there


CASES = (
    (['-b', '7', 'bmc', 'info'], ['-b', '0x07', 'bmc', 'info']),
    (['fru', 'print', '10'], ['fru', 'print', '0x0a']),
    (['picmg', 'portstate', 'get', '10', '1'],
     ['picmg', 'portstate', 'get', '0x0a', '0x1']),
    (['picmg', 'channel', 'status', '12'], ['picmg', 'channel', 'status', '0x0c']),
    (['picmg', 'channel', 'power', '12', '1', '7.5'],
     ['picmg', 'channel', 'power', '0x0c', '0x1', '7.5']),
    (['hpm', 'install', HPM, '1'], ['hpm', 'install', HPM, '0x01']),
    # for comparison: commands that do accept hex
    (['sensor', 'rearm', '16'], ['sensor', 'rearm', '0x10']),
    (['-t', '130', 'raw', '6', '1'], ['-t', '0x82', 'raw', '0x06', '0x01']),
)

violations = 0
for dec, hexa in CASES:
    b1, b2 = Board(), Board()
    r1 = run_tool(dec, b1)
    r2 = run_tool(hexa, b2)
    same = ([e[:4] for e in b1.log] == [e[:4] for e in b2.log]
            and r1.exc is None and r2.exc is None and r1.status == r2.status)
    show = [os.path.basename(a) for a in hexa]
    print('ipmitool.py %s' % ' '.join(show))
    print('  decimal spelling: %s, %d request(s)' % (r1.describe(), len(b1.log)))
    print('  hex spelling    : %s, %d request(s)' % (r2.describe(), len(b2.log)))
    if not same:
        violations += 1
        print('  VIOLATION')

sys.exit(1 if violations else 0)
