#!/usr/bin/env python
"""C20 finding 10: over the native RMCP interface 'raw' fails for every
request whose command byte is 34h - its reply is never printed.

Rmcp._send_and_receive() treats ANY received message whose command byte is
34h as the envelope of a request that the library bridged with Send Message:

    if array('B', rx_data)[5] == constants.CMDID_SEND_MESSAGE:
        rx_data = decode_bridged_message(rx_data)

neither the network function of the reply nor the fact that the library did
not bridge anything (target.routing is None) is looked at.  So
 (a) `raw 0x2c 0x34 0x00` - HPM.1 'Get Upgrade Status' (NetFn 2Ch, cmd 34h),
     the command every HPM.1 upgrade polls - dies with IndexError;
 (b) `raw 0x06 0x34 0x47 ...` - a Send Message typed by the user, the
     classical use of 'raw' for manual bridging - dies with RetryError,
     with and without response tracking.
The same requests over the substituted / ipmitool / IPMB interfaces work.
"""
import os
import sys

sys.path.insert(0, os.path.join(os.path.dirname(os.path.abspath(__file__)), '..'))
from common import run_tool      # noqa: E402
import lanbmc                    # noqa: E402


class Board(lanbmc.LanBmc):
    def ipmi(self, rs, netfn, lun, rq, cmd, data):
        if (netfn, cmd) == (0x2c, 0x34):
            # HPM.1 Get Upgrade Status: cc, PICMG id, command in progress
            # (35h Activate Firmware), last completion code
            self.msgs.append((rs, netfn, lun, rq, cmd, bytes(data)))
            return [0x00, 0x00, 0x35, 0x00]
        return lanbmc.LanBmc.ipmi(self, rs, netfn, lun, rq, cmd, data)


# Get Device ID for the controller 0x82 on channel 7, as IPMB request
EMBEDDED = ['0x82', '0x18', '0x66', '0x20', '0x04', '0x01', '0xdb']
CASES = (
    (['raw', '0x2c', '0x34', '0x00'], '00 00 35 00\n'),
    # Send Message, channel 7, tracking: the model returns completion code +
    # the reply of 0x82 [rqSA netFn/LUN chk rsSA seq/LUN cmd cc chk]
    (['raw', '0x06', '0x34', '0x47'] + EMBEDDED,
     '00 20 1c c4 82 04 01 00 79\n'),
)

violations = 0
for argv, want in CASES:
    bmc = Board()
    lanbmc.install(bmc)
    res = run_tool(['-H', '10.0.0.1'] + argv, interface='rmcp')
    seen = [m for m in bmc.msgs if m[4] == 0x34]
    print('ipmitool.py -I rmcp -H 10.0.0.1 %s' % ' '.join(argv))
    print('  request reached the BMC: %s' % bool(seen))
    print('  expected: exit status 0, stdout %r' % want)
    print('  got     : %s, stdout %r' % (res.describe(), res.stdout))
    if res.exc is not None or res.status != 0 or res.stdout != want:
        violations += 1
        print('  VIOLATION')

sys.exit(1 if violations else 0)
