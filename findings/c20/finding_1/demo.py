#!/usr/bin/env python
"""C20 finding 1: option -b <channel> ("Set target channel") does not bridge.

`ipmitool.py -t 0x82 -b 7 bmc reset cold` must reach the controller 0x82 behind
channel 7 of the BMC, i.e. (IPMI 2.0, 6.13 / 22.7) a Send Message request
(NetFn App 06h, cmd 34h) to the BMC 0x20 with channel number 7 that carries the
IPMB request [rsSA=0x82, NetFn App, rqSA=0x20, cmd 02h Cold Reset].  That is
also what the library documents for one bridge:
routing = [(0x81,0x20,<channel>),(0x20,<target>,None)].

main() builds routing = [(0x20, <channel>, 0)] instead: one hop whose
*responder address* is the channel number.
 (a) native RMCP interface: the Cold Reset goes, not bridged, to slave address
     0x07 (the channel number); the -t address 0x82 never appears on the wire.
 (b) ipmitool back-end: the shell command has neither -t nor -b, so the Cold
     Reset is executed by the BMC itself.
"""
import os
import sys

sys.path.insert(0, os.path.join(os.path.dirname(os.path.abspath(__file__)), '..'))
from common import run_tool                         # noqa: E402
import lanbmc                                       # noqa: E402
import pyipmi.interfaces.ipmitool as ipmitool_intf  # noqa: E402

violations = 0

# ---------------------------------------------------------------- (a) RMCP
ARGV = ['-H', '10.0.0.1', '-U', 'admin', '-P', 'secret',
        '-t', '0x82', '-b', '7', 'bmc', 'reset', 'cold']
bmc = lanbmc.LanBmc()
lanbmc.install(bmc)
res = run_tool(ARGV, interface='rmcp')
print('(a) ipmitool.py -I rmcp %s' % ' '.join(ARGV))
print('    tool: %s' % res.describe())
resets = [m for m in bmc.msgs if m[4] == 0x02 and m[1] == 0x06]
print('    expected on the LAN : Send Message (06h/34h) to 0x20, channel 7, '
      'embedding Cold Reset for rsSA=0x82')
print('    bridged requests seen by the BMC : %s' % (
    ['ch=%d rsSA=0x%02x netfn=0x%02x cmd=0x%02x rqSA=0x%02x'
     % (b[0], b[1], b[2], b[5], b[4]) for b in bmc.bridged] or 'none'))
print('    direct Cold Reset requests seen  : %s' % (
    ['rsSA=0x%02x rqSA=0x%02x' % (m[0], m[3]) for m in resets] or 'none'))
ok_a = (len(bmc.bridged) == 1 and bmc.bridged[0][0] == 7
        and bmc.bridged[0][1] == 0x82 and bmc.bridged[0][5] == 0x02
        and not resets)
if not ok_a:
    violations += 1
    print('    VIOLATION: -t 0x82 is ignored and the channel number 7 is used '
          'as IPMB responder address')

# ------------------------------------------------------- (b) ipmitool back-end
cmds = []


def fake_run(cmd):
    cmds.append(cmd)
    return b'\n', 0        # what `ipmitool raw 0x06 0x02` prints: nothing


ipmitool_intf.Ipmitool._run_ipmitool = staticmethod(fake_run)
res = run_tool(ARGV, interface='ipmitool')
print('(b) ipmitool.py -I ipmitool %s' % ' '.join(ARGV))
print('    tool: %s' % res.describe())
print('    expected shell command to contain: -t 0x82 -b 7')
for c in cmds:
    print('    got: %s' % c)
ok_b = len(cmds) == 1 and ' -t 0x82' in cmds[0] and ' -b 7' in cmds[0]
if not ok_b:
    violations += 1
    print('    VIOLATION: neither target address nor channel reach ipmitool; '
          'the BMC itself is cold-reset')

sys.exit(1 if violations else 0)
