#!/usr/bin/env python
"""C20 finding 11: 'hpm install' - a BMC error code in the upgrade stage ends
the tool with an uncaught HpmError (traceback, nothing on stdout) instead of a
message and sys.exit(1).

Hpm.initiate_upgrade_action_and_wait(), upload_binary(),
finish_upload_and_wait() and activate_firmware_and_wait() convert every
completion code other than 80h into pyipmi.errors.HpmError('... CC=0x..');
main() maps CompletionCodeError and IpmiTimeoutError only.  The same
completion code on the first commands of the sequence (Abort Firmware Upgrade,
Get Device ID, Get Target Upgrade Capabilities) is reported properly.

The BMC model answers the HPM.1 commands per PICMG HPM.1 R1.0 (tables 3-3 ..
3-10) for the image tests/hpm_bin/firmware.hpm (device id 4, manufacturer
15000, product 1701, component 1) and returns D5h "command not supported in
present state" for one command of the sequence.
"""
import os
import sys

sys.path.insert(0, os.path.join(os.path.dirname(os.path.abspath(__file__)), '..'))
from common import Bmc, run_tool, ROOT      # noqa: E402

HPM = os.path.join(ROOT, 'tests', 'hpm_bin', 'firmware.hpm')
NAMES = {(0x2c, 0x30): 'Abort Firmware Upgrade',
         (0x2c, 0x2e): 'Get Target Upgrade Capabilities',
         (0x2c, 0x31): 'Initiate Upgrade Action',
         (0x2c, 0x32): 'Upload Firmware Block'}


class Ipmc(Bmc):
    fail = None

    def h_06_01(self, lun, d):
        return [0, 0x04, 0x81, 0x01, 0x23, 0x02, 0xbf,
                0x98, 0x3a, 0x00, 0xa5, 0x06]       # 15000 / 1701

    def h_2c_2e(self, lun, d):
        return [0, 0, 0x00, 0x6f, 5, 5, 5, 5, 0x02]  # component 1 present

    def h_2c_30(self, lun, d):
        return [0, 0]

    def h_2c_31(self, lun, d):
        return [0, 0]

    def h_2c_32(self, lun, d):
        return [0, 0]

    def handle(self, netfn, lun, cmd, data, target):
        if (netfn, cmd) == self.fail:
            self.log.append((netfn, lun, cmd, bytes(data), target))
            return bytes([0xd5])
        return Bmc.handle(self, netfn, lun, cmd, data, target)


violations = 0
for fail in sorted(NAMES):
    bmc = Ipmc()
    bmc.fail = fail
    res = run_tool(['hpm', 'install', HPM, '1'], bmc)
    print("ipmitool.py hpm install firmware.hpm 1   (BMC: D5h for '%s')"
          % NAMES[fail])
    print('  expected: a message on stdout, SystemExit with non-zero status')
    print('  got     : stdout %r, %s' % (res.stdout, res.describe()))
    if res.exc is not None or not res.status or not res.stdout:
        violations += 1
        print('  VIOLATION')

sys.exit(1 if violations else 0)
