#!/usr/bin/env python
"""C20 finding 2: 'picmg portstate get' / 'picmg portstate getall' raise
AttributeError for a channel that has no link.

PICMG 3.0, Get Port State (NetFn 2Ch, cmd 0Fh): the response is completion
code + PICMG identifier, followed by Link Info/State bytes only for the links
that exist on the channel.  A channel without link is answered with
[00h 00h] alone.  Picmg.get_port_state() returns (None, None) for that reply
(commit 9c86932 made exactly this case legal in the API), but the command-line
handlers pass the pair straight to print_link_state(), which dereferences
None.  'getall' walks over 3 x 16 channels, so on a real board (most channels
unused) it never completes.
"""
import os
import sys

sys.path.insert(0, os.path.join(os.path.dirname(os.path.abspath(__file__)), '..'))
from common import Bmc, run_tool, fmt_req    # noqa: E402


class AtcaBoard(Bmc):
    """Board with base channels 1-2 and fabric channel 1; only base channel 1
    and fabric channel 1 carry a link."""

    def h_2c_0f(self, lun, d):
        assert d[0] == 0x00                      # PICMG identifier
        chan, intf = d[1] & 0x3f, d[1] >> 6
        if (intf, chan) == (0, 1):               # base, 10/100/1000BASE-T, enabled
            return [0x00, 0x00, 0x01, 0x01, 0x00, 0x00, 0x01]
        if (intf, chan) == (1, 1):               # fabric, 1000BASE-BX, enabled
            return [0x00, 0x00, 0x41, 0x21, 0x00, 0x00, 0x01]
        if (intf, chan) == (0, 2):               # exists, no link configured
            return [0x00, 0x00]
        return [0xcc]                            # no such channel


violations = 0
for argv, expected_reqs in (
        (['picmg', 'portstate', 'get', '2', '0'], 1),
        (['picmg', 'portstate', 'getall'], 48)):
    bmc = AtcaBoard()
    res = run_tool(argv, bmc)
    print('ipmitool.py %s' % ' '.join(argv))
    print('  expected: completes (exit status 0) after %d Get Port State '
          'request(s); channels without link are skipped / reported as such'
          % expected_reqs)
    print('  got     : %s after %d request(s); last: %s'
          % (res.describe(), len(bmc.log), fmt_req(bmc.log[-1])))
    print('  stdout  : %r' % res.stdout)
    if res.exc is not None or res.status != 0 or len(bmc.log) != expected_reqs:
        violations += 1
        print('  VIOLATION')

sys.exit(1 if violations else 0)
