"""C09 finding 1: a bridged reply whose *inner* command id is 0x34 but whose
network function is not App (e.g. HPM.1 "Get Upgrade Status" = netfn 0x2c,
cmd 0x34) is mistaken for one more Send Message layer and is torn apart.

Run:  cd /tmp/hunt_c09 && /venv/bin/python -B _hunt/finding_1/demo.py

Everything below the library API is simulated from the IPMI v2.0 / HPM.1
specifications (RMCP header, IPMI v1.5 session header, IPMB framing,
Send Message request/response); none of the library's encoders is used to
build a stimulus.
"""
import sys
import traceback

sys.path.insert(0, '.')

import pyipmi                                                # noqa: E402
import pyipmi.interfaces                                     # noqa: E402
from pyipmi import Target                                    # noqa: E402
from pyipmi.interfaces.ipmb import decode_bridged_message    # noqa: E402

NETFN_APP = 0x06
NETFN_GROUP_EXT = 0x2c
CMD_SEND_MESSAGE = 0x34          # IPMI v2.0 sec. 22.7: App (06h) / 34h
CMD_GET_DEVICE_ID = 0x01         # App / 01h
CMD_HPM_GET_UPGRADE_STATUS = 0x34  # HPM.1 table 3-2: PICMG (2Ch) / 34h
CMD_HPM_FINISH_FW_UPLOAD = 0x33


def csum(bs):
    return (-sum(bs)) & 0xff


def ipmb_rsp(rq_sa, netfn, rq_lun, rs_sa, seq, rs_lun, cmd, data):
    """An IPMB response frame, built by hand from the spec."""
    head = [rq_sa, (netfn << 2) | rq_lun]
    head.append(csum(head))
    body = [rs_sa, (seq << 2) | rs_lun, cmd] + list(data)
    body.append(csum(body))
    return bytes(head + body)


def parse_req(frame):
    f = list(frame)
    assert (f[0] + f[1] + f[2]) & 0xff == 0, 'bad header checksum'
    assert sum(f[3:]) & 0xff == 0, 'bad payload checksum'
    return dict(rs_sa=f[0], netfn=f[1] >> 2, rs_lun=f[1] & 3, rq_sa=f[3],
                seq=f[4] >> 2, rq_lun=f[4] & 3, cmd=f[5], data=bytes(f[6:-1]))


class Device(object):
    """The final target (an IPMC/MMC)."""

    def answer(self, req):
        if (req['netfn'], req['cmd']) == (NETFN_APP, CMD_GET_DEVICE_ID):
            data = [0x00, 0x12, 0x01, 0x02, 0x30, 0x02, 0x29, 0x3a, 0x98,
                    0x00, 0x34, 0x12]
        elif (req['netfn'], req['cmd']) == (NETFN_GROUP_EXT,
                                            CMD_HPM_GET_UPGRADE_STATUS):
            assert req['data'] == b'\x00'          # PICMG identifier
            # cc, PICMG id, command in progress, last completion code
            data = [0x00, 0x00, CMD_HPM_FINISH_FW_UPLOAD, 0x00]
        else:
            data = [0xc1]
        return ipmb_rsp(req['rq_sa'], req['netfn'] | 1, req['rq_lun'],
                        req['rs_sa'], req['seq'], req['rs_lun'], req['cmd'],
                        data)


class Chain(object):
    """A chain of bridges in front of a Device.  Every bridge accepts a
    Send Message request with tracking, forwards the embedded frame, and
    returns the forwarded reply as data of its Send Message response."""

    def __init__(self, device):
        self.device = device
        self.n_wrappers = 0

    def handle(self, frame):
        req = parse_req(frame)
        if (req['netfn'], req['cmd']) == (NETFN_APP, CMD_SEND_MESSAGE):
            assert req['data'][0] >> 6 == 1, 'tracking not requested'
            self.n_wrappers += 1
            inner_rsp = self.handle(req['data'][1:])
            return ipmb_rsp(req['rq_sa'], NETFN_APP | 1, 0, req['rs_sa'],
                            req['seq'], 0, CMD_SEND_MESSAGE,
                            [0x00] + list(inner_rsp))
        self.last_target_reply = self.device.answer(req)
        return self.last_target_reply


class FakeSocket(object):
    """UDP socket towards a BMC: RMCP + IPMI v1.5 session header (no auth)."""

    def __init__(self, chain):
        self.chain = chain
        self.pending = []

    def settimeout(self, t):
        pass

    def sendto(self, pdu, addr):
        pdu = bytes(pdu)
        assert pdu[0:4] == b'\x06\x00\xff\x07', pdu[0:4]
        assert pdu[4] == 0                         # auth type none
        length = pdu[13]
        frame = pdu[14:14 + length]
        rsp = self.chain.handle(frame)
        self.pending.append(b'\x06\x00\xff\x07' + b'\x00' + b'\x00' * 8
                            + bytes([len(rsp)]) + rsp)

    def recvfrom(self, n):
        import socket
        if not self.pending:
            raise socket.timeout()
        return self.pending.pop(0), ('bmc', 623)


ROUTES = {
    1: [(0x20, 0x72, None)],
    2: [(0x81, 0x20, 7), (0x20, 0x72, None)],
    3: [(0x81, 0x20, 0), (0x20, 0x82, 7), (0x20, 0x72, None)],
    4: [(0x81, 0x20, 0), (0x20, 0x82, 7), (0x20, 0x74, 3), (0x74, 0x72, None)],
}


def connection(depth):
    interface = pyipmi.interfaces.create_interface('rmcp', keep_alive_interval=0)
    chain = Chain(Device())
    interface._sock = FakeSocket(chain)
    interface.host, interface.port = 'bmc', 623
    ipmi = pyipmi.create_connection(interface)
    ipmi.target = Target(ROUTES[depth][-1][1], routing=ROUTES[depth])
    return ipmi, chain


violations = 0

print('== A. through the transport (Rmcp), routed target =================')
for depth in (1, 2, 3, 4):
    # control: an ordinary command over the very same simulated chain
    ipmi, chain = connection(depth)
    dev = ipmi.get_device_id()
    assert dev.device_id == 0x12 and chain.n_wrappers == depth - 1
    print('depth %d  Get Device ID (App/01h)          -> ok (device id 0x%02x, '
          '%d Send Message layers)' % (depth, dev.device_id, chain.n_wrappers))

    ipmi, chain = connection(depth)
    expected = bytes([0x00, 0x00, CMD_HPM_FINISH_FW_UPLOAD, 0x00])
    try:
        got = ipmi.raw_command(0, NETFN_GROUP_EXT,
                               bytes([CMD_HPM_GET_UPGRADE_STATUS, 0x00]))
        got = bytes(got)
        res = 'returned %s' % got.hex(' ')
        bad = got != expected
    except Exception as e:          # noqa
        res = 'raised %s: %s' % (type(e).__name__, e)
        bad = True
    print('depth %d  Get Upgrade Status (PICMG 2Ch/34h) target reply = %s'
          % (depth, chain.last_target_reply.hex(' ')))
    print('         expected cc+data %s ; %s' % (expected.hex(' '), res))
    if bad:
        violations += 1

    ipmi, chain = connection(depth)
    try:
        st = ipmi.get_upgrade_status()
        res = 'command_in_progress=0x%02x last_cc=0x%02x' % (
            st.command_in_progress, st.last_completion_code)
        bad = (st.command_in_progress, st.last_completion_code) != (0x33, 0)
    except Exception as e:          # noqa
        res = 'raised %s: %s' % (type(e).__name__, e)
        bad = True
    print('         Ipmi.get_upgrade_status(): expected command_in_progress='
          '0x33 last_cc=0x00 ; %s' % res)
    if bad:
        violations += 1

print()
print('== B. decode_bridged_message alone ================================')
# the target's reply to Get Upgrade Status, seq 5, from 0x72 to 0x20
target_reply = ipmb_rsp(0x20, NETFN_GROUP_EXT | 1, 0, 0x72, 5, 0,
                        CMD_HPM_GET_UPGRADE_STATUS, [0x00, 0x00, 0x33, 0x00])
wrapped = ipmb_rsp(0x81, NETFN_APP | 1, 0, 0x20, 5, 0, CMD_SEND_MESSAGE,
                   [0x00] + list(target_reply))
print('wrapped reply : %s' % wrapped.hex(' '))
print('expected      : %s' % target_reply.hex(' '))
try:
    got = bytes(decode_bridged_message(wrapped))
    print('got           : %s' % (got.hex(' ') or '<empty>'))
    if got != target_reply:
        violations += 1
except Exception:
    traceback.print_exc()
    violations += 1

# same reply, but the target reports cc=0x80 ("upgrade in progress"):
# the *target's* completion code is raised as if a Send Message had failed
target_reply = ipmb_rsp(0x20, NETFN_GROUP_EXT | 1, 0, 0x72, 5, 0,
                        CMD_HPM_GET_UPGRADE_STATUS, [0x80])
wrapped = ipmb_rsp(0x81, NETFN_APP | 1, 0, 0x20, 5, 0, CMD_SEND_MESSAGE,
                   [0x00] + list(target_reply))
print('wrapped reply : %s   (all Send Message layers have cc=00)'
      % wrapped.hex(' '))
print('expected      : %s' % target_reply.hex(' '))
try:
    got = bytes(decode_bridged_message(wrapped))
    print('got           : %s' % (got.hex(' ') or '<empty>'))
    if got != target_reply:
        violations += 1
except Exception as e:
    print('got           : raised %s: %s' % (type(e).__name__, e))
    violations += 1

print()
if violations:
    print('C09 VIOLATED in %d checks: the reply does not unwrap to exactly '
          'the target\'s reply' % violations)
    sys.exit(1)
print('C09 holds for inner commands with id 0x34 outside NetFn App')
sys.exit(0)
