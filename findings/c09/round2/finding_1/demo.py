"""C09 finding 1: the ipmb-dev and Aardvark transports ignore Target.routing.

A target that is reachable only through a bridge (routing with two or more
hops) is given to the two IPMB transports.  The property demands that the
transmitted request is a nest of Send Message commands, one per intermediate
hop.  Both transports transmit the bare request straight to
target.ipmb_address on the local bus instead (where another controller may own
that address), without any error.

Run: cd /tmp/hunt2_c09 && /venv/bin/python -B _hunt/finding_1/demo.py
"""
import os
import socket
import sys
import types

sys.path.insert(0, os.getcwd())

# a fake pyaardvark module (the real one needs the USB adapter)
fake = types.ModuleType('pyaardvark')


class FakeAardvarkDevice(object):
    def __init__(self):
        self.written = []       # (i2c address, bytes)
        self.rx = []            # (i2c address, bytes) to be read as slave

    def enable_i2c_slave(self, addr):
        pass

    def i2c_master_write(self, addr, data):
        self.written.append((addr, bytes(bytearray(data))))

    def poll(self, timeout):
        return [1] if self.rx else []

    def i2c_slave_read(self):
        return self.rx.pop(0)

    def close(self):
        pass


fake.open = lambda port, serial_number=None: FakeAardvarkDevice()
sys.modules['pyaardvark'] = fake

import pyipmi                                            # noqa: E402
from pyipmi.interfaces.ipmbdev import IpmbDev            # noqa: E402
from pyipmi.interfaces.aardvark import Aardvark          # noqa: E402
from pyipmi.errors import NotSupportedError              # noqa: E402


def cs(b):
    return (-sum(bytearray(b))) & 0xff


def frame(a, netfn, lun_a, b, seq, lun_b, cmd, data=b''):
    """IPMB frame built from the IPMI specification (not with the library)."""
    h = bytes(bytearray([a, (netfn << 2) | lun_a]))
    h += bytes(bytearray([cs(h)]))
    t = bytes(bytearray([b, (seq << 2) | lun_b, cmd])) + data
    return h + t + bytes(bytearray([cs(t)]))


def peel(tx, routing, netfn, lun, cmd, payload):
    """Independent chain of bridges: every intermediate hop must get a
    Send Message (NetFn App 06h, cmd 34h) addressed to it, with its channel
    number and tracking 01b; the innermost frame is the request itself."""
    problems = []
    cur = bytes(tx)
    for i, (rq, rs, ch) in enumerate(routing[:-1]):
        if len(cur) < 8 or cur[0] != rs or cur[1] >> 2 != 0x06 \
                or cur[5] != 0x34:
            problems.append('hop %d: no Send Message addressed to bridge %02xh'
                            ' (frame starts %s)' % (i, rs, cur[:6].hex()))
            return problems
        if cs(cur[0:2]) != cur[2] or cs(cur[3:-1]) != cur[-1]:
            problems.append('hop %d: bad checksum' % i)
        if cur[3] != rq:
            problems.append('hop %d: rq_sa %02xh != %02xh' % (i, cur[3], rq))
        if cur[6] != (0x40 | ch):
            problems.append('hop %d: channel byte %02xh != %02xh'
                            % (i, cur[6], 0x40 | ch))
        cur = cur[7:-1]
    rq, rs, _ = routing[-1]
    seq = cur[4] >> 2 if len(cur) > 4 else 0
    if cur != frame(rs, netfn, lun, rq, seq, 0, cmd, payload):
        problems.append('innermost frame %s is not the request %02xh->%02xh'
                        % (cur.hex(), rq, rs))
    return problems


# An AMC module (MMC, IPMB-L address 72h) behind the carrier IPMC 82h, which
# bridges to IPMB-L on channel 7.  We sit on IPMB-0 with address 20h.  On
# IPMB-0 the address 72h belongs to a different FRU (hardware address 39h).
ROUTING = [(0x20, 0x82, 7), (0x20, 0x72, None)]
GET_DEVICE_ID = b'\x01'
violations = 0


def report(name, transmitted, raised):
    global violations
    print('--- %s' % name)
    print('target : ipmb_address=72h routing=%s' % (ROUTING,))
    print('request: Get Device ID (NetFn 06h, cmd 01h)')
    exp = frame(0x82, 0x06, 0, 0x20, 1, 0, 0x34,
                b'\x47' + frame(0x72, 0x06, 0, 0x20, 1, 0, 0x01))
    print('expected on the wire: %s' % exp.hex(' '))
    print('   (Send Message to 82h, channel 7, tracking on, embedding the '
          'request 20h->72h)')
    if raised is not None and not transmitted:
        print('got: nothing transmitted, %r raised -> no un-bridged request '
              'left the transport' % (raised,))
        return
    for tx in transmitted:
        print('got on the wire     : %s' % tx.hex(' '))
        problems = peel(tx, ROUTING, 0x06, 0, 0x01, b'')
        for p in problems:
            print('   VIOLATION: %s' % p)
        if problems:
            violations += 1
            print('   the bare request was written to I2C address %02xh '
                  '(IPMB %02xh) of the LOCAL bus' % (tx[0] >> 1, tx[0]))


# ---------------------------------------------------------------- ipmb-dev
a, b = socket.socketpair(socket.AF_UNIX, socket.SOCK_SEQPACKET)
dev = IpmbDev(slave_address=0x20, port='/dev/ipmb-0')
dev._dev = a.fileno()           # what open() would have stored
dev.max_retries = 1
# whoever owns 72h on the local bus answers (sequence number 1)
rsp = frame(0x20, 0x07, 0, 0x72, 1, 0, 0x01, b'\x00' + bytes(11))
b.send(bytes(bytearray([len(rsp)])) + rsp)

target = pyipmi.Target(ipmb_address=0x72, routing=ROUTING)
raised = None
try:
    data = dev.send_and_receive_raw(target, 0, 0x06, GET_DEVICE_ID)
    print('ipmb-dev returned %s without any error' % bytes(data).hex(' '))
except NotSupportedError as e:
    raised = e
b.setblocking(False)
sent = []
try:
    while True:
        pkt = b.recv(512)
        sent.append(pkt[1:])        # first byte is the driver's length byte
except (BlockingIOError, OSError):
    pass
report('ipmb-dev transport (IpmbDev)', sent, raised)

# ---------------------------------------------------------------- Aardvark
aard = Aardvark(slave_address=0x20)
aard.open()
aard.max_retries = 1
rsp = frame(0x20, 0x07, 0, 0x72, 1, 0, 0x01, b'\x00' + bytes(11))
aard._dev.rx.append((0x20 >> 1, rsp[1:]))       # slave read: without address
target = pyipmi.Target(ipmb_address=0x72, routing=ROUTING)
raised = None
try:
    data = aard.send_and_receive_raw(target, 0, 0x06, GET_DEVICE_ID)
    print('Aardvark returned %s without any error' % bytes(data).hex(' '))
except NotSupportedError as e:
    raised = e
sent = [bytes(bytearray([addr << 1])) + d for addr, d in aard._dev.written]
report('Aardvark transport', sent, raised)

print()
if violations:
    print('PROPERTY VIOLATED: %d transport(s) transmitted a routed request '
          'without the Send Message nest' % violations)
    sys.exit(1)
print('property holds: no routed request left a transport un-bridged')
sys.exit(0)
