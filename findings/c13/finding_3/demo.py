#!/usr/bin/env python
"""C13 finding 3: the reservation loop of get_and_clear_sel_entry() is
unbounded.

Run:  cd /tmp/hunt_c13 && /venv/bin/python -B _hunt/finding_3/demo.py

pyipmi/sel.py:get_and_clear_sel_entry() reserves the SEL, reads a record and
deletes it; whenever the device answers 0xC5 (reservation cancelled) it starts
over - without any retry budget.  Outcome sequence used here: a second
management client reserves the SEL between our Get and our Delete every time,
so every Delete SEL Entry (0x0a/0x46) is answered with 0xC5.  (Reserve SEL
0x0a/0x42, Get SEL Entry 0x0a/0x43; IPMI v2.0 section 31.)

Property clause checked (title + last clause of the first sentence):
"Retry/reservation loops terminate ... raise the retry-exhausted error instead
of looping forever".
"""
import os
import sys

sys.path.insert(0, os.getcwd())

import pyipmi                                            # noqa: E402
from pyipmi.errors import RetryError                     # noqa: E402
from pyipmi.msgs import (create_message, encode_message,  # noqa: E402
                         decode_message)

GIVE_UP_AFTER = 3000      # the demo's own guard, the library has none

# one 16 byte system event record, id 0x0001
RECORD = bytes((0x01, 0x00, 0x02, 0x11, 0x22, 0x33, 0x44, 0x20, 0x00, 0x04,
                0x01, 0x30, 0x01, 0x57, 0xff, 0xff))


class Runaway(BaseException):
    pass


class FakeBmc(object):
    def __init__(self):
        self.reservation = 0x0200
        self.count = {'reserve': 0, 'get': 0, 'delete': 0}

    def handle(self, netfn, cmd, data):
        if sum(self.count.values()) >= GIVE_UP_AFTER:
            raise Runaway()
        assert netfn == 0x0a
        if cmd == 0x42:
            self.count['reserve'] += 1
            self.reservation += 1
            return bytes((0x00, self.reservation & 0xff,
                          self.reservation >> 8))
        if cmd == 0x43:
            self.count['get'] += 1
            return bytes((0x00, 0xff, 0xff)) + RECORD
        if cmd == 0x46:
            self.count['delete'] += 1
            # the other client has reserved the SEL in the meantime
            self.reservation += 1
            return bytes((0xc5,))
        raise AssertionError(cmd)


class FakeInterface(object):
    def __init__(self, bmc):
        self.bmc = bmc

    def send_and_receive(self, req):
        rx = self.bmc.handle(req.netfn, req.cmdid,
                             bytearray(encode_message(req)))
        rsp = create_message(req.netfn + 1, req.cmdid, req.group_extension)
        decode_message(rsp, rx)
        return rsp


def main():
    bmc = FakeBmc()
    ipmi = pyipmi.Ipmi(interface=FakeInterface(bmc),
                       target=pyipmi.Target(0x20))
    try:
        ipmi.get_and_clear_sel_entry(0x0001)
        outcome = 'returned'
    except RetryError:
        outcome = 'RetryError'
    except Runaway:
        outcome = 'STILL LOOPING'
    except Exception as e:
        outcome = 'raised %s' % type(e).__name__

    print('device outcome sequence : Delete SEL Entry -> 0xC5 (reservation '
          'cancelled), every time')
    print('expected                : RetryError after a bounded number of '
          'requests')
    print('got                     : %s after %d Reserve, %d Get and %d '
          'Delete requests' % (outcome, bmc.count['reserve'],
                               bmc.count['get'], bmc.count['delete']))
    if outcome != 'RetryError':
        print('\nPROPERTY VIOLATED: unbounded reservation loop')
        sys.exit(1)
    print('\nproperty holds')
    sys.exit(0)


if __name__ == '__main__':
    main()
