#!/usr/bin/env python
"""C13 finding 1: record-chunk fetching keeps using a STALE reservation id.

Run:  cd /tmp/hunt_c13 && /venv/bin/python -B _hunt/finding_1/demo.py

A byte-level fake BMC (built from IPMI v2.0 section 33: Reserve SDR Repository
0x0a/0x22, Get SDR 0x0a/0x23) sits below the real, unmodified
pyipmi.Ipmi.get_repository_sdr() / sdr_repository_entries().  The BMC cancels
the reservation ONCE while a record is being read (this is what happens when a
record is added/deleted or another requester reserves the repository).

Property clause checked: "record-chunk fetching ... always use the most
recently obtained reservation".
"""
import os
import sys
import time

sys.path.insert(0, os.getcwd())
time.sleep = lambda s: None          # the library sleeps 1 s per cancellation

import pyipmi                                            # noqa: E402
from pyipmi.msgs import (create_message, encode_message,  # noqa: E402
                         decode_message)

NETFN_STORAGE = 0x0a
CMD_RESERVE_SDR_REPOSITORY = 0x22
CMD_GET_SDR = 0x23
CC_OK = 0x00
CC_RES_CANCELED = 0xc5


def oem_record(record_id, payload_len):
    # SDR header: id(2, LS first) version(0x51) type(0xc0 OEM) length
    body = bytes((i & 0xff) for i in range(payload_len))
    return bytes((record_id & 0xff, record_id >> 8, 0x51, 0xc0,
                  payload_len)) + body


class FakeBmc(object):
    """SDR repository device, speaks raw request/response bytes."""

    def __init__(self, records, cancel_at_get_sdr_number):
        self.records = records               # list of (record_id, bytes)
        self.current_reservation = 0x0100
        self.cancel_at = cancel_at_get_sdr_number
        self.n_get_sdr = 0
        self.trace = []                      # what the library put on the wire

    def _next_id(self, record_id):
        ids = [r[0] for r in self.records]
        i = ids.index(record_id)
        return ids[i + 1] if i + 1 < len(ids) else 0xffff

    def handle(self, netfn, cmd, data):
        if (netfn, cmd) == (NETFN_STORAGE, CMD_RESERVE_SDR_REPOSITORY):
            self.current_reservation += 1
            self.trace.append(('reserve', self.current_reservation))
            r = self.current_reservation
            return bytes((CC_OK, r & 0xff, r >> 8))
        if (netfn, cmd) == (NETFN_STORAGE, CMD_GET_SDR):
            res = data[0] | data[1] << 8
            rec = data[2] | data[3] << 8
            offset, count = data[4], data[5]
            self.n_get_sdr += 1
            if self.n_get_sdr == self.cancel_at:
                # repository changed / somebody else reserved it
                self.current_reservation += 1
            # IPMI 33.12: the reservation id is checked for partial reads
            # (offset != 0)
            if offset != 0 and res != self.current_reservation:
                self.trace.append(('get_sdr', res, rec, offset, 'CANCELED'))
                return bytes((CC_RES_CANCELED,))
            self.trace.append(('get_sdr', res, rec, offset, 'ok'))
            if rec == 0:
                rec = self.records[0][0]
            raw = dict(self.records)[rec]
            nxt = self._next_id(rec)
            return bytes((CC_OK, nxt & 0xff, nxt >> 8)) \
                + raw[offset:offset + count]
        raise AssertionError('unexpected command %x/%x' % (netfn, cmd))


class FakeInterface(object):
    """Same shape as pyipmi.interfaces.*.send_and_receive()."""

    def __init__(self, bmc):
        self.bmc = bmc

    def send_and_receive(self, req):
        rx = self.bmc.handle(req.netfn, req.cmdid,
                             bytearray(encode_message(req)))
        rsp = create_message(req.netfn + 1, req.cmdid, req.group_extension)
        decode_message(rsp, rx)
        return rsp


def stale_requests(trace):
    """Get SDR requests that carried a reservation id although the library
    had already obtained a newer one."""
    newest = None
    stale = []
    for t in trace:
        if t[0] == 'reserve':
            newest = t[1]
        elif newest is not None and t[1] != newest:
            stale.append(t)
    return stale


def scenario(title, records, cancel_at, run):
    bmc = FakeBmc(records, cancel_at)
    ipmi = pyipmi.Ipmi(interface=FakeInterface(bmc),
                       target=pyipmi.Target(0x20))
    result = run(ipmi)
    print('--- %s' % title)
    for t in bmc.trace:
        if t[0] == 'reserve':
            print('   Reserve SDR Repository      -> reservation 0x%04x' % t[1])
        else:
            print('   Get SDR res=0x%04x rec=0x%04x offset=%-3d -> %s'
                  % t[1:])
    stale = stale_requests(bmc.trace)
    n_res = len([t for t in bmc.trace if t[0] == 'reserve'])
    print('   records read correctly : %s' % result)
    print('   Reserve commands       : %d (expected 2: the initial one and '
          'one after the single cancellation)' % n_res)
    print('   requests with a stale reservation id (expected 0): %d'
          % len(stale))
    return len(stale), n_res


def main():
    rec1 = oem_record(0x0001, 75)      # 80 bytes -> header + 4 chunks
    rec2 = oem_record(0x0002, 55)      # 60 bytes -> header + 3 chunks

    def single(ipmi):
        s = ipmi.get_repository_sdr(0x0001)
        return bytes(bytearray(s.data)) == rec1

    def iterate(ipmi):
        got = [bytes(bytearray(s.data)) for s in ipmi.sdr_repository_entries()]
        return got == [rec1, rec2]

    # the 3rd Get SDR (= 2nd data chunk) meets a cancelled reservation
    bad1, res1 = scenario('get_repository_sdr(1), reservation cancelled once',
                          [(1, rec1)], 3, single)
    bad2, res2 = scenario('sdr_repository_entries(), reservation cancelled '
                          'once', [(1, rec1), (2, rec2)], 3, iterate)

    if bad1 or bad2 or res1 != 2 or res2 != 2:
        print('\nPROPERTY VIOLATED: after the library obtained a new '
              'reservation it went on sending the old one\n(every later '
              'chunk costs a rejected request, a 1 s sleep and one more '
              'Reserve command).')
        sys.exit(1)
    print('\nproperty holds')
    sys.exit(0)


if __name__ == '__main__':
    main()
