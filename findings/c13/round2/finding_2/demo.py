"""C13 finding 2: the node-busy retry of Ipmi.send_message cannot be reached
through any transport of the library - a request answered "node busy" (C0h) is
never repeated.

run:  cd /tmp/hunt2_c13 && /venv/bin/python -B _hunt/finding_2/demo.py
"""
from __future__ import print_function
import os
import struct
import sys

sys.path.insert(0, os.getcwd())
sys.path.insert(0, os.path.join(os.getcwd(), '_hunt'))

import pyipmi                                        # noqa: E402
from pyipmi.errors import RetryError, CompletionCodeError   # noqa: E402
from pyipmi.msgs import create_request_by_name       # noqa: E402
import ipmbsim                                       # noqa: E402

assert pyipmi.__file__.startswith(os.getcwd()), pyipmi.__file__

CC_NODE_BUSY = 0xc0
NETFN_STORAGE = 0x0a
CMD_RESERVE_SEL = 0x42


def expected(busy, budget):
    """Statement: 'Sending a message is repeated only after node-busy and at
    most the configured number of times' / 'raise the retry-exhausted error'."""
    if busy < budget:
        return busy + 1, 'completed'
    return budget, 'RetryError'


def outcome_of(call):
    try:
        rsp = call()
    except RetryError:
        return 'RetryError'
    except CompletionCodeError as e:
        return 'CompletionCodeError(%02Xh)' % e.cc
    cc = rsp.completion_code
    return 'completed' if cc == 0 else 'returned a response with cc=%02Xh' % cc


def on_ipmbdev(busy, budget):
    """Real transport pyipmi.interfaces.ipmbdev.IpmbDev on a fake device file."""
    state = {'busy': busy}

    def handler(netfn, cmd, data):
        assert (netfn, cmd) == (NETFN_STORAGE, CMD_RESERVE_SEL)
        if state['busy'] > 0:
            state['busy'] -= 1
            return [CC_NODE_BUSY]
        return [0x00] + list(bytearray(struct.pack('<H', 0x1234)))

    ipmi, ipmc = ipmbsim.connect(handler)
    req = create_request_by_name('ReserveSel')
    got = outcome_of(lambda: ipmi.send_message(req, retry=budget))
    n = len(ipmc.requests)
    ipmc.stop()
    return n, got


def on_ipmitool(busy, budget):
    """Real transport pyipmi.interfaces.ipmitool.Ipmitool; only the child
    process is replaced, by the text ipmitool prints (lib/ipmi_raw.c:
    'Unable to send RAW command (channel=.. netfn=.. lun=.. cmd=.. rsp=..): ..')."""
    from pyipmi.interfaces.ipmitool import Ipmitool
    state = {'busy': busy, 'n': 0}

    def run_ipmitool(cmd):
        state['n'] += 1
        if state['busy'] > 0:
            state['busy'] -= 1
            return (b'Unable to send RAW command (channel=0x0 netfn=0xa '
                    b'lun=0x0 cmd=0x42 rsp=0xc0): Node busy\n', 1)
        return (b' 34 12\n', 0)

    intf = Ipmitool(interface_type='open')
    intf._run_ipmitool = run_ipmitool
    ipmi = pyipmi.Ipmi(interface=intf)
    ipmi.session.establish()
    ipmi.target = pyipmi.Target(0x20)
    req = create_request_by_name('ReserveSel')
    got = outcome_of(lambda: ipmi.send_message(req, retry=budget))
    return state['n'], got


def on_raising_mock(busy, budget):
    """Control: what tests/test_ipmi.py does - an interface object that RAISES
    CompletionCodeError(C0h).  No transport of the library behaves like this."""
    state = {'busy': busy, 'n': 0}

    class Raising(object):
        def send_and_receive(self, req):
            state['n'] += 1
            if state['busy'] > 0:
                state['busy'] -= 1
                raise CompletionCodeError(CC_NODE_BUSY)

            class Rsp(object):
                completion_code = 0
            return Rsp()

    ipmi = pyipmi.Ipmi(interface=Raising())
    ipmi.target = pyipmi.Target(0x20)
    req = create_request_by_name('ReserveSel')
    got = outcome_of(lambda: ipmi.send_message(req, retry=budget))
    return state['n'], got


def main():
    bad = 0
    print('device: answers Reserve SEL (0Ah/42h) with C0h "node busy" `busy` '
          'times, then with 00 34 12')
    print('%-28s %4s %6s | %-22s | %s' % ('transport', 'busy', 'budget',
                                           'expected (sends, end)',
                                           'got (sends, end)'))
    for name, fn in (('raising mock (control)', on_raising_mock),
                     ('IpmbDev', on_ipmbdev),
                     ('Ipmitool', on_ipmitool)):
        for budget in (1, 3, 6):
            for busy in sorted(set((0, 1, budget - 1, budget, budget + 2))):
                exp = expected(busy, budget)
                got = fn(busy, budget)
                ok = exp == got
                if not ok and name.endswith('(control)'):
                    print('control failed'); return 2
                bad += 0 if ok else 1
                if not ok or busy in (0, 1):
                    print('%-28s %4d %6d | %-22s | %s   [%s]'
                          % (name, busy, budget, '%d, %s' % exp,
                             '%d, %s' % got, 'ok' if ok else 'VIOLATION'))

    # what the caller of the high level API sees: one busy answer is fatal
    state = {'busy': 1}

    def handler(netfn, cmd, data):
        if state['busy'] > 0:
            state['busy'] -= 1
            return [CC_NODE_BUSY]
        return [0x00] + list(bytearray(struct.pack('<H', 0x1234)))
    ipmi, ipmc = ipmbsim.connect(handler)
    try:
        print('\nget_sel_reservation_id() with one busy answer ->',
              hex(ipmi.get_sel_reservation_id()))
    except CompletionCodeError as e:
        print('\nget_sel_reservation_id() with one busy answer -> %s after %d '
              'request(s); expected 0x1234 after 2' % (e, len(ipmc.requests)))
        bad += 1
    ipmc.stop()

    if bad:
        print('\nPROPERTY VIOLATED in %d cases: after node busy the request '
              'is not repeated at all, the budget is never used and '
              'RetryError is never raised' % bad)
        return 1
    print('\nproperty holds')
    return 0


if __name__ == '__main__':
    sys.exit(main())
