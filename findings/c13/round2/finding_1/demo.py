"""C13 finding 1: Sel.get_sel_entry never ends when the device answers
Get SEL Entry with completion code 00h and no record bytes.

run:  cd /tmp/hunt2_c13 && /venv/bin/python -B _hunt/finding_1/demo.py
"""
from __future__ import print_function
import os
import struct
import sys
import time

sys.path.insert(0, os.getcwd())
sys.path.insert(0, os.path.join(os.getcwd(), '_hunt'))

import pyipmi                                   # noqa: E402
from pyipmi.errors import (RetryError, CompletionCodeError,   # noqa: E402
                           DecodingError, IpmiTimeoutError)
import ipmbsim                                  # noqa: E402

assert pyipmi.__file__.startswith(os.getcwd()), pyipmi.__file__

NETFN_STORAGE = 0x0a
CMD_RESERVE_SEL = 0x42
CMD_GET_SEL_ENTRY = 0x43
CMD_DELETE_SEL_ENTRY = 0x46

# a bound no correct fetch of a 16 byte record comes near: 0xff refused, 16..2
# refused, then sixteen 1-byte reads = 32 requests.
BOUND = 64
CUT_OFF = 2000      # the fake IPMC stops answering here, else the demo never ends

RECORD = [0x05, 0x00, 0x02, 0x11, 0x22, 0x33, 0x44, 0x20, 0x00, 0x04,
          0x01, 0x10, 0x6f, 0xa1, 0xff, 0xff]


def make_device(empty_answers):
    """Get SEL Entry: the first `empty_answers` answers are `00 FF FF` (completed,
    next record id FFFFh, zero record bytes), later ones carry the data."""
    state = {'empty': empty_answers, 'rid': 0x1000}

    def handler(netfn, cmd, data):
        assert netfn == NETFN_STORAGE
        if cmd == CMD_RESERVE_SEL:
            state['rid'] += 1
            return [0x00] + list(bytearray(struct.pack('<H', state['rid'])))
        if cmd == CMD_GET_SEL_ENTRY:
            _res, _rec, offset, length = struct.unpack('<HHBB', data)
            if state['empty'] > 0:
                state['empty'] -= 1
                return [0x00, 0xff, 0xff]
            if length == 0xff:
                length = 16
            return [0x00, 0xff, 0xff] + RECORD[offset:offset + length]
        if cmd == CMD_DELETE_SEL_ENTRY:
            return [0x00] + list(bytearray(data[2:4]))
        return [0xc1]
    return handler


def attempt(label, call, empty_answers):
    ipmi, ipmc = ipmbsim.connect(make_device(empty_answers), CUT_OFF)
    t0 = time.time()
    try:
        result = ('returned', call(ipmi))
    except (RetryError, CompletionCodeError, DecodingError) as e:
        result = ('raised', repr(e))
    except IpmiTimeoutError as e:
        result = ('cut off', 'the fake IPMC stopped answering after %d '
                  'requests' % CUT_OFF)
    n = sum(1 for r in ipmc.requests if r[1] == CMD_GET_SEL_ENTRY)
    ipmc.stop()
    ok = n <= BOUND and result[0] != 'cut off'
    print('%-44s Get SEL Entry requests: %5d   outcome: %s %s   [%s]'
          % (label, n, result[0],
             result[1] if result[0] != 'returned' else '',
             'ok' if ok else 'VIOLATION'))
    if n > 3:
        last = ipmc.requests[-1]
        print('    every request was', ' '.join('%02x' % b for b in
                                                bytearray(last[2])),
              '(offset %d never advanced)' % bytearray(last[2])[4])
    return ok


def main():
    print('device: Get SEL Entry (NetFn Storage 0Ah, cmd 43h) answers')
    print('        "00 FF FF" = completion code 00h, next record id FFFFh, '
          'no record data')
    print('expected: at most %d requests, then RetryError (or another error); '
          % BOUND)
    print('          "raise the retry-exhausted error instead of looping '
          'forever"\n')
    results = []
    # control: a healthy device
    results.append(attempt('control, healthy device: get_sel_entry',
                           lambda i: i.get_sel_entry(5, 0), 0))
    results.append(attempt('get_sel_entry(5)',
                           lambda i: i.get_sel_entry(5, 0), 10 ** 9))
    results.append(attempt('get_and_clear_sel_entry(5, retry=1)',
                           lambda i: i.get_and_clear_sel_entry(5, 1), 10 ** 9))
    if all(results):
        print('\nproperty holds')
        return 0
    print('\nPROPERTY VIOLATED: the number of requests is not bounded; the '
          'loop only ended because the fake IPMC was switched off')
    return 1


if __name__ == '__main__':
    sys.exit(main())
