"""C13 finding 4: Ipmi.wait_until_ipmb_is_accessible does not stop when the
IPMC answers: it repeats the probe back to back, without pause, until the
timeout has passed.

run:  cd /tmp/hunt2_c13 && /venv/bin/python -B _hunt/finding_4/demo.py
"""
from __future__ import print_function
import os
import sys
import time

sys.path.insert(0, os.getcwd())
sys.path.insert(0, os.path.join(os.getcwd(), '_hunt'))

import pyipmi                                        # noqa: E402
import ipmbsim                                       # noqa: E402

assert pyipmi.__file__.startswith(os.getcwd()), pyipmi.__file__

# Get Device ID response of some IPMC (IPMI 2.0 table 20-2)
DEVICE_ID = [0x00, 0x12, 0x80, 0x01, 0x02, 0x51, 0x29, 0x57, 0x01, 0x00,
             0x34, 0x12]
TIMEOUT = 2.0        # seconds the caller is willing to wait
INTERVAL = 0.25      # the documented pause between two probes


def scenario(silent_probes):
    """The IPMC ignores the first `silent_probes` probes (still booting), then
    answers every Get Device ID (NetFn App 06h, cmd 01h)."""
    state = {'n': 0}

    def handler(netfn, cmd, data):
        assert (netfn, cmd) == (0x06, 0x01)
        return DEVICE_ID

    ipmi, ipmc = ipmbsim.connect(handler, max_requests=10 ** 7)
    # make the first probes go unanswered: swallow them in front of the IPMC
    real_send = ipmi.interface._send_raw

    def send_raw(header, raw):
        state['n'] += 1
        if state['n'] <= silent_probes:
            return                      # frame lost, nobody answers
        real_send(header, raw)
    ipmi.interface._send_raw = send_raw

    t0 = time.time()
    ipmi.wait_until_ipmb_is_accessible(TIMEOUT, INTERVAL)
    elapsed = time.time() - t0
    probes = state['n']
    ipmc.stop()

    # once a probe is answered the wait is over: the answered probe plus the
    # confirming one at the end of the function
    max_probes = silent_probes + 2
    max_time = silent_probes * (ipmi.interface.timeout + INTERVAL) + 0.5
    ok = probes <= max_probes and elapsed <= max_time
    print('IPMC silent for %d probe(s), then answering:' % silent_probes)
    print('   expected: at most %d probes, back after about %.2f s'
          % (max_probes, max_time - 0.5))
    print('   got     : %d probes, back after %.2f s (timeout %.1f s)   [%s]'
          % (probes, elapsed, TIMEOUT, 'ok' if ok else 'VIOLATION'))
    return ok


def main():
    results = [scenario(0), scenario(2)]
    if all(results):
        print('\nproperty holds')
        return 0
    print('\nPROPERTY VIOLATED: the retry loop has no exit on success; the '
          'number of requests is bounded only by how fast the bus is')
    return 1


if __name__ == '__main__':
    sys.exit(main())
