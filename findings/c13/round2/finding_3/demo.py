"""C13 finding 3 (sibling of fix 91e28cb): Sdr.delete_sdr reserves the SENSOR
DEVICE's SDR store (NetFn S/E 04h, cmd 22h) and presents that id to the SDR
REPOSITORY command Delete SDR (NetFn Storage 0Ah, cmd 26h).

run:  cd /tmp/hunt2_c13 && /venv/bin/python -B _hunt/finding_3/demo.py
"""
from __future__ import print_function
import os
import struct
import sys

sys.path.insert(0, os.getcwd())
sys.path.insert(0, os.path.join(os.getcwd(), '_hunt'))

import pyipmi                                        # noqa: E402
from pyipmi.errors import CompletionCodeError        # noqa: E402
import ipmbsim                                       # noqa: E402

assert pyipmi.__file__.startswith(os.getcwd()), pyipmi.__file__

NETFN_SE, NETFN_STORAGE = 0x04, 0x0a
CMD_RESERVE = 0x22          # 04h/22h Reserve Device SDR Repository,
#                             0Ah/22h Reserve SDR Repository
CMD_DELETE_SDR = 0x26


class Bmc(object):
    """IPMI 2.0 section 33.11 / 35.4: two independent reservation counters;
    section 33.15 Delete SDR: 'reservation ID' = the one of Reserve SDR
    Repository, otherwise C5h."""
    def __init__(self, has_device_sdrs):
        self.has_device_sdrs = has_device_sdrs
        self.repo_res = 0x2000
        self.dev_res = 0x0100
        self.records = {0x0007: 'x'}
        self.trace = []

    def __call__(self, netfn, cmd, data):
        if (netfn, cmd) == (NETFN_STORAGE, CMD_RESERVE):
            self.repo_res += 1
            self.trace.append('Reserve SDR Repository (0Ah/22h) -> %04Xh'
                              % self.repo_res)
            return [0] + list(bytearray(struct.pack('<H', self.repo_res)))
        if (netfn, cmd) == (NETFN_SE, CMD_RESERVE):
            if not self.has_device_sdrs:
                self.trace.append('Reserve Device SDR Repository (04h/22h) '
                                  '-> C1h')
                return [0xc1]
            self.dev_res += 1
            self.trace.append('Reserve Device SDR Repository (04h/22h) -> '
                              '%04Xh' % self.dev_res)
            return [0] + list(bytearray(struct.pack('<H', self.dev_res)))
        if (netfn, cmd) == (NETFN_STORAGE, CMD_DELETE_SDR):
            res, rec = struct.unpack('<HH', data)
            if res != self.repo_res:
                self.trace.append('Delete SDR (0Ah/26h) reservation %04Xh '
                                  'record %04Xh -> C5h' % (res, rec))
                return [0xc5]
            self.trace.append('Delete SDR (0Ah/26h) reservation %04Xh '
                              'record %04Xh -> 00h' % (res, rec))
            del self.records[rec]
            return [0] + list(bytearray(struct.pack('<H', rec)))
        return [0xc1]


def main():
    bad = 0
    for has_dev in (True, False):
        bmc = Bmc(has_dev)
        ipmi, ipmc = ipmbsim.connect(bmc)
        print('BMC %s a sensor device SDR store; SDR repository holds record '
              '0007h' % ('with' if has_dev else 'without'))
        try:
            got = 'returned %04Xh' % ipmi.delete_sdr(0x0007)
        except CompletionCodeError as e:
            got = 'raised %s' % e
        for line in bmc.trace:
            print('    ', line)
        ok = 0x0007 not in bmc.records
        print('  expected: Reserve SDR Repository (0Ah/22h), Delete SDR with '
              'that id, record gone')
        print('  got     : %s; record %s   [%s]\n'
              % (got, 'gone' if ok else 'still there',
                 'ok' if ok else 'VIOLATION'))
        bad += 0 if ok else 1
        ipmc.stop()
    if bad:
        print('PROPERTY VIOLATED: the reservation used is not one of the '
              'repository the request goes to')
        return 1
    print('property holds')
    return 0


if __name__ == '__main__':
    sys.exit(main())
