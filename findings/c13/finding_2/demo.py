#!/usr/bin/env python
"""C13 finding 2: the SEL record chunk-fetch loop has no retry bound.

Run:  cd /tmp/hunt_c13 && /venv/bin/python -B _hunt/finding_2/demo.py

pyipmi/sel.py:get_sel_entry() fetches a 16 byte SEL record in chunks and
retries with a smaller chunk length whenever the device answers completion
code 0xCA ("cannot return number of requested data bytes").  Outcome sequence
used here: the device answers 0xCA to EVERY Get SEL Entry request (IPMI v2.0
31.5, NetFn Storage 0x0a, cmd 0x43).

Property clause checked: "record-chunk fetching issue[s] a bounded number of
requests ... and raise[s] the retry-exhausted error instead of looping
forever".
"""
import os
import sys

sys.path.insert(0, os.getcwd())

import pyipmi                                            # noqa: E402
from pyipmi.errors import RetryError                     # noqa: E402
from pyipmi.msgs import (create_message, encode_message,  # noqa: E402
                         decode_message)

GIVE_UP_AFTER = 2000      # the demo's own guard, the library has none


class Runaway(BaseException):
    pass


class FakeInterface(object):
    def __init__(self):
        self.lengths = []

    def send_and_receive(self, req):
        data = bytearray(encode_message(req))
        assert (req.netfn, req.cmdid) == (0x0a, 0x43)
        # request: reservation(2) record id(2) offset(1) bytes to read(1)
        self.lengths.append(data[5])
        if len(self.lengths) >= GIVE_UP_AFTER:
            raise Runaway()
        rsp = create_message(req.netfn + 1, req.cmdid, req.group_extension)
        decode_message(rsp, b'\xca')
        return rsp


def main():
    intf = FakeInterface()
    ipmi = pyipmi.Ipmi(interface=intf, target=pyipmi.Target(0x20))
    outcome = None
    try:
        ipmi.get_sel_entry(0x0001, 0x1234)
        outcome = 'returned'
    except RetryError:
        outcome = 'RetryError'
    except Runaway:
        outcome = 'STILL LOOPING'
    except Exception as e:
        outcome = 'raised %s' % type(e).__name__

    print('device outcome sequence : 0xCA, 0xCA, 0xCA, ... (every request)')
    print('expected                : RetryError after a bounded number of '
          'requests (at most 17 chunk lengths 0xff,16..1 exist)')
    print('got                     : %s after %d Get SEL Entry requests'
          % (outcome, len(intf.lengths)))
    print('"bytes to read" sent    : %s ...'
          % ' '.join('%02x' % n for n in intf.lengths[:24]))
    print('                          (after 00 the counter goes negative and '
          'is put on the wire modulo 256: ff fe fd ...)')
    if outcome != 'RetryError':
        print('\nPROPERTY VIOLATED: unbounded retry loop')
        sys.exit(1)
    print('\nproperty holds')
    sys.exit(0)


if __name__ == '__main__':
    main()
