"""C05 finding 1: the session header of the Activate Session datagram of a
re-established session carries the sequence number of the PREVIOUS session.

Run:  cd /tmp/hunt2_c05 && /venv/bin/python -B _hunt/finding_1/demo.py

The BMC below is a substituted UDP socket written from the IPMI v1.5/v2.0
specification (RMCP header, IPMI v1.5 session header little-endian, MD5
AuthCode, IPMB-style LAN message) -- none of the library's own pack helpers
are used to build or to parse a datagram.
"""
import hashlib
import os
import socket
import struct
import sys

sys.path.insert(0, os.getcwd())

import pyipmi                      # noqa: E402
import pyipmi.interfaces           # noqa: E402

PASSWORD = b'secret'


def csum(bs):
    return (-sum(bs)) & 0xff


class FakeBmc(object):
    """Stands in for socket.socket(AF_INET, SOCK_DGRAM)."""

    def __init__(self):
        self.log = []          # parsed IPMI datagrams received from the console
        self.rx = []           # datagrams waiting for the console
        self.timeout = None
        self.dead = False      # True: cable pulled, nothing is answered
        self.tmp_sid = 0x01020304
        self.sid = 0xA1B2C3D4
        self.in_seq = 0x00000010   # initial inbound sequence number
        self.out_seq = 0
        self.auth = 0

    # -- socket API used by pyipmi.interfaces.rmcp.Rmcp --
    def settimeout(self, t):
        self.timeout = t

    def gettimeout(self):
        return self.timeout

    def recvfrom(self, n):
        if self.rx:
            return (self.rx.pop(0), ('bmc', 623))
        if self.timeout == 0:
            raise BlockingIOError()
        raise socket.timeout()

    def sendto(self, d, addr):
        if self.dead:
            return
        assert d[0] == 6 and d[1] == 0 and d[2] == 0xff, 'RMCP header'
        if d[3] == 6:          # ASF presence ping -> pong
            tag = d[4 + 5]
            self.rx.append(b'\x06\x00\xff\x06'
                           + struct.pack('!IBBBB', 4542, 0x40, tag, 0, 16)
                           + struct.pack('!IIBB6x', 4542, 0, 0x81, 0))
            return
        assert d[3] == 7, 'RMCP class IPMI'
        b = d[4:]
        auth = b[0]
        seq = struct.unpack('<I', b[1:5])[0]
        sid = struct.unpack('<I', b[5:9])[0]
        off = 25 if auth else 9
        code = b[9:25] if auth else None
        msg = b[off + 1:]
        assert b[off] == len(msg), 'length byte'
        netfn, cmd, data = msg[1] >> 2, msg[5], msg[6:-1]
        if auth == 2:
            p = PASSWORD.ljust(16, b'\0')
            good = hashlib.md5(p + b[5:9] + msg + b[1:5] + p).digest() == code
        else:
            good = True
        self.log.append(dict(netfn=netfn, cmd=cmd, auth=auth, seq=seq,
                             sid=sid, md5_ok=good, raw=d))

        rsp_auth, rsp_sid, rsp_seq = 0, 0, 0
        if (netfn, cmd) == (6, 0x38):      # Get Channel Auth Capabilities
            rdata = bytes([0, 1, 0x04, 0, 0, 0, 0, 0, 0])   # MD5 only
        elif (netfn, cmd) == (6, 0x39):    # Get Session Challenge
            self.auth = data[0] & 0xf
            rdata = bytes([0]) + struct.pack('<I', self.tmp_sid) \
                + bytes(range(16))
        elif (netfn, cmd) == (6, 0x3a):    # Activate Session
            self.out_seq = struct.unpack('<I', data[18:22])[0]
            rdata = bytes([0, self.auth]) + struct.pack('<I', self.sid) \
                + struct.pack('<I', self.in_seq) + bytes([4])
            rsp_auth, rsp_sid = self.auth, self.tmp_sid
        else:
            rdata = bytes([0])
            if cmd == 0x3b:
                rdata += bytes([4])
            if cmd == 0x01:
                rdata += bytes(15)
            self.out_seq = (self.out_seq + 1) & 0xffffffff
            rsp_auth, rsp_sid, rsp_seq = self.auth, self.sid, self.out_seq
        h = [msg[3], ((netfn | 1) << 2) | (msg[4] & 3)]
        h.append(csum(h))
        t = [msg[0], (msg[4] & 0xfc) | (msg[1] & 3), cmd] + list(rdata)
        t.append(csum(t))
        m = bytes(h + t)
        p = PASSWORD.ljust(16, b'\0')
        pk = bytes([rsp_auth]) + struct.pack('<I', rsp_seq) \
            + struct.pack('<I', rsp_sid)
        if rsp_auth == 2:
            pk += hashlib.md5(p + struct.pack('<I', rsp_sid) + m
                              + struct.pack('<I', rsp_seq) + p).digest()
        pk += bytes([len(m)]) + m
        self.rx.append(b'\x06\x00\xff\x07' + pk)


def activate_session_datagrams(bmc):
    return [r for r in bmc.log if (r['netfn'], r['cmd']) == (6, 0x3a)]


def main():
    intf = pyipmi.interfaces.create_interface('rmcp', keep_alive_interval=0)
    bmc = FakeBmc()
    ipmi = pyipmi.create_connection(intf)
    ipmi.session.set_session_type_rmcp('bmc', 623)
    ipmi.session.set_auth_type_user('admin', PASSWORD)
    ipmi.target = pyipmi.Target(0x20)
    intf._sock = bmc

    violations = []

    def check(title):
        r = activate_session_datagrams(bmc)[-1]
        print('%-46s Activate Session header: auth=%d seq=0x%08x sid=0x%08x'
              % (title, r['auth'], r['seq'], r['sid']))
        print('   datagram: %s' % r['raw'].hex())
        if r['seq'] != 0:
            violations.append((title, r['seq']))

    # 1. first session on fresh objects
    ipmi.session.establish()
    ipmi.get_device_id()
    check('1. first establish')

    # 2. clean close, then the same Session object is established again
    ipmi.session.close()
    bmc.sid, bmc.in_seq = 0x55667788, 0x00001000
    ipmi.session.establish()
    ipmi.get_device_id()
    check('2. establish again after close()')

    # 3. the link goes down (close fails too), comes back, establish again
    bmc.dead = True
    for op in (ipmi.get_device_id, ipmi.session.close):
        try:
            op()
        except Exception as e:
            print('   (link down: %s -> %s)' % (op.__name__, type(e).__name__))
    bmc.dead = False
    bmc.sid, bmc.in_seq = 0x99AABBCC, 0x00002000
    ipmi.session.establish()
    ipmi.get_device_id()
    check('3. establish again after a lost link')

    print()
    print('expected: session sequence number 0x00000000 in every Activate '
          'Session datagram (no session is active yet: the new session\'s '
          'numbers only exist once the BMC has answered this very request)')
    if violations:
        for title, seq in violations:
            print('got     : %s -> 0x%08x (left over from the previous '
                  'session)' % (title, seq))
        print('PROPERTY VIOLATED')
        return 1
    print('got     : 0x00000000 every time')
    print('ok')
    return 0


if __name__ == '__main__':
    sys.exit(main())
