#!/usr/bin/env python
"""C05 finding 4 (unit level, low severity): AsfPong.pack() does not produce an
ASF presence pong - the 8 byte ASF header (IANA, type 40h, tag, reserved,
data length 10h) is missing, and the library's own AsfPong.unpack() /
AsfMsg.from_data() reject what AsfPong.pack() produced.

Run:  cd /tmp/hunt_c05 && /venv/bin/python -B _hunt/finding_4/demo.py

Expected bytes from ASF 2.0 3.2.4.3 / IPMI table 13-7 (presence pong).
Not reachable through Rmcp (the library only ever *sends* pings); it is the
encoder/decoder pair of the anchored class AsfPong that disagrees.
"""
import os
import sys

sys.path.insert(0, os.getcwd())

from pyipmi.interfaces.rmcp import AsfMsg, AsfPing, AsfPong   # noqa: E402

EXPECTED_PONG = (bytes([0x00, 0x00, 0x11, 0xbe])      # ASF IANA 4542
                 + bytes([0x40, 0x00, 0x00, 0x10])    # pong, tag 0, rsvd, len 16
                 + bytes([0x00, 0x00, 0x11, 0xbe])    # OEM IANA = ASF
                 + bytes([0x00, 0x00, 0x00, 0x00])    # OEM defined
                 + bytes([0x81, 0x00])                # IPMI + ASF 1.0, interactions
                 + bytes(6))
EXPECTED_PING = bytes([0x00, 0x00, 0x11, 0xbe, 0x80, 0x00, 0x00, 0x00])

failed = False

# control: the ping encoder and decoder agree with the specification
assert AsfPing().pack() == EXPECTED_PING
assert isinstance(AsfMsg.from_data(EXPECTED_PING), AsfPing)
# control: the pong decoder accepts the specification's pong
p = AsfMsg.from_data(EXPECTED_PONG)
assert isinstance(p, AsfPong) and p.supported_entities == 0x81

pong = AsfPong()
pong.supported_entities = 0x81
got = pong.pack()
print('AsfPong.pack()')
print('    expected: %s (%d bytes)' % (EXPECTED_PONG.hex(), len(EXPECTED_PONG)))
print('    got     : %s (%d bytes)' % (got.hex(), len(got)))
if got != EXPECTED_PONG:
    failed = True
    print('    VIOLATION: not an ASF message (ASF header missing)')

for name, decode in (('AsfMsg.from_data', AsfMsg.from_data),
                     ('AsfPong().unpack', lambda d: AsfPong().unpack(d))):
    try:
        decode(got)
        print('%s(AsfPong.pack()) -> accepted' % name)
    except Exception as e:
        failed = True
        print('%s(AsfPong.pack())\n    expected: accepted (round trip)\n'
              '    got     : %s: %s   <-- VIOLATION' % (name, type(e).__name__, e))

sys.exit(1 if failed else 0)
