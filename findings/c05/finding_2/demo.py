#!/usr/bin/env python
"""C05 finding 2: a null (zero length) payload cannot be sent under MD5
authentication: IpmiMsg.pack(None) raises TypeError, although the same call
works for authentication types 'none' and 'password'.

Run:  cd /tmp/hunt_c05 && /venv/bin/python -B _hunt/finding_2/demo.py

Expected datagram body is built by hand from IPMI v1.5 table 13-8 and the
MD5 AuthCode rule of section 22.17.1:
    MD5(password16 + session id + IPMI message data + session seq# + password16)
"""
import hashlib
import os
import struct
import sys

sys.path.insert(0, os.getcwd())

from pyipmi.session import Session                 # noqa: E402
from pyipmi.interfaces.rmcp import IpmiMsg         # noqa: E402

SID = 0x02f99b85
SEQ = 0x00000007
PASSWORD = b'admin'


def expected(auth_type, payload):
    pw = PASSWORD + bytes(16 - len(PASSWORD))
    out = bytes([auth_type]) + struct.pack('<I', SEQ) + struct.pack('<I', SID)
    if auth_type == 0x04:
        out += pw
    elif auth_type == 0x02:
        out += hashlib.md5(pw + struct.pack('<I', SID) + payload
                           + struct.pack('<I', SEQ) + pw).digest()
    return out + bytes([len(payload)]) + payload


def pack(auth_type, sdu):
    s = Session()
    s.set_auth_type_user('admin', PASSWORD)
    s.auth_type = auth_type
    s.sid = SID
    s.sequence_number = SEQ
    return IpmiMsg(session=s).pack(sdu)


failed = False
for auth_type, name in ((0x00, 'none'), (0x04, 'password'), (0x02, 'md5')):
    for sdu in (b'', None):
        want = expected(auth_type, b'')
        try:
            got = pack(auth_type, sdu)
            res = got.hex()
            ok = got == want
        except Exception as e:
            res = '%s: %s' % (type(e).__name__, e)
            ok = False
        print('auth=%-8s pack(%-4r)  %s' % (name, sdu, 'ok' if ok else 'VIOLATION'))
        if not ok:
            failed = True
            print('    expected: %s' % want.hex())
            print('    got     : %s' % res)

sys.exit(1 if failed else 0)
