#!/usr/bin/env python
"""C05 finding 3: a presence pong that follows the ASF format is rejected when
its 'Supported Interactions' byte has a defined bit set.

Run:  cd /tmp/hunt_c05 && /venv/bin/python -B _hunt/finding_3/demo.py

ASF 2.0 (DMTF DSP0136) 3.2.4.3 "Presence Pong", and IPMI v2.0 table 13-7:
    Supported Interactions, 1 byte
        bit 7    1b = RMCP security extensions are supported
        bit 6:0  reserved (DASH, DSP0232, later defines bit 5 = DASH supported)
(ASF 1.0 / IPMI v1.5 had the whole byte reserved.)  A managed node that
implements ASF 2.0 security extensions therefore answers a ping with
Supported Interactions = 80h.  Rmcp.ping() - step 0 of establish_session -
raises DecodingError('SDU malformed') for it, so no session can be opened.
"""
import os
import sys

sys.path.insert(0, os.getcwd())

from pyipmi.interfaces.rmcp import Rmcp            # noqa: E402
from pyipmi.errors import DecodingError            # noqa: E402


class FakeSocket(object):
    def __init__(self, datagram):
        self.rx = [datagram]
        self.sent = []

    def settimeout(self, t):
        pass

    def sendto(self, data, addr):
        self.sent.append(bytes(data))

    def recvfrom(self, n):
        return (self.rx.pop(0), ('bmc', 623))


def pong(supported_entities, supported_interactions):
    return (bytes([0x06, 0x00, 0xff, 0x06])          # RMCP: v1.0, no ack, ASF
            + bytes([0x00, 0x00, 0x11, 0xbe])        # ASF IANA 4542
            + bytes([0x40])                          # presence pong
            + bytes([0x00])                          # message tag (of ping)
            + bytes([0x00])                          # reserved
            + bytes([0x10])                          # data length 16
            + bytes([0x00, 0x00, 0x11, 0xbe])        # OEM IANA = ASF: no OEM
            + bytes([0x00, 0x00, 0x00, 0x00])        # OEM defined
            + bytes([supported_entities])            # 81h: IPMI, ASF v1.0
            + bytes([supported_interactions])
            + bytes(6))                              # reserved


def ping(datagram):
    rmcp = Rmcp()
    rmcp._sock = FakeSocket(datagram)
    rmcp.host, rmcp.port = 'bmc', 623
    rmcp.ping()
    return rmcp._sock.sent


failed = False
for interactions, what in ((0x00, 'nothing (ASF 1.0 style)'),
                           (0x80, 'RMCP security extensions (ASF 2.0 bit 7)'),
                           (0x20, 'DASH (DSP0232 bit 5)'),
                           (0xa0, 'security extensions + DASH')):
    d = pong(0x81, interactions)
    try:
        sent = ping(d)
        assert sent == [bytes([6, 0, 0xff, 6, 0, 0, 0x11, 0xbe, 0x80, 0, 0, 0])]
        res = 'accepted'
    except DecodingError as e:
        res = 'DecodingError: %s' % e
    ok = res == 'accepted'
    print('pong with Supported Interactions = %02xh, %s' % (interactions, what))
    print('    datagram: %s' % d.hex())
    print('    expected: accepted (well-formed ASF presence pong)')
    print('    got     : %s%s' % (res, '' if ok else '   <-- VIOLATION'))
    failed = failed or not ok

sys.exit(1 if failed else 0)
