"""C05 finding 1: AsfPong.pack() does not produce an ASF presence pong.

The ASF 2.0 presence pong (DSP0136 3.2.4.3) is
    ASF header : IANA 4542 (4, BE) | type 0x40 | tag | reserved | data len 0x10
    data       : OEM IANA (4) | OEM defined (4) | entities | interactions | 6 x 0
AsfPong.pack() returns the 16 data bytes only, and the library's own BMC
emulator (pyipmi/emulation.py) puts exactly that on the wire as its answer to a
presence ping.  The library's own decoder rejects what its encoder produced.
"""
import struct
import sys
import types

sys.path.insert(0, '/tmp/h3_C05')

from pyipmi.interfaces.rmcp import (AsfPong, AsfPing, AsfMsg, Rmcp, RmcpMsg)  # noqa

violations = 0


def spec_pong(tag, oem_iana=4542, oem=0, entities=0, interactions=0):
    return (struct.pack('>IBBBB', 4542, 0x40, tag, 0, 16)
            + struct.pack('>IIBB', oem_iana, oem, entities, interactions)
            + bytes(6))


# ---- (a) the encoder against the specification -----------------------------
pong = AsfPong()
got = pong.pack()
exp = spec_pong(0)
print('(a) AsfPong().pack()')
print('    expected (ASF 2.0): %2d bytes %s' % (len(exp), exp.hex()))
print('    got               : %2d bytes %s' % (len(got), got.hex()))
if got != exp:
    print('    VIOLATION: the 8-byte ASF header (IANA 4542, type 0x40, tag, '
          'reserved, length 0x10) is missing')
    violations += 1

# ---- (b) encoder / decoder asymmetry ---------------------------------------
print('(b) AsfPong().unpack(AsfPong().pack())')
try:
    AsfPong().unpack(got)
    print('    accepted')
except Exception as e:  # noqa
    print('    VIOLATION: the library rejects its own pong: %s: %s'
          % (type(e).__name__, e))
    violations += 1
# the decoder itself is right: it accepts the specification's pong
AsfPong().unpack(exp)
# and for comparison the ping encoder is right
assert AsfPing().pack() == struct.pack('>IBBBB', 4542, 0x80, 0, 0, 0)

# ---- (c) it reaches the wire: Rmcp.ping() against the library's emulator ----
print('(c) Rmcp.ping() answered by pyipmi.emulation.handle_thread')
sys.modules.setdefault('yaml', types.ModuleType('yaml'))  # only used by main()
import pyipmi.emulation as emulation  # noqa


class Wire(object):
    """UDP socket substitute: what the client sends is handled by the emulator,
    what the emulator sends is what the client receives next."""
    def __init__(self):
        self.to_client = []
        self.sent_by_emulator = []
        self.context = emulation.ConnectionContext(None, self, ('c', 1))

    # client side
    def settimeout(self, t):
        pass

    def gettimeout(self):
        return 2.0

    def sendto(self, pdu, addr):
        if addr == ('c', 1):        # emulator -> client
            self.sent_by_emulator.append(pdu)
            self.to_client.append(pdu)
        else:                       # client -> emulator
            emulation.handle_thread(self.context, pdu)

    def recvfrom(self, n):
        import socket
        if not self.to_client:
            raise socket.timeout()
        return (self.to_client.pop(0), ('bmc', 623))


wire = Wire()
r = Rmcp()
r._sock = wire
r.host, r.port = 'bmc', 623
try:
    r.ping()
    print('    ping ok')
except Exception as e:  # noqa
    print('    VIOLATION: ping fails: %s: %s' % (type(e).__name__, e))
    violations += 1
dg = wire.sent_by_emulator[0]
exp_dg = bytes([6, 0, dg[2], 6]) + spec_pong(0)
print('    datagram sent by the emulator: %s' % dg.hex())
print('    expected                     : %s' % exp_dg.hex())
if dg != exp_dg:
    violations += 1

print('%d violation(s)' % violations)
sys.exit(1 if violations else 0)
