#!/usr/bin/env python
"""C05 finding 1: truncated LAN datagrams are not rejected with DecodingError;
the receive path crashes with struct.error / IndexError / TypeError.

Run:  cd /tmp/hunt_c05 && /venv/bin/python -B _hunt/finding_1/demo.py

Stimuli are built by hand from the IPMI v1.5 LAN packet format (IPMI spec
13.6, table 13-8), the RMCP header (table 13-6) and the ASF presence pong
(table 13-7 / ASF 2.0 3.2.4.3).  They are fed to the real, unmodified
pyipmi.interfaces.rmcp.Rmcp through a substituted UDP socket's recvfrom().
"""
import os
import struct
import sys

sys.path.insert(0, os.getcwd())

from pyipmi.interfaces.rmcp import Rmcp          # noqa: E402
from pyipmi.errors import DecodingError          # noqa: E402


class FakeSocket(object):
    def __init__(self, datagram):
        self.rx = [datagram]
        self.sent = []

    def settimeout(self, t):
        pass

    def sendto(self, data, addr):
        self.sent.append(bytes(data))

    def recvfrom(self, n):
        return (self.rx.pop(0), ('bmc', 623))


def ipmi_datagram(auth_type, payload):
    d = bytes([0x06, 0x00, 0xff, 0x07])                 # RMCP v1.0, class IPMI
    d += bytes([auth_type])
    d += struct.pack('<I', 0x11223344)                  # session sequence number
    d += struct.pack('<I', 0x55667788)                  # session id
    if auth_type != 0:
        d += bytes(range(1, 17))                        # 16 byte auth code
    d += bytes([len(payload)]) + payload
    return d


# a Get Device ID response, IPMB framed (content is irrelevant here)
PAYLOAD = bytes([0x81, 0x1c, 0x63, 0x20, 0x04, 0x01, 0x00, 0x20, 0x81, 0x3a])

PONG = (bytes([0x06, 0x00, 0xff, 0x06])                   # RMCP v1.0, class ASF
        + bytes([0x00, 0x00, 0x11, 0xbe, 0x40, 0x00, 0x00, 0x10])  # ASF hdr
        + bytes([0x00, 0x00, 0x11, 0xbe, 0, 0, 0, 0, 0x81, 0x00])
        + bytes(6))


def receive_ipmi(datagram, quirk):
    rmcp = Rmcp()
    rmcp._sock = FakeSocket(datagram)
    return rmcp._receive_ipmi_msg(quirk)


def receive_pong(datagram):
    rmcp = Rmcp()
    rmcp._sock = FakeSocket(datagram)
    rmcp.host, rmcp.port = 'bmc', 623
    rmcp.ping()


violations = []


def check(label, datagram, func, *args):
    try:
        func(datagram, *args)
        return 'accepted'
    except DecodingError:
        return 'DecodingError'
    except Exception as e:      # anything else is a crash, not a rejection
        violations.append((label, datagram, e))
        return type(e).__name__


# sanity: the untruncated datagrams are accepted
for auth in (0, 2, 4):
    for quirk in (False, True):
        assert receive_ipmi(ipmi_datagram(auth, PAYLOAD), quirk) == PAYLOAD
receive_pong(PONG)

for auth, name in ((0, 'none'), (2, 'md5'), (4, 'password')):
    full = ipmi_datagram(auth, PAYLOAD)
    header_end = 4 + (26 if auth else 10)
    for quirk in (False, True):
        for keep in range(header_end):        # cut inside RMCP/session header
            check('IPMI auth=%s quirk=%s cut to %d bytes' % (name, quirk, keep),
                  full[:keep], receive_ipmi, quirk)

for keep in range(12):                        # cut inside RMCP/ASF header
    check('ASF pong cut to %d bytes' % keep, PONG[:keep], receive_pong)
# pong cut after the ASF header with the data length byte altered to 0
check('ASF pong cut to 12 bytes, data length 0', PONG[:11] + b'\x00',
      receive_pong)

shown = set()
for label, datagram, exc in violations:
    key = (label.split(' cut')[0], type(exc).__name__, str(exc))
    if key in shown:
        continue
    shown.add(key)
    print('%s\n    datagram: %s\n    expected: DecodingError (datagram rejected)'
          '\n    got     : %s: %s'
          % (label, datagram.hex() or '(empty)', type(exc).__name__, exc))

print('\n%d truncated datagrams raised something other than DecodingError'
      % len(violations))
sys.exit(1 if violations else 0)
