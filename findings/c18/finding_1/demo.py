"""C18 finding 1: header OEM data of a well-formed HPM.1 image with 0 OEM bytes
is not available after parsing (AttributeError), while it is for 1..255 bytes.

Run: cd /tmp/hunt_c18 && /venv/bin/python -B _hunt/finding_1/demo.py
"""
import os
import sys
import struct
import hashlib
import tempfile

sys.path.insert(0, os.path.join(os.path.dirname(__file__), '..', '..'))
from pyipmi.hpm import UpgradeImage  # noqa: E402


def zero_checksum(b):
    return (-sum(b)) & 0xff


def encode_image(oem):
    """Independent encoder, PICMG HPM.1 R1.0 ch. 4 (upgrade image format)."""
    b = bytearray(b'PICMGFWU')          # 0..7   signature
    b.append(0x00)                      # 8      format version
    b.append(0x12)                      # 9      device id
    b += bytes([0x3a, 0x98, 0x00])      # 10..12 manufacturer id (LS first)
    b += struct.pack('<H', 0xaabb)      # 13..14 product id
    b += struct.pack('<L', 0x5f000000)  # 15..18 time
    b.append(0x01)                      # 19     image capabilities
    b.append(0x05)                      # 20     components 0 and 2
    b += bytes([5, 6, 7])               # 21..23 selftest/rollback/inaccess.
    b += bytes([0x01, 0x10])            # 24..25 earliest compatible revision
    b += bytes([0x01, 0x23, 1, 2, 3, 4])  # 26..31 firmware revision
    b += struct.pack('<H', len(oem))    # 32..33 OEM data length
    b += oem                            # 34..   OEM data
    b.append(zero_checksum(b))          # header checksum
    # one "upload firmware image" action record with 5 firmware bytes
    r = bytearray([0x02, 0x01])
    r.append(zero_checksum(r))
    r += bytes([0x01, 0x23, 1, 2, 3, 4])
    r += b'demo'.ljust(21, b'\0')
    r += struct.pack('<L', 5) + b'\x11\x22\x33\x44\x55'
    b += r
    b += hashlib.md5(bytes(b)).digest()
    return bytes(b)


def parse(data):
    fd, fn = tempfile.mkstemp(suffix='.hpm')
    os.write(fd, data)
    os.close(fd)
    try:
        return UpgradeImage(fn)
    finally:
        os.unlink(fn)


failed = False
for oem in (b'\xde\xad', b'\x7f', b''):
    img = parse(encode_image(oem))
    hdr = img.header
    assert hdr.oem_data_length == len(oem)
    assert len(img.actions) == 1 \
        and bytes(img.actions[0].firmware_image_data) == b'\x11\x22\x33\x44\x55'
    try:
        got = bytes(hdr.oem_data)
        res = 'ok' if got == oem else 'WRONG'
    except AttributeError as e:
        got = 'AttributeError: %s' % e
        res = 'VIOLATION'
    print('OEM header data %-12r (length %d): expected header.oem_data == %r, '
          'got %s -> %s' % (oem, len(oem), oem, got, res))
    if res != 'ok':
        failed = True

sys.exit(1 if failed else 0)
