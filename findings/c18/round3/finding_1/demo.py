"""C18 finding 1: an Upload Firmware Block request that gets no answer
(IpmiTimeoutError from the interface) is never re-sent: upload_binary skips
the block, goes on with the next block number and returns normally.

Run: cd /tmp/h3_C18 && /venv/bin/python -B _hunt/finding_1/demo.py
"""
import os
import sys
sys.path.insert(0, os.getcwd())

import pyipmi
from pyipmi.errors import IpmiTimeoutError
from pyipmi.msgs import encode_message, decode_message, create_message

BLOCK = 22


class Device(object):
    """Reference HPM.1 target, fed with the raw request bytes.

    Upload Firmware Block request (HPM.1 R1.0, table 3-8), NetFn 2Ch cmd 32h:
    byte 1 PICMG identifier 00h, byte 2 block number, bytes 3.. firmware data.
    """
    def __init__(self):
        self.requests = []      # every (number, data) that reached the device

    def handle(self, netfn, cmd, raw):
        assert (netfn, cmd, raw[0]) == (0x2c, 0x32, 0x00), (netfn, cmd, raw)
        self.requests.append((raw[1], bytes(bytearray(raw[2:]))))
        return [0x00, 0x00]     # completion code OK, PICMG identifier

    def image(self):
        """Reassemble as HPM.1 prescribes: next number appends, a repeat of
        the last number (agent retry after a lost response) is ignored."""
        out, last = b'', None
        for number, data in self.requests:
            if last is not None and number == last:
                continue
            if number != (0 if last is None else (last + 1) & 0xff):
                return None     # hole in the numbering: the image is corrupt
            out += data
            last = number
        return out


class LossyInterface(object):
    """lose_request: indices (0-based, in order of transmission) of requests
    that vanish on the wire; lose_response: the device gets the request but
    its answer vanishes.  Both surface as IpmiTimeoutError, exactly like
    aardvark/ipmbdev/ipmitool interfaces report a missing answer."""
    def __init__(self, dev, lose_request=(), lose_response=()):
        self.dev, self.n = dev, 0
        self.lose_request, self.lose_response = lose_request, lose_response

    def send_and_receive(self, req):
        i, self.n = self.n, self.n + 1
        if i in self.lose_request:
            raise IpmiTimeoutError()
        out = self.dev.handle(req.netfn, req.cmdid,
                              list(bytearray(encode_message(req))))
        if i in self.lose_response:
            raise IpmiTimeoutError()
        rsp = create_message(req.netfn + 1, req.cmdid, req.group_extension)
        decode_message(rsp, bytes(bytearray(out)))
        return rsp


def run(title, binary, **loss):
    dev = Device()
    ipmi = pyipmi.create_connection(LossyInterface(dev, **loss))
    ipmi.target = pyipmi.Target(0x20)
    try:
        ipmi.upload_binary(binary)
        outcome = 'returned normally'
    except Exception as e:          # noqa
        outcome = 'aborted with %s' % type(e).__name__
    got = dev.image()
    numbers = [n for n, _ in dev.requests]
    ok = outcome.startswith('aborted') or got == binary
    shown = numbers if len(numbers) <= 12 else \
        '%r ... %r (%d requests)' % (numbers[:3], numbers[-3:], len(numbers))
    print('%s\n  loss=%r\n  upload_binary %s\n  block numbers seen by the '
          'device: %s' % (title, loss, outcome, shown))
    if not ok:
        expected = [((i // BLOCK) & 0xff, binary[i:i + BLOCK])
                    for i in range(0, len(binary), BLOCK)]
        k = [a == b for a, b in zip(dev.requests, expected)].index(False)
        print('  expected: request #%d carries number %d and bytes %d..%d; '
              'device ends with all %d bytes'
              % (k, expected[k][0], k * BLOCK, k * BLOCK + BLOCK - 1,
                 len(binary)))
        print('  got     : request #%d carries number %d and bytes %d..; '
              'bytes %d..%d were never (re)sent and no error was raised'
              % (k, dev.requests[k][0], (k + 1) * BLOCK, k * BLOCK,
                 k * BLOCK + BLOCK - 1))
    print('  -> %s\n' % ('ok' if ok else 'VIOLATION'))
    return ok


binary = bytes(bytearray(i & 0xff for i in range(100)))     # 5 blocks
big = bytes(bytearray((i * 7) & 0xff for i in range(6000)))  # 273 blocks
results = [
    run('A: request for block 1 lost once', binary, lose_request=(1,)),
    run('B: response to block 1 lost once', binary, lose_response=(1,)),
    run('C: 6000 bytes, request 256 (number wraps to 0) lost once', big,
        lose_request=(256,)),
    run('D: two lost requests far apart in a 273-block upload', big,
        lose_request=(10, 200)),
]
sys.exit(0 if all(results) else 1)
