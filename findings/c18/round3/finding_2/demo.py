"""C18 finding 2: a block is answered 'long duration command in progress'
(80h), the library polls Get Upgrade Status, and the device answers THAT
command with an error completion code.  The upload is aborted with a bare
CompletionCodeError instead of the HPM error the property (and every other
error path of upload_binary) promises.

Run: cd /tmp/h3_C18 && /venv/bin/python -B _hunt/finding_2/demo.py
"""
import os
import sys
sys.path.insert(0, os.getcwd())

import pyipmi
from pyipmi.errors import HpmError
from pyipmi.msgs import encode_message, decode_message, create_message


class Device(object):
    """Raw-byte HPM.1 target.  Upload Firmware Block = NetFn 2Ch cmd 32h,
    Get Upgrade Status = NetFn 2Ch cmd 34h (HPM.1 R1.0 tables 3-8, 3-2)."""
    def __init__(self, block_cc, status_answers):
        self.block_cc = block_cc              # block index -> completion code
        self.status_answers = list(status_answers)
        self.log = []
        self.nblocks = 0

    def handle(self, netfn, cmd, raw):
        assert netfn == 0x2c and raw[0] == 0x00
        if cmd == 0x32:
            cc = self.block_cc.get(self.nblocks, 0x00)
            self.nblocks += 1
            self.log.append('block %d -> cc %02xh' % (raw[1], cc))
            return [cc, 0x00]
        if cmd == 0x34:
            a = self.status_answers.pop(0)
            if len(a) == 1:       # the status command itself fails
                self.log.append('status -> cc %02xh' % a[0])
                return [a[0], 0x00]
            self.log.append('status -> cc 00h, cmd in progress %02xh, '
                            'last cc %02xh' % a)
            return [0x00, 0x00, a[0], a[1]]
        raise AssertionError(cmd)


class Interface(object):
    def __init__(self, dev):
        self.dev = dev

    def send_and_receive(self, req):
        out = self.dev.handle(req.netfn, req.cmdid,
                              list(bytearray(encode_message(req))))
        rsp = create_message(req.netfn + 1, req.cmdid, req.group_extension)
        decode_message(rsp, bytes(bytearray(out)))
        return rsp


def run(title, block_cc, status_answers):
    dev = Device(block_cc, status_answers)
    ipmi = pyipmi.create_connection(Interface(dev))
    ipmi.target = pyipmi.Target(0x20)
    try:
        ipmi.upload_binary(bytes(bytearray(range(100))),
                           timeout=1, interval=0)
        got = 'returned normally'
    except Exception as e:                  # noqa
        got = '%s (%s)' % (type(e).__name__, e)
        ok = isinstance(e, HpmError)
    else:
        ok = False
    print(title)
    for line in dev.log:
        print('    ' + line)
    print('  expected: upload aborted with HpmError')
    print('  got     : %s\n  -> %s\n' % (got, 'ok' if ok else 'VIOLATION'))
    return ok


results = [
    # control: the error is reported INSIDE a successful status response
    run('control: block 1 in progress, status reports last cc D5h',
        {1: 0x80}, [(0x32, 0x80), (0x32, 0xd5)]),
    # control: the error is the answer to the block itself
    run('control: block 1 answered D5h', {1: 0xd5}, []),
    # the defect: the status poll itself is answered with an error
    run('block 1 in progress, Get Upgrade Status answered D5h '
        '(not supported in present state)', {1: 0x80}, [(0xd5,)]),
    run('block 1 in progress, one good poll, then Get Upgrade Status '
        'answered FFh (unspecified error)', {1: 0x80},
        [(0x32, 0x80), (0xff,)]),
    run('block 0 in progress, Get Upgrade Status answered C1h '
        '(invalid command: target without status support)', {0: 0x80},
        [(0xc1,)]),
]
sys.exit(0 if all(results) else 1)
