"""C18 finding 2: the outcome of a block answered with 'long duration command in
progress' (0x80) is ignored by Hpm.upload_binary.

 A) the device later reports, via Get Upgrade Status, that the block FAILED
    (last completion code != 0x00, != 0x80): the library keeps uploading the
    following blocks and returns normally instead of raising HpmError.
 B) the device still reports 0x80 when the poll timeout expires: the library
    silently sends the next block to the busy device and returns normally.
 C) the device answers the Get Upgrade Status poll itself with an error
    completion code: upload aborts, but with CompletionCodeError, not HpmError.

Run: cd /tmp/hunt_c18 && /venv/bin/python -B _hunt/finding_2/demo.py
"""
import os
import sys

sys.path.insert(0, os.path.join(os.path.dirname(__file__), '..', '..'))
import pyipmi  # noqa: E402
from pyipmi.errors import HpmError  # noqa: E402
from pyipmi.msgs import encode_message, decode_message, create_message  # noqa

CMD_UPLOAD_FIRMWARE_BLOCK = 0x32
CMD_GET_UPGRADE_STATUS = 0x34
PICMG = 0x00


class RefDevice(object):
    """Reference HPM.1 IPM controller behind a fake interface.

    block_cc:   {index of Upload Firmware Block request: completion code}
    status:     list of 'last completion code' values returned by successive
                Get Upgrade Status polls after a 0x80 answer (last one repeats)
    status_cc:  completion code of the Get Upgrade Status response itself
    """

    def __init__(self, block_cc, status, status_cc=0x00):
        self.block_cc = block_cc
        self.status = list(status)
        self.status_cc = status_cc
        self.log = []
        self.nblocks = 0

    def send_and_receive(self, req):
        raw = bytes(encode_message(req))     # bytes as they go on the wire
        assert raw[0] == PICMG
        rsp = create_message(req.netfn | 1, req.cmdid, req.group_extension)
        if req.cmdid == CMD_UPLOAD_FIRMWARE_BLOCK:
            cc = self.block_cc.get(self.nblocks, 0x00)
            self.nblocks += 1
            self.log.append('block #%d (%d bytes) -> cc=0x%02x'
                            % (raw[1], len(raw) - 2, cc))
            decode_message(rsp, bytes([cc, PICMG]))
        elif req.cmdid == CMD_GET_UPGRADE_STATUS:
            if self.status_cc:
                self.log.append('status -> cc=0x%02x' % self.status_cc)
                decode_message(rsp, bytes([self.status_cc, PICMG]))
            else:
                last = self.status.pop(0) if len(self.status) > 1 \
                    else self.status[0]
                if not (self.log[-1].startswith('status') and last == 0x80):
                    self.log.append('status -> cmd_in_progress=0x32 '
                                    'last_cc=0x%02x' % last)
                decode_message(rsp, bytes([0x00, PICMG,
                                           CMD_UPLOAD_FIRMWARE_BLOCK, last]))
        else:
            raise AssertionError('unexpected command 0x%02x' % req.cmdid)
        return rsp


def upload(dev, **kwargs):
    ipmi = pyipmi.create_connection(dev)
    ipmi.target = pyipmi.Target(0x20)
    try:
        ipmi.upload_binary(bytes(range(100)), interval=0.0, **kwargs)
        return None
    except Exception as e:   # noqa
        return e


violations = 0


def scenario(title, dev, expect_blocks, **kwargs):
    global violations
    exc = upload(dev, **kwargs)
    print(title)
    for line in dev.log:
        print('    ' + line)
    ok = isinstance(exc, HpmError) and dev.nblocks == expect_blocks
    print('  expected: HpmError after %d block request(s)' % expect_blocks)
    print('  got:      %r after %d block request(s)  -> %s\n'
          % (exc, dev.nblocks, 'ok' if ok else 'VIOLATION'))
    if not ok:
        violations += 1


# 100-byte binary = 5 blocks (22,22,22,22,12); block #1 answered with 0x80.
scenario('A) block #1 -> 0x80, status then reports the block failed (0xff)',
         RefDevice({1: 0x80}, [0x80, 0xff]), 2)
scenario('B) block #1 -> 0x80, device still in progress after timeout=0.05s',
         RefDevice({1: 0x80}, [0x80]), 2, timeout=0.05)
scenario('C) block #1 -> 0x80, Get Upgrade Status answered with cc=0xd5',
         RefDevice({1: 0x80}, [0x80], status_cc=0xd5), 2, timeout=0.05)
# control: in-progress followed by success must complete all 5 blocks
dev = RefDevice({1: 0x80}, [0x80, 0x00])
exc = upload(dev)
print('control) block #1 -> 0x80, status 0x80 then 0x00: exc=%r, %d blocks'
      % (exc, dev.nblocks))
if exc is not None or dev.nblocks != 5:
    violations += 1

sys.exit(1 if violations else 0)
