"""C18 finding 3 (fault class OUTSIDE the property's literal quantifier, see
note.md): when an Upload Firmware Block request times out, Hpm.upload_binary
does not resend the block although it has a `retry` budget - it drops the
block's bytes, goes on with the next block number and returns normally.

Run: cd /tmp/hunt_c18 && /venv/bin/python -B _hunt/finding_3/demo.py
"""
import os
import sys

sys.path.insert(0, os.path.join(os.path.dirname(__file__), '..', '..'))
import pyipmi  # noqa: E402
from pyipmi.errors import IpmiTimeoutError  # noqa: E402
from pyipmi.msgs import encode_message, decode_message, create_message  # noqa

CMD_UPLOAD_FIRMWARE_BLOCK = 0x32
PICMG = 0x00


class LossyLinkDevice(object):
    """Reference device; the link loses the requests whose (0-based) send
    index is in `lost` - the device never sees them, the requester times out.
    """

    def __init__(self, lost):
        self.lost = set(lost)
        self.sent = 0
        self.received = []      # (block number, bytes) seen by the device

    def send_and_receive(self, req):
        raw = bytes(encode_message(req))
        assert req.cmdid == CMD_UPLOAD_FIRMWARE_BLOCK and raw[0] == PICMG
        idx = self.sent
        self.sent += 1
        if idx in self.lost:
            print('    request %d (block #%d) lost -> IpmiTimeoutError'
                  % (idx, raw[1]))
            raise IpmiTimeoutError()
        print('    request %d (block #%d, %d bytes) received, cc=0x00'
              % (idx, raw[1], len(raw) - 2))
        self.received.append((raw[1], raw[2:]))
        rsp = create_message(req.netfn | 1, req.cmdid, req.group_extension)
        decode_message(rsp, bytes([0x00, PICMG]))
        return rsp


binary = bytes(range(100))          # 5 blocks: 22,22,22,22,12
dev = LossyLinkDevice(lost=[1])     # one single timeout, retry budget is 3
ipmi = pyipmi.create_connection(dev)
ipmi.target = pyipmi.Target(0x20)
print('upload_binary(100 bytes, retry=3), second request is lost:')
try:
    ipmi.upload_binary(binary, retry=3)
    exc = None
except Exception as e:   # noqa
    exc = e

numbers = [n for n, _ in dev.received]
payload = b''.join(d for _, d in dev.received)
print('  upload_binary returned: %r' % (exc,))
print('  block numbers received by device: %s' % numbers)
print('  bytes received by device: %d of %d, equal to binary: %s'
      % (len(payload), len(binary), payload == binary))
print('  expected: block #1 resent (HPM.1 retransmission = same block number)'
      ' so that the device receives 0,1,2,3,4 and all 100 bytes - or an'
      ' exception')

complete = payload == binary and numbers == [0, 1, 2, 3, 4]
if exc is None and not complete:
    print('  -> VIOLATION: upload reported success, bytes 22..43 were never '
          'delivered and numbering seen by the device is not consecutive')
    sys.exit(1)
sys.exit(0)
