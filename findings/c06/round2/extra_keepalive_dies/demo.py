"""NOT a violation of C06 as written (the property has no liveness clause) -
recorded because it is a genuine defect in an anchored function.

call_repeatedly() catches socket.timeout so that a lost keep-alive reply is
tolerated, but Rmcp._send_and_receive never lets socket.timeout out: it turns
it into RetryError.  The first keep-alive whose reply is lost therefore ends
the keep-alive thread; the BMC then expires the session after its inactivity
time-out although the console believes it is kept alive.

Run:  cd /tmp/hunt2_c06 && /venv/bin/python -B _hunt/extra_keepalive_dies/demo.py
"""
import sys
import threading
import time
sys.path.insert(0, '/tmp/hunt2_c06/_hunt')
sys.path.insert(0, '/tmp/hunt2_c06')
from refbmc import RefBmc, make          # noqa: E402

died = []
threading.excepthook = lambda a: died.append(a.exc_value)
bmc = RefBmc()
ipmi, intf = make(bmc, keep_alive=0.05)
ipmi.session.establish()
time.sleep(0.18)
before = sum(1 for k, _ in bmc.log if k == 'devid')
bmc.faults['devid'] = ['silent']          # exactly one reply is lost
time.sleep(0.5)                           # ten more intervals
after = sum(1 for k, _ in bmc.log if k == 'devid') - before
ipmi.session.close()
print('keep-alive requests before the lost reply: %d' % before)
print('keep-alive requests in the 10 intervals after it: %d (expected about 10)' % after)
print('keep-alive thread ended with: %r' % (died[:1],))
sys.exit(1 if after <= 1 else 0)
