"""C06 finding 2: establish_session() does not stop the keep-alive of the
previous session.  Opening a session again on the same interface (log in
again, e.g. with another privilege level, or re-open without a successful
close) leaves the first keep-alive thread running; close_session() stops
only the newest one, so a Get Device ID is still sent AFTER Close Session,
to the session id that was just closed and with the session sequence number
of the Close Session datagram repeated.

Run:  cd /tmp/hunt2_c06 && /venv/bin/python -B _hunt/finding_2/demo.py
"""
import hashlib
import socket
import struct
import sys
import threading
import time

sys.path.insert(0, '/tmp/hunt2_c06')

import pyipmi                      # noqa: E402
import pyipmi.interfaces           # noqa: E402

PASSWORD = b'secret'.ljust(16, b'\0')
AUTH_MD5 = 2
KEEP_ALIVE = 0.15


def cksum(bs):
    return (-sum(bs)) & 0xff


class RefBmc(object):
    """IPMI v1.5 LAN BMC written from the specification.  Activating a new
    session for the same console ends the previous one."""

    def __init__(self):
        self.temps = [0x00000099, 0x11223344]
        self.grants = [(0x55667788, 0x5000), (0xA1B2C3D4, 0x100)]
        self.challenge = bytes(range(0x80, 0x90))
        self.temp_sid = None
        self.active_sid = None
        self.closed = []
        self.wire = []
        self.lock = threading.Lock()

    def handle(self, pdu):
        with self.lock:
            return self._handle(pdu)

    def _handle(self, pdu):
        cls = pdu[3]
        body = pdu[4:]
        if cls == 6:
            self.wire.append(('Presence Ping', None, None, None))
            pong = struct.pack('!IBBBB', 4542, 0x40, body[5], 0, 16) + \
                struct.pack('!IIBB6x', 4542, 0, 0x81, 0)
            return [bytes([6, 0, 0xff, 6]) + pong]
        auth = body[0]
        seq, sid = struct.unpack('<II', body[1:9])
        if auth == 0:
            code, msg = None, body[10:]
        else:
            code, msg = body[9:25], body[26:]
        rs_sa, netfn_lun, _c, rq_sa, rqseq_lun, cmd = msg[:6]
        netfn = netfn_lun >> 2
        data = msg[6:-1]
        name = {0x38: 'Get Channel Authentication Capabilities',
                0x39: 'Get Session Challenge', 0x3a: 'Activate Session',
                0x3b: 'Set Session Privilege Level', 0x3c: 'Close Session',
                0x01: 'Get Device ID'}.get(cmd, 'cmd %02xh' % cmd)
        self.wire.append((name, auth, seq, sid))

        def reply(cc, rdata=b''):
            m = bytes([rq_sa, ((netfn | 1) << 2)])
            m += bytes([cksum(m)])
            rest = bytes([rs_sa, rqseq_lun, cmd, cc]) + rdata
            m += rest + bytes([cksum(rest)])
            hdr = bytes([0]) + struct.pack('<II', 0, 0) + bytes([len(m)])
            return [bytes([6, 0, 0xff, 7]) + hdr + m]

        def authentic():
            exp = hashlib.md5(PASSWORD + struct.pack('<I', sid) + msg +
                              struct.pack('<I', seq) + PASSWORD).digest()
            return auth == AUTH_MD5 and code == exp

        if cmd == 0x38:
            return reply(0, bytes([1, 0x04, 0, 0, 0, 0, 0, 0]))
        if cmd == 0x39:
            self.temp_sid = self.temps.pop()
            return reply(0, struct.pack('<I', self.temp_sid) + self.challenge)
        if cmd == 0x3a:
            if sid != self.temp_sid or not authentic():
                return []
            if self.active_sid is not None:
                self.closed.append(self.active_sid)
            self.active_sid, init_seq = self.grants.pop()
            return reply(0, bytes([AUTH_MD5]) +
                         struct.pack('<II', self.active_sid, init_seq) +
                         bytes([data[1] & 0xf]))
        if sid != self.active_sid or not authentic():
            return []                      # no such session: no answer
        if cmd == 0x3b:
            return reply(0, bytes([data[0] & 0xf]))
        if cmd == 0x3c:
            self.closed.append(self.active_sid)
            self.active_sid = None
            return reply(0)
        if cmd == 0x01:
            return reply(0, bytes([0x20, 0x81, 1, 2, 0x51, 0xbf, 0, 0, 0, 0, 0]))
        return reply(0xc1)


class FakeSocket(object):
    def __init__(self, bmc):
        self.bmc, self.q, self.timeout = bmc, [], None
        self.cv = threading.Condition()

    def settimeout(self, t):
        self.timeout = t

    def gettimeout(self):
        return self.timeout

    def sendto(self, pdu, addr):
        out = self.bmc.handle(bytes(pdu))
        with self.cv:
            self.q.extend(out)
            self.cv.notify_all()

    def recvfrom(self, n):
        with self.cv:
            if not self.q:
                if self.timeout == 0:
                    raise BlockingIOError()
                raise socket.timeout()
            return self.q.pop(0), ('bmc', 623)


def main():
    threading.excepthook = lambda args: None     # keep the output readable
    bmc = RefBmc()
    intf = pyipmi.interfaces.create_interface('rmcp',
                                              keep_alive_interval=KEEP_ALIVE)
    ipmi = pyipmi.create_connection(intf)
    ipmi.session.set_session_type_rmcp('bmc', 623)
    ipmi.session.set_auth_type_user('admin', 'secret')
    ipmi.session.set_priv_level('USER')
    ipmi.target = pyipmi.Target(0x20)
    intf._sock = FakeSocket(bmc)

    threads0 = threading.active_count()
    print('establish() as USER (keep-alive every %.2f s)' % KEEP_ALIVE)
    ipmi.session.establish()
    print('establish() again as ADMINISTRATOR, same interface, no close()')
    ipmi.session.set_priv_level('ADMINISTRATOR')
    ipmi.session.establish()
    print('keep-alive threads now running: %d (expected 1)'
          % (threading.active_count() - threads0))
    ipmi.get_device_id()
    print('close()')
    ipmi.session.close()
    n_close = len(bmc.wire)
    assert bmc.wire[-1][0] == 'Close Session'
    closed_sid = bmc.wire[-1][3]
    time.sleep(4 * KEEP_ALIVE)
    after = bmc.wire[n_close:]

    print('\ndatagrams seen by the BMC:')
    for i, (name, auth, seq, sid) in enumerate(bmc.wire):
        mark = '   <-- after Close Session' if i >= n_close else ''
        if auth is None:
            print('  %2d %s%s' % (i, name, mark))
        else:
            print('  %2d %-40s auth=%d seq=%08xh session id=%08xh%s' %
                  (i, name, auth, seq, sid, mark))

    print('\nexpected: Close Session for %08xh is the last datagram of the '
          'session' % closed_sid)
    if after:
        for name, auth, seq, sid in after:
            print('got     : %s sent after Close Session, session id %08xh '
                  '(closed), session sequence number %08xh (that of the '
                  'Close Session datagram: %08xh)'
                  % (name, sid, seq, bmc.wire[n_close - 1][2]))
        print('PROPERTY VIOLATED')
        return 1
    print('got     : nothing after Close Session')
    print('ok')
    return 0


if __name__ == '__main__':
    sys.exit(main())
