"""C06 finding 1: a second establish_session() inherits `activated`/sequence
state of the previous session; when that handshake fails before activation,
close() sends Close Session for the *temporary* session id (never granted),
authenticated and numbered as if a session existed, and raises.

Fault sequence (all inside the property's quantifier):
  attempt 1: the reply to Set Session Privilege Level is lost (silence)
  attempt 2: the BMC (one session slot, still occupied) refuses Activate
             Session with completion code 81h
  close()

Run:  cd /tmp/hunt2_c06 && /venv/bin/python -B _hunt/finding_1/demo.py
"""
import hashlib
import socket
import struct
import sys

sys.path.insert(0, '/tmp/hunt2_c06')

import pyipmi                      # noqa: E402
import pyipmi.interfaces           # noqa: E402

PASSWORD = b'secret'.ljust(16, b'\0')
USER = b'admin'.ljust(16, b'\0')
AUTH_MD5 = 2


def cksum(bs):
    return (-sum(bs)) & 0xff


class RefBmc(object):
    """IPMI v1.5 LAN BMC with ONE session slot, written from the specification
    (IPMI v1.5 ch. 6.11, 12 and 18.14-18.17), not with the library's codecs."""

    def __init__(self):
        self.next_temp = [0x00000099, 0x11223344]      # temporary ids handed out
        self.challenge = bytes(range(0x80, 0x90))
        self.granted_sid = 0xA1B2C3D4
        self.init_seq = 0x100
        self.temp_sid = None
        self.active_sid = None                         # the one session slot
        self.drop_setpriv_reply = 1
        self.wire = []                                 # every datagram seen

    def handle(self, pdu):
        assert pdu[0] == 6
        cls = pdu[3]
        body = pdu[4:]
        if cls == 6:                                   # ASF presence ping
            tag = body[5]
            self.wire.append(('Presence Ping', None, None, None, None))
            pong = struct.pack('!IBBBB', 4542, 0x40, tag, 0, 16) + \
                struct.pack('!IIBB6x', 4542, 0, 0x81, 0)
            return [bytes([6, 0, 0xff, 6]) + pong]
        auth = body[0]
        seq, sid = struct.unpack('<II', body[1:9])
        if auth == 0:
            code, msg = None, body[10:]
        else:
            code, msg = body[9:25], body[26:]
        rs_sa, netfn_lun, _c, rq_sa, rqseq_lun, cmd = msg[:6]
        netfn = netfn_lun >> 2
        data = msg[6:-1]
        name = {0x38: 'Get Channel Authentication Capabilities',
                0x39: 'Get Session Challenge', 0x3a: 'Activate Session',
                0x3b: 'Set Session Privilege Level', 0x3c: 'Close Session',
                0x01: 'Get Device ID'}.get(cmd, 'cmd %02xh' % cmd)
        self.wire.append((name, auth, seq, sid, bytes(data)))

        def reply(cc, rdata=b''):
            m = bytes([rq_sa, ((netfn | 1) << 2)])
            m += bytes([cksum(m)])
            rest = bytes([rs_sa, rqseq_lun, cmd, cc]) + rdata
            m += rest + bytes([cksum(rest)])
            hdr = bytes([0]) + struct.pack('<II', 0, 0) + bytes([len(m)])
            return [bytes([6, 0, 0xff, 7]) + hdr + m]

        def authentic():
            exp = hashlib.md5(PASSWORD + struct.pack('<I', sid) + msg +
                              struct.pack('<I', seq) + PASSWORD).digest()
            return auth == AUTH_MD5 and code == exp

        if cmd == 0x38:
            return reply(0, bytes([1, 0x04, 0, 0, 0, 0, 0, 0]))     # MD5 only
        if cmd == 0x39:
            assert data[1:17] == USER
            self.temp_sid = self.next_temp.pop()
            return reply(0, struct.pack('<I', self.temp_sid) + self.challenge)
        if cmd == 0x3a:
            if sid != self.temp_sid or not authentic():
                return []
            if self.active_sid is not None:
                return reply(0x81)          # 81h: no session slot available
            self.active_sid = self.granted_sid
            return reply(0, bytes([AUTH_MD5]) +
                         struct.pack('<II', self.granted_sid, self.init_seq) +
                         bytes([data[1] & 0xf]))
        # commands that need an active session
        if sid != self.active_sid or not authentic():
            return []                        # not for a session of this BMC
        if cmd == 0x3b:
            if self.drop_setpriv_reply:
                self.drop_setpriv_reply -= 1
                return []                    # the reply datagram is lost
            return reply(0, bytes([data[0] & 0xf]))
        if cmd == 0x3c:
            (csid,) = struct.unpack('<I', data[:4])
            if csid != self.active_sid:
                return reply(0x87)
            self.active_sid = None
            return reply(0)
        return reply(0xc1)


class FakeSocket(object):
    def __init__(self, bmc):
        self.bmc, self.q, self.timeout = bmc, [], None

    def settimeout(self, t):
        self.timeout = t

    def gettimeout(self):
        return self.timeout

    def sendto(self, pdu, addr):
        self.q.extend(self.bmc.handle(bytes(pdu)))

    def recvfrom(self, n):
        if not self.q:
            if self.timeout == 0:
                raise BlockingIOError()
            raise socket.timeout()          # silence: the time-out elapses
        return self.q.pop(0), ('bmc', 623)


def main():
    bmc = RefBmc()
    intf = pyipmi.interfaces.create_interface('rmcp', keep_alive_interval=0)
    ipmi = pyipmi.create_connection(intf)
    ipmi.session.set_session_type_rmcp('bmc', 623)
    ipmi.session.set_auth_type_user('admin', 'secret')
    ipmi.target = pyipmi.Target(0x20)
    intf._sock = FakeSocket(bmc)

    print('attempt 1: reply to Set Session Privilege Level is lost')
    try:
        ipmi.session.establish()
        print('  establish() returned')
    except Exception as e:
        print('  establish() raised %r' % e)

    print('attempt 2: BMC refuses Activate Session (81h, slot still occupied)')
    try:
        ipmi.session.establish()
        print('  establish() returned')
    except Exception as e:
        print('  establish() raised %r' % e)
    temp2 = bmc.temp_sid
    n_before_close = len(bmc.wire)

    print('close() after the failed handshake')
    close_exc = None
    try:
        ipmi.session.close()
        print('  close() returned')
    except Exception as e:
        close_exc = e
        print('  close() raised %r' % e)

    print('\ndatagrams seen by the BMC:')
    for i, (name, auth, seq, sid, data) in enumerate(bmc.wire):
        if auth is None:
            print('  %2d %s' % (i, name))
        else:
            print('  %2d %-40s auth=%d seq=%08xh session id=%08xh' %
                  (i, name, auth, seq, sid))

    sent_by_close = bmc.wire[n_before_close:]
    bad = [d for d in sent_by_close if d[3] == temp2]
    print('\ngranted session id (attempt 1): %08xh' % bmc.granted_sid)
    print('temporary session id (attempt 2, never activated): %08xh' % temp2)
    print('expected: close() after a handshake that got no session sends '
          'nothing for the temporary id\n          and returns (as it does '
          'when the very first handshake fails at this step)')
    if bad or close_exc is not None:
        for name, auth, seq, sid, data in bad:
            print('got     : %s, header session id %08xh, request data '
                  'session id %08xh, auth type %d, session sequence number '
                  '%08xh' % (name, sid, struct.unpack('<I', data[:4])[0],
                             auth, seq))
        if close_exc is not None:
            print('got     : close() raised %r' % close_exc)
        print('PROPERTY VIOLATED')
        return 1
    print('got     : nothing sent, close() returned')
    print('ok')
    return 0


if __name__ == '__main__':
    sys.exit(main())
