"""C06 finding 2: a BMC that offers NO authentication type (empty capability
set) is asked for a session challenge with authentication type 'none', a type it
did not offer.

Run: cd /tmp/hunt_c06 && /venv/bin/python -B _hunt/finding_2/demo.py
"""
import os
import sys
sys.path.insert(0, os.path.join(os.path.dirname(__file__), '..'))
sys.path.insert(0, os.getcwd())
from refbmc import RefBmc, make  # reference v1.5 BMC behind a fake socket

# Get Channel Authentication Capabilities response byte 3 = 00h: none of
# none/MD2/MD5/straight password/OEM is enabled for the requested privilege
# level (IPMI v1.5 table 18-12 / v2.0 table 22-15).
bmc = RefBmc(caps=())
ipmi, intf = make(bmc)
try:
    ipmi.session.establish()
    exc = None
except Exception as e:
    exc = e

print('BMC capability set        : {} (authentication type support byte 00h)')
print('datagrams sent            :', bmc.names())
for kind, e in bmc.log:
    if kind == 'ipmi' and e.get('name') == 'challenge':
        print('Get Session Challenge asks: authentication type %d, user %r'
              % (e['req_auth'], e['user']))
print('establish_session raised  : %r' % (exc,))
print('reference BMC violations  :', bmc.violations)

# the same against a BMC that does not validate the requested type
bmc2 = RefBmc(caps=())
bmc2.lenient = True
ipmi2, intf2 = make(bmc2)
try:
    ipmi2.session.establish()
    exc2 = None
except Exception as e:
    exc2 = e
print('lenient BMC (answers the challenge): datagrams %r, raised %r'
      % (bmc2.names(), exc2))
print()
print('expected: no authentication type is offered, so the library uses none '
      'of them: it stops after Get Channel Authentication Capabilities')
violated = bool(bmc.violations or 'challenge' in bmc.names())
if violated:
    print('got     : Get Session Challenge for authentication type 0 (none), '
          'which the BMC did not offer')
else:
    print('got     : as expected')
sys.exit(1 if violated else 0)
