"""C06 finding 4: the user name in Get Session Challenge is padded to 16
CHARACTERS and then UTF-8 encoded, so a name of <= 16 bytes that contains a
non-ASCII character yields a user name field longer than 16 bytes (malformed
request); a name given as bytes (as passwords may be) raises TypeError.

Run: cd /tmp/hunt_c06 && /venv/bin/python -B _hunt/finding_4/demo.py
"""
import os
import sys
sys.path.insert(0, os.path.join(os.path.dirname(__file__), '..'))
sys.path.insert(0, os.getcwd())
from refbmc import RefBmc, make

bad = 0
for user in ('admin', 'müller', 'é' * 8, b'admin'):
    raw = user if isinstance(user, bytes) else user.encode('utf-8')
    assert len(raw) <= 16
    bmc = RefBmc(users={raw: b'pw'})
    ipmi, intf = make(bmc, user=user, password='pw')
    try:
        ipmi.session.establish()
        ipmi.session.close()
        res = 'ok'
    except Exception as e:
        res = 'raised %r' % (e,)
    ch = [e for k, e in bmc.log if k == 'ipmi' and e.get('name') == 'challenge']
    field = ch[0]['data'][1:] if ch else None
    want = raw.ljust(16, b'\0')
    ok = res == 'ok' and field == want and not bmc.violations
    print('user %-12r (%2d bytes): %s' % (user, len(raw), res))
    print('    expected user name field (16 bytes): %s' % want.hex())
    print('    got                                : %s%s'
          % ('%s (%d bytes)' % (field.hex(), len(field)) if field is not None
             else 'no Get Session Challenge sent', '' if ok else '   <-- VIOLATION'))
    if bmc.violations:
        print('    reference BMC:', bmc.violations)
    bad += 0 if ok else 1
sys.exit(1 if bad else 0)
