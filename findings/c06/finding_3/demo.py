"""C06 finding 3: a session for the null user (no user configured) cannot be
activated with MD5 or straight-password authentication: packing the Activate
Session datagram raises AttributeError after Get Session Challenge went out.

Run: cd /tmp/hunt_c06 && /venv/bin/python -B _hunt/finding_3/demo.py
"""
import os
import sys
sys.path.insert(0, os.path.join(os.path.dirname(__file__), '..'))
sys.path.insert(0, os.getcwd())
from refbmc import RefBmc, make, AUTH_NONE, AUTH_MD5, AUTH_PWD

bad = 0
for caps, label in (((AUTH_NONE,), 'none'), ((AUTH_PWD,), 'password'),
                    ((AUTH_MD5,), 'MD5'), ((AUTH_NONE, AUTH_MD5), 'none+MD5')):
    # BMC: user 1 = null user name, null password (16 x 00h), anonymous login
    bmc = RefBmc(caps=caps, users={b'': b''})
    # client: host and privilege level set, set_auth_type_user() never called
    # -> Session._auth_username is None, Session._auth_password is None
    ipmi, intf = make(bmc, configure_user=False)
    try:
        ipmi.session.establish()
        ipmi.get_device_id()
        ipmi.session.close()
        res = 'ok'
    except Exception as e:
        res = 'raised %r' % (e,)
    want = ['ping', 'caps', 'challenge', 'activate', 'setpriv', 'devid', 'close']
    ok = res == 'ok' and bmc.names() == want and not bmc.violations
    print('BMC offers %-9s: %s; datagrams %r %s'
          % (label, res, bmc.names(), '' if ok else ' <-- VIOLATION'))
    bad += 0 if ok else 1

print()
print('expected: ping, caps, challenge(null user), activate authenticated with '
      'the all-zero password, ...')
print('got     : %d of 4 capability sets end in a Python-level error before '
      'Activate Session is sent' % bad)
sys.exit(1 if bad else 0)
