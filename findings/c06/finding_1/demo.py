"""C06 finding 1: closing after a handshake that failed before Activate Session
raises AttributeError instead of (silently) sending nothing.

Run: cd /tmp/hunt_c06 && /venv/bin/python -B _hunt/finding_1/demo.py
"""
import os
import sys
sys.path.insert(0, os.path.join(os.path.dirname(__file__), '..'))
sys.path.insert(0, os.getcwd())
from refbmc import RefBmc, make  # reference v1.5 BMC behind a fake socket

bad = 0
for step, fault in (('ping', 'silence'),
                    ('caps', 'silence'), ('caps', 0xc0),
                    ('challenge', 'silence'), ('challenge', 0x81),
                    ('activate', 'silence'), ('activate', 0x81)):
    bmc = RefBmc(faults={step: fault})
    ipmi, intf = make(bmc)
    try:
        ipmi.session.establish()
        print('unexpected: handshake succeeded')
        bad += 1
        continue
    except Exception as e:      # the fault must be reported to the caller
        first = e
    sent_before = len(bmc.log)
    try:
        ipmi.session.close()    # what a try/finally around open() does
        result = 'returned normally'
    except Exception as e:
        result = 'raised %r' % (e,)
    sent = bmc.names()[sent_before:]
    ok = result == 'returned normally' and sent == [] and not bmc.violations
    print('%-9s %-9r: establish -> %-34.34r close -> %s; datagrams sent by '
          'close: %r %s' % (step, fault, first, result, sent,
                            '' if ok else '  <-- VIOLATION'))
    if not ok:
        bad += 1

print()
print('expected: close() after a handshake that granted no session sends '
      'nothing and returns (as it does after a failed Activate Session)')
print('got     : %d of 7 fault positions end in a Python-level error' % bad)
sys.exit(1 if bad else 0)
