"""Reference IPMI v1.5 LAN BMC (built from the IPMI v1.5/v2.0 specification,
section 6.11/6.12, 13.x, 22.13-22.19), plus a fake UDP socket.

Nothing in here uses the library's encoders.
"""
import hashlib
import socket
import struct


def cks(bs):
    return (-sum(bs)) & 0xff


class RefBmc(object):
    AUTH_BITS = {0: 0x01, 1: 0x02, 2: 0x04, 4: 0x10, 5: 0x20}

    def __init__(self, caps=(2,), users=None, temp_sid=0x11223344,
                 sid=0xa0b0c0d0, initial_seq=0x100, challenge=None,
                 bmc_addr=0x20):
        self.caps = set(caps)
        self.users = users or {b'': b''}     # name (unpadded) -> password
        self.temp_sid = temp_sid
        self.sid = sid
        self.initial_seq = initial_seq
        self.challenge = challenge or bytes(range(0x80, 0x90))
        self.bmc_addr = bmc_addr
        self.state = 'idle'    # idle / challenged / active
        self.user = None
        self.auth = None
        self.priv_req = None
        self.last_seq = None
        self.log = []          # (kind, details) of every datagram received
        self.violations = []
        self.script = {}       # datagram index -> 'drop' | ('cc', n) | 'droprsp'
        self.count = 0
        self.closed_ids = []

    # -------------------------------------------------------------- helpers
    def v(self, msg):
        self.violations.append('datagram #%d: %s' % (self.count, msg))

    def pad(self, b):
        return b.ljust(16, b'\0')

    def authcode(self, auth, pw, sid, seq, body):
        if auth == 4:
            return self.pad(pw)
        if auth == 2:
            return hashlib.md5(self.pad(pw) + struct.pack('<I', sid) + body
                               + struct.pack('<I', seq) + self.pad(pw)).digest()
        raise AssertionError

    def wrap(self, auth, seq, sid, body, pw=b''):
        hdr = struct.pack('<BII', auth, seq, sid)
        if auth != 0:
            hdr += self.authcode(auth, pw, sid, seq, body)
        return b'\x06\x00\xff\x07' + hdr + bytes([len(body)]) + body

    def ipmb_rsp(self, rq, cmd, data):
        # rq: parsed request dict
        h = bytes([rq['rq_sa'], ((rq['netfn'] | 1) << 2) | rq['rq_lun']])
        b = bytes([rq['rs_sa'], (rq['rq_seq'] << 2) | rq['rs_lun'], cmd]) + data
        return h + bytes([cks(h)]) + b + bytes([cks(b)])

    # -------------------------------------------------------------- receive
    def receive(self, dgram):
        """returns list of reply datagrams"""
        self.count += 1
        idx = self.count
        act = self.script.get(idx)
        if dgram[:4] == b'\x06\x00\xff\x06':
            self.log.append(('ping', None))
            if dgram[4:] != struct.pack('>IBBBB', 4542, 0x80, dgram[9], 0, 0):
                self.v('malformed ping %r' % dgram)
            if act == 'drop':
                return []
            pong = struct.pack('>IBBBB', 4542, 0x40, dgram[9], 0, 16) \
                + struct.pack('>IIBB6x', 4542, 0, 0x81, 0)
            return [b'\x06\x00\xff\x06' + pong]
        if dgram[:4] != b'\x06\x00\xff\x07':
            self.v('bad RMCP header %r' % dgram[:4])
            return []
        auth, seq, sid = struct.unpack('<BII', dgram[4:13])
        p = 13
        code = None
        if auth != 0:
            code = dgram[p:p + 16]
            p += 16
        ln = dgram[p]
        body = dgram[p + 1:]
        if ln != len(body):
            self.v('payload length %d != %d' % (ln, len(body)))
        if cks(body[0:2]) != body[2] or cks(body[3:-1]) != body[-1]:
            self.v('checksum')
        rq = dict(rs_sa=body[0], netfn=body[1] >> 2, rs_lun=body[1] & 3,
                  rq_sa=body[3], rq_seq=body[4] >> 2, rq_lun=body[4] & 3,
                  cmd=body[5], data=body[6:-1])
        self.log.append(('ipmi', dict(auth=auth, seq=seq, sid=sid,
                                      netfn=rq['netfn'], cmd=rq['cmd'],
                                      data=rq['data'], state=self.state)))
        if act == 'drop':
            return []
        cmd = rq['cmd']
        pw = self.users.get(self.user, b'') if self.user is not None else b''

        def reply(data, r_auth=0, r_seq=0, r_sid=0):
            if act == 'droprsp':
                return []
            return [self.wrap(r_auth, r_seq, r_sid,
                              self.ipmb_rsp(rq, cmd, data), pw)]

        if rq['netfn'] != 6:
            self.v('netfn %d' % rq['netfn'])
            return []

        # ---- session-less commands
        if cmd in (0x38, 0x39):
            if (auth, seq, sid) != (0, 0, 0):
                self.v('cmd %02x must be outside any session, got auth=%d '
                       'seq=%#x sid=%#x' % (cmd, auth, seq, sid))
            if isinstance(act, tuple):
                return reply(bytes([act[1]]))
            if cmd == 0x38:
                if rq['data'][0] & 0x0f != 0x0e:
                    self.v('channel')
                self.priv_req = rq['data'][1] & 0x0f
                bits = 0
                for c in self.caps:
                    bits |= self.AUTH_BITS[c]
                return reply(bytes([0, 1, bits, 0x00, 0, 0, 0, 0, 0]))
            # 0x39
            a = rq['data'][0] & 0x0f
            name = rq['data'][1:17]
            if len(rq['data']) != 17:
                self.v('Get Session Challenge length %d' % len(rq['data']))
                return reply(b'\xc7')
            if a not in self.caps:
                self.v('challenge for auth type %d not offered' % a)
                return reply(b'\xcc')
            name = name.rstrip(b'\0')
            if name not in self.users:
                return reply(b'\x81')
            self.user = name
            self.auth = a
            self.state = 'challenged'
            return reply(b'\0' + struct.pack('<I', self.temp_sid)
                         + self.challenge)

        if cmd == 0x3a and self.state == 'challenged':
            if auth != self.auth:
                self.v('Activate Session auth type %d, challenge was for %d'
                       % (auth, self.auth))
            if sid != self.temp_sid:
                self.v('Activate Session must use temp sid %#x, got %#x'
                       % (self.temp_sid, sid))
            if auth != 0 and code != self.authcode(auth, pw, sid, seq, body):
                self.v('Activate Session bad authcode')
                return []
            d = rq['data']
            if len(d) != 22:
                self.v('activate len')
            if d[0] & 0xf != self.auth:
                self.v('activate data auth type')
            self.act_priv = d[1] & 0xf
            if d[2:18] != self.challenge:
                self.v('challenge not returned: %r' % d[2:18])
            (self.outseq,) = struct.unpack('<I', d[18:22])
            if isinstance(act, tuple):
                return reply(bytes([act[1]]), auth, 0, self.temp_sid)
            self.state = 'active'
            self.last_seq = None
            return reply(bytes([0, self.auth]) + struct.pack('<II', self.sid,
                         self.initial_seq) + bytes([self.act_priv]),
                         auth, self.outseq, self.sid)

        if self.state != 'active':
            self.v('cmd %02x in state %s (auth=%d seq=%#x sid=%#x)'
                   % (cmd, self.state, auth, seq, sid))
            return []

        # ---- in session
        if sid != self.sid:
            self.v('session id %#x, granted %#x' % (sid, self.sid))
        if auth != self.auth:
            self.v('auth type %d, session has %d' % (auth, self.auth))
        if auth != 0 and code != self.authcode(auth, pw, sid, seq, body):
            self.v('bad authcode')
        if seq == 0:
            self.v('sequence number 0 inside session')
        if self.last_seq is None:
            # window of the assigned initial value: +/- 8 (6.12.13), mod 2^32
            diff = (seq - self.initial_seq) & 0xffffffff
            if not (diff <= 8 or diff >= 0x100000000 - 8):
                self.v('first seq %#x outside window of %#x'
                       % (seq, self.initial_seq))
        else:
            exp = self.last_seq + 1
            if exp > 0xffffffff:
                exp = 1
            if seq != exp:
                self.v('seq %#x, expected %#x' % (seq, exp))
        self.last_seq = seq
        if isinstance(act, tuple):
            return reply(bytes([act[1]]), auth, 1, self.sid)
        if cmd == 0x3b:
            return reply(bytes([0, rq['data'][0] & 0xf]), auth, 1, self.sid)
        if cmd == 0x3c:
            (cid,) = struct.unpack('<I', rq['data'][:4])
            self.closed_ids.append(cid)
            if cid != self.sid:
                self.v('Close Session for %#x, granted %#x' % (cid, self.sid))
                return reply(b'\x87', auth, 1, self.sid)
            self.state = 'idle'
            return reply(b'\0', auth, 1, self.sid)
        if cmd == 0x01:
            return reply(bytes([0, 1, 0x80, 1, 2, 0x51, 0xbf, 0, 0, 0, 0, 0,
                                0, 0, 0, 0]), auth, 1, self.sid)
        return reply(b'\xc1', auth, 1, self.sid)

    def names(self):
        out = []
        for k, d in self.log:
            out.append('ping' if k == 'ping' else '%02x' % d['cmd'])
        return out


class FakeSock(object):
    def __init__(self, bmc):
        self.bmc = bmc
        self.q = []
        self.timeout = 2.0
        self.sent = []

    def settimeout(self, t):
        self.timeout = t

    def gettimeout(self):
        return self.timeout

    def sendto(self, pdu, addr):
        self.sent.append(pdu)
        self.q.extend(self.bmc.receive(bytes(pdu)))

    def recvfrom(self, n):
        if self.q:
            return (self.q.pop(0), ('bmc', 623))
        if self.timeout == 0:
            raise BlockingIOError()
        raise socket.timeout()
