import sys
sys.path.insert(0, '/tmp/h3_C06'); sys.path.insert(0, '/tmp/h3_C06/_hunt')
from refbmc import RefBmc, FakeSock
from pyipmi.interfaces.rmcp import Rmcp
from pyipmi.session import Session

def mk(bmc, user='admin', pw='secret', priv='administrator', **kw):
    kw.setdefault('keep_alive_interval', 0)
    intf = Rmcp(**kw)
    intf._sock = FakeSock(bmc)
    s = Session()
    s.set_session_type_rmcp('bmc', 623)
    if user is not None:
        s.set_auth_type_user(user, pw)
    s.set_priv_level(priv)
    s.interface = intf
    return intf, s
