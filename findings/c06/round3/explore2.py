import sys
sys.path.insert(0, '/tmp/h3_C06'); sys.path.insert(0, '/tmp/h3_C06/_hunt')
from refbmc import RefBmc, FakeSock
from explore_common import mk
import struct

def t(title, caps, users, user, pw, priv='administrator', rawpriv=None):
    bmc = RefBmc(caps=caps, users=users)
    intf, s = mk(bmc, user=user, pw=pw, priv=priv)
    if rawpriv is not None:
        s._priv_level = rawpriv
    exc = None
    try:
        s.establish(); intf._get_device_id(); s.close()
    except Exception as e:
        exc = e
    print(title, 'auth', bmc.auth, 'user', bmc.user, 'privreq', bmc.priv_req, getattr(bmc, 'act_priv', None), 'exc', repr(exc), bmc.violations, bmc.names())

t('anon-none', (0,), {b'': b''}, None, None)
t('anon-md5', (2,), {b'': b''}, None, None)
t('anon-pw', (4,), {b'': b''}, None, None)
t('empty-md5', (2,), {b'': b''}, '', '')
t('empty-pw', (4,), {b'': b''}, '', '')
t('16-md5', (2,), {b'A'*16: b'P'*16}, 'A'*16, 'P'*16)
t('16-pw', (4,), {b'A'*16: b'P'*16}, 'A'*16, 'P'*16)
t('bytes-pw', (2,), {b'admin': b'\xff\x00\x01'}, 'admin', b'\xff\x00\x01')
t('bytes-user', (2,), {b'admin': b'x'}, b'admin', 'x')
t('utf8-pw', (2,), {b'admin': 'pä'.encode()}, 'admin', 'pä')
t('user-priv', (2,), {b'admin': b'x'}, 'admin', 'x', 'user')
t('op-priv', (2,), {b'admin': b'x'}, 'admin', 'x', 'operator')
t('cb-priv', (2,), {b'admin': b'x'}, 'admin', 'x', rawpriv=1)
t('oem-priv', (2,), {b'admin': b'x'}, 'admin', 'x', rawpriv=5)
