"""C06 finding 3: silence at a handshake step where the BMC's answer is merely
late (it arrives after the receive timeout).  The next establish_session() on
the same interface reads that stale IPMI datagram as the answer to its presence
ping, raises DecodingError and sends nothing but the ping - although the BMC
is up and follows the rules.  (Every other request drains the socket first,
the ping does not.)"""
import socket
import sys
sys.path.insert(0, '/tmp/h3_C06')
sys.path.insert(0, '/tmp/h3_C06/_hunt')
from refbmc import RefBmc, FakeSock          # reference BMC built from the spec
from pyipmi.interfaces.rmcp import Rmcp
from pyipmi.session import Session


class LateSock(FakeSock):
    """The answer to datagram number `late_at` arrives only after the client
    has run into its receive timeout."""
    def __init__(self, bmc, late_at):
        FakeSock.__init__(self, bmc)
        self.late_at = late_at
        self.held = []

    def sendto(self, pdu, addr):
        self.sent.append(pdu)
        rsp = self.bmc.receive(bytes(pdu))
        if self.bmc.count == self.late_at:
            self.held.extend(rsp)
        else:
            self.q.extend(rsp)

    def recvfrom(self, n):
        if self.q:
            return (self.q.pop(0), ('bmc', 623))
        if self.timeout == 0:
            raise BlockingIOError()
        # timeout elapses; the late datagram arrives afterwards
        self.q.extend(self.held)
        self.held = []
        raise socket.timeout()


STEPS = {2: 'Get Channel Authentication Capabilities',
         3: 'Get Session Challenge', 4: 'Activate Session',
         5: 'Set Session Privilege Level'}
bad = 0
for late_at in sorted(STEPS):
    bmc = RefBmc(caps=(2,), users={b'admin': b'secret'})
    intf = Rmcp(keep_alive_interval=0)
    intf._sock = LateSock(bmc, late_at)
    s = Session()
    s.set_session_type_rmcp('bmc', 623)
    s.set_auth_type_user('admin', 'secret')
    s.interface = intf
    try:
        s.establish()
        first = None
    except Exception as e:                   # noqa
        first = e
    n = len(bmc.log)
    # the caller tries again on the same interface object
    bmc.state = 'idle'    # the reference BMC models a single session slot: free it
    exc = None
    try:
        s.establish()
    except Exception as e:                   # noqa
        exc = e
    got = bmc.names()[n:]
    want = ['ping', '38', '39', '3a', '3b']
    ok = exc is None and got == want and not bmc.violations
    print('answer to %s late -> 1st establish_session: %r' % (STEPS[late_at], first))
    print('   2nd establish_session expected datagrams: %s, no exception' % want)
    print('   2nd establish_session got      datagrams: %s, exception: %r'
          % (got, exc))
    if not ok:
        bad += 1
print('VIOLATED' if bad else 'ok')
sys.exit(1 if bad else 0)
