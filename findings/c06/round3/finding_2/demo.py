"""C06 finding 2: a user name given as bytes (accepted for the password, and
used by the library's own test suite: set_auth_type_user(b'admin', b'admin'))
makes Get Session Challenge fail with TypeError before it is sent; a str user
name with non-ASCII characters is padded to 16 *characters*, i.e. to more than
16 bytes, so the request is malformed."""
import sys
sys.path.insert(0, '/tmp/h3_C06')
sys.path.insert(0, '/tmp/h3_C06/_hunt')
from refbmc import RefBmc, FakeSock          # reference BMC built from the spec
from pyipmi.interfaces.rmcp import Rmcp
from pyipmi.session import Session

cases = [
    ('bytes user name', b'admin', b'admin', b'admin'),
    ('bytes user name, 16 bytes', b'0123456789abcdef', b'pw', b'0123456789abcdef'),
    ('str user name, 11 bytes UTF-8', 'müller-adm', 'pw', 'müller-adm'.encode()),
]
bad = 0
for title, user, pw, wire_name in cases:
    wire_pw = pw if isinstance(pw, bytes) else pw.encode()
    bmc = RefBmc(caps=(0, 2, 4), users={wire_name: wire_pw})
    intf = Rmcp(keep_alive_interval=0)
    intf._sock = FakeSock(bmc)
    s = Session()
    s.set_session_type_rmcp('bmc', 623)
    s.set_auth_type_user(user, pw)
    s.interface = intf
    exc = None
    try:
        s.establish()
        intf._get_device_id()
        s.close()
    except Exception as e:                   # noqa
        exc = e
    want = ['ping', '38', '39', '3a', '3b', '01', '3c']
    got = bmc.names()
    ok = exc is None and got == want and not bmc.violations \
        and bmc.user == wire_name and bmc.auth == 2
    print('%s: user=%r password=%r' % (title, user, pw))
    print('   expected datagrams: %s, Get Session Challenge for %r'
          % (want, wire_name.ljust(16, b'\0')))
    print('   got      datagrams: %s, user seen by BMC: %r, exception: %r, '
          'BMC complaints: %s' % (got, bmc.user, exc, bmc.violations))
    if not ok:
        bad += 1
print('VIOLATED' if bad else 'ok')
sys.exit(1 if bad else 0)
