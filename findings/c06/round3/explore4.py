import sys
sys.path.insert(0, '/tmp/h3_C06'); sys.path.insert(0, '/tmp/h3_C06/_hunt')
from refbmc import RefBmc, FakeSock
from explore_common import mk
import pyipmi
users = {b'admin': b'secret'}
# non default addresses / quirks
bmc = RefBmc(caps=(2,4), users=users)
intf, s = mk(bmc, slave_address=0x83, host_target_address=0x22, max_retries=2,
             quirks_cfg={'rmcp_ignore_sdu_length': True, 'rmcp_ignore_rq_seq': True})
s.establish(); intf._get_device_id(); s.close(); s.establish(); s.close(); s.close()
print('addr', bmc.names(), bmc.violations, bmc.closed_ids)
# sendto OSError in session
bmc = RefBmc(caps=(2,), users=users)
intf, s = mk(bmc)
s.establish()
orig = intf._sock.sendto
def boom(p, a): raise OSError('unreachable')
intf._sock.sendto = boom
try: intf._get_device_id()
except OSError as e: print('oserror', e)
intf._sock.sendto = orig
intf._get_device_id(); s.close()
print('after OSError', bmc.violations)
# Ipmi.session setter
bmc = RefBmc(caps=(2,), users=users)
intf, s0 = mk(bmc)
ipmi = pyipmi.create_connection(intf)
intf.open = lambda: None
s = pyipmi.Session(); s.set_session_type_rmcp('bmc'); s.set_auth_type_user('admin', 'secret')
ipmi.session = s
ipmi.open()
print('Ipmi.session setter -> datagrams', bmc.names())
