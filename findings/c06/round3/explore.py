import sys, itertools, traceback
sys.path.insert(0, '/tmp/h3_C06')
sys.path.insert(0, '/tmp/h3_C06/_hunt')
from refbmc import RefBmc, FakeSock
from pyipmi.interfaces.rmcp import Rmcp
from pyipmi.session import Session
import pyipmi


def mk(bmc, user='admin', pw='secret', priv='administrator', **kw):
    intf = Rmcp(keep_alive_interval=0, **kw)
    intf._sock = FakeSock(bmc)
    s = Session()
    s.set_session_type_rmcp('bmc', 623)
    if user is not None:
        s.set_auth_type_user(user, pw)
    s.set_priv_level(priv)
    s.interface = intf
    return intf, s


def run(title, bmc, intf, s, steps):
    print('==', title)
    for st in steps:
        try:
            st()
        except Exception as e:
            print('   exc', type(e).__name__, e)
    print('   order', bmc.names())
    for v in bmc.violations:
        print('   VIOLATION', v)


def devid(intf):
    def f():
        intf._get_device_id()
    return f

users = {b'admin': b'secret', b'': b''}

# 1 all capability subsets
for r in range(0, 6):
    for caps in itertools.combinations([0, 1, 2, 4, 5], r):
        bmc = RefBmc(caps=caps, users=users)
        intf, s = mk(bmc)
        exc = None
        try:
            s.establish()
            intf._get_device_id()
            s.close()
        except Exception as e:
            exc = e
        impl = [c for c in (2, 4, 0) if c in caps]
        exp = impl[0] if impl else None
        ok = (bmc.auth == exp) if exp is not None else exc is not None
        if bmc.violations or not ok or (exp is not None and exc):
            print('caps', caps, 'auth', bmc.auth, 'exp', exp, 'exc', repr(exc), bmc.violations, bmc.names())

# 2 initial seq edge, many requests
for init in (0, 1, 0xfffffffe, 0xffffffff, 0xfffffff0):
    bmc = RefBmc(caps=(2,), users=users, initial_seq=init, sid=0xffffffff, temp_sid=0xffffffff)
    intf, s = mk(bmc)
    run('init %#x' % init, bmc, intf, s, [s.establish] + [devid(intf)] * 20 + [s.close])
    print('   closed', bmc.closed_ids)

# 3 retries with silence at each step
for mr in (1, 2):
    for step in range(1, 9):
        for kind in ('drop', 'droprsp', ('cc', 0xc0), ('cc', 0xd4), ('cc', 0x81)):
            bmc = RefBmc(caps=(2, 4), users=users, initial_seq=0xfffffffe)
            bmc.script[step] = kind
            intf, s = mk(bmc, max_retries=mr)
            print('-- mr', mr, 'step', step, kind)
            run('x', bmc, intf, s, [s.establish, devid(intf), devid(intf), s.close,
                                    s.establish, devid(intf), s.close])
            print('   closed', bmc.closed_ids, 'state', bmc.state)
