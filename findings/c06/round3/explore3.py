import sys, time, threading
sys.path.insert(0, '/tmp/h3_C06'); sys.path.insert(0, '/tmp/h3_C06/_hunt')
from refbmc import RefBmc, FakeSock
from explore_common import mk

users = {b'admin': b'secret'}
bmc = RefBmc(caps=(2,), users=users, initial_seq=0xfffffff0)
intf, s = mk(bmc, keep_alive_interval=0.01, max_retries=1)
s.establish()
def worker():
    for i in range(50):
        intf._get_device_id()
ts = [threading.Thread(target=worker) for _ in range(3)]
[t.start() for t in ts]; [t.join() for t in ts]
time.sleep(0.1)
s.close()
n = len(bmc.log)
time.sleep(0.1)
print('after close new datagrams', len(bmc.log) - n, 'total', n, bmc.violations[:5], bmc.names()[-3:])
# re-establish, with keepalive, and drop a keepalive reply
s.establish()
bmc.script[bmc.count + 2] = 'droprsp'
bmc.script[bmc.count + 3] = 'droprsp'
time.sleep(0.2)
n1 = len(bmc.log)
time.sleep(0.2)
print('keepalive alive after lost reply?', len(bmc.log) - n1, bmc.violations[:5])
s.close()
print(bmc.violations[:5], bmc.names()[-3:], bmc.state)
