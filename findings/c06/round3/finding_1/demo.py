"""C06 finding 1: a Session without credentials (the library default, i.e. the
IPMI null user with the null password) cannot open a session on a BMC that
offers MD5 or straight password: Activate Session is never sent, the handshake
dies with AttributeError."""
import sys
sys.path.insert(0, '/tmp/h3_C06')
sys.path.insert(0, '/tmp/h3_C06/_hunt')
from refbmc import RefBmc, FakeSock          # reference BMC built from the spec
from pyipmi.interfaces.rmcp import Rmcp
from pyipmi.session import Session

bad = 0
for caps, name in (((0, 2), 'none+MD5'), ((2,), 'MD5'), ((4,), 'password'),
                   ((0, 4), 'none+password')):
    # BMC with anonymous login enabled: null user name, null (all-zero) password
    bmc = RefBmc(caps=caps, users={b'': b''})
    intf = Rmcp(keep_alive_interval=0)
    intf._sock = FakeSock(bmc)
    s = Session()                            # no set_auth_type_user(): defaults
    s.set_session_type_rmcp('bmc', 623)
    s.interface = intf
    exc = None
    try:
        s.establish()
        intf._get_device_id()
        s.close()
    except Exception as e:                   # noqa
        exc = e
    want = ['ping', '38', '39', '3a', '3b', '01', '3c']
    got = bmc.names()
    exp_auth = 2 if 2 in caps else 4
    ok = exc is None and got == want and not bmc.violations \
        and bmc.auth == exp_auth
    print('BMC offers %-14s user=None password=None' % name)
    print('   expected datagrams: %s, authentication type %s, key = 16 zero bytes'
          % (want, 'MD5' if 2 in caps else 'password'))
    print('   got      datagrams: %s, exception: %r, BMC complaints: %s'
          % (got, exc, bmc.violations))
    if not ok:
        bad += 1
print('VIOLATED' if bad else 'ok')
sys.exit(1 if bad else 0)
