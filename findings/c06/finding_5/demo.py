"""C06 finding 5: IpmiMsg.pack increments the session sequence number BEFORE it
finds out that the datagram cannot be built (payload longer than the one-byte
IPMI v1.5 length field allows).  No datagram is sent, but a sequence number is
consumed: the next datagram is +2, and after 8 such requests in a row every
further datagram is outside the BMC's acceptance window (session dead).

Run: cd /tmp/hunt_c06 && /venv/bin/python -B _hunt/finding_5/demo.py
"""
import os
import sys
sys.path.insert(0, os.path.join(os.path.dirname(__file__), '..'))
sys.path.insert(0, os.getcwd())
from refbmc import RefBmc, make

big = b'\x02' + bytes(range(256))     # raw request: cmd 02h + 256 data bytes


def scenario(n_big):
    bmc = RefBmc(init_seq=0x10)
    ipmi, intf = make(bmc)
    ipmi.session.establish()
    ipmi.get_device_id()
    errs = []
    for _ in range(n_big):
        try:
            ipmi.raw_command(0, 6, big)
        except Exception as e:
            errs.append(type(e).__name__)
    try:
        ipmi.get_device_id()
        after = 'answered'
    except Exception as e:
        after = 'raised %s' % type(e).__name__
    seqs = ['%#x' % e['seq'] for k, e in bmc.log
            if k == 'ipmi' and e['sid'] == bmc.sid]
    print('%d oversize request(s): local errors %r' % (n_big, errs))
    print('   session sequence numbers seen by the BMC: %s' % seqs)
    print('   next Get Device ID: %s' % after)
    print('   reference BMC: %r' % (bmc.violations,))
    return bmc.violations


v1 = scenario(1)
v8 = scenario(8)
print()
print('expected: a request that produces no datagram consumes no session '
      'sequence number (0x11, 0x12, 0x13 ...)')
print('got     : gaps in the numbers the BMC sees' if (v1 or v8) else
      'got     : as expected')
sys.exit(1 if (v1 or v8) else 0)
