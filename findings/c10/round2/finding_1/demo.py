#!/usr/bin/env python
"""C10 finding 1: a read that names a count but no offset silently ignores the
count and transfers the WHOLE inventory; the get_fru_*_area methods issue
exactly such reads for an area the FRU does not have and return an "area"
made of the whole inventory (or die with a TypeError / ValueError).

Run:  cd /tmp/hunt2_c10 && /venv/bin/python -B _hunt/finding_1/demo.py
"""
import os
import sys

sys.path.insert(0, os.path.join(os.path.dirname(os.path.abspath(__file__)),
                                '..', '..'))

import pyipmi                                                    # noqa: E402
import pyipmi.errors                                             # noqa: E402
from pyipmi.msgs import (encode_message, decode_message,         # noqa: E402
                         create_response_message)


# ---------------------------------------------------------------- FRU image
# built by hand from the "Platform Management FRU Information Storage
# Definition" v1.0: common header, internal use area, board area, product
# area.  NO chassis info area, NO multi-record area (offsets 0 in the header).
def cks(b):
    return (-sum(b)) & 0xff


def tl(s):                      # type/length byte: 8-bit ASCII
    return bytes([0xC0 | len(s)]) + s


def info_area(body):
    body = bytearray(body) + b'\xc1'
    while (len(body) + 1) % 8:
        body.append(0)
    body[1] = (len(body) + 1) // 8
    body.append(cks(body))
    return bytes(body)


INTERNAL = bytes([0x01]) + bytes(23)                       # 3 * 8 bytes
BOARD = info_area(bytes([1, 0, 25, 1, 2, 3]) + tl(b'ACME') + tl(b'Board')
                  + tl(b'123456') + tl(b'PN') + tl(b''))
PRODUCT = info_area(bytes([1, 0, 25]) + tl(b'ACME') + tl(b'Prod') + tl(b'PN')
                    + tl(b'1') + tl(b'S') + tl(b'') + tl(b''))
HDR = [0x01,                    # format version
       1,                       # internal use area at 8
       0,                       # chassis info area: NOT PRESENT
       4,                       # board area at 32
       4 + len(BOARD) // 8,     # product area
       0,                       # multi-record area: NOT PRESENT
       0]
IMAGE = bytes(HDR) + bytes([cks(HDR)]) + INTERNAL + BOARD + PRODUCT
FRU_ID = 3


# ------------------------------------------------------- reference device
class Device(object):
    """Storage NetFn (0Ah) cmds 10h/11h per IPMI v2.0 34.1, 34.2."""

    def __init__(self, frus):
        self.frus = frus
        self.log = []

    def handle(self, netfn, cmd, raw):
        raw = bytearray(raw)
        assert netfn == 0x0a
        if cmd == 0x10:
            self.log.append(('info', raw[0]))
            n = len(self.frus[raw[0]])
            return bytes([0x00, n & 0xff, n >> 8, 0x00])
        if cmd == 0x11:
            fid, off, cnt = raw[0], raw[1] | raw[2] << 8, raw[3]
            self.log.append(('read', fid, off, cnt))
            st = self.frus[fid]
            if cnt == 0 or off + cnt > len(st):
                return bytes([0xc9])
            return bytes([0x00, cnt]) + st[off:off + cnt]
        raise AssertionError('unexpected command %02x' % cmd)


class Interface(object):
    def __init__(self, dev):
        self.dev = dev

    def send_and_receive(self, req):
        rsp = create_response_message(req)
        decode_message(rsp, self.dev.handle(req.netfn, req.cmdid,
                                            encode_message(req)))
        return rsp


dev = Device({0: bytes(len(IMAGE)), FRU_ID: IMAGE})
ipmi = pyipmi.Ipmi(interface=Interface(dev))
violations = 0

print('FRU %d stores %d bytes: %s' % (FRU_ID, len(IMAGE), IMAGE.hex()))
print('common header: chassis offset = 0 (absent), multirecord offset = 0 '
      '(absent)\n')

# ---- 1. the requested range is "8 bytes" - the whole inventory comes back
dev.log[:] = []
got = ipmi.read_fru_data(count=8, fru_id=FRU_ID)
print('1. read_fru_data(count=8, fru_id=%d)' % FRU_ID)
print('   expected: the 8 bytes %s' % IMAGE[:8].hex())
print('   got     : %d bytes; requests seen by the device: %r'
      % (len(got), dev.log))
if got != IMAGE[:8]:
    print('   VIOLATION: count ignored, %d bytes returned for an 8-byte '
          'range' % len(got))
    violations += 1


# ---- 2./3. the area getters on an area the FRU does not have
def probe(name):
    global violations
    dev.log[:] = []
    print('\n%s(fru_id=%d)   [this FRU has no such area]' % (name, FRU_ID))
    name = name.split()[-1]
    print('   expected: None (as FruInventory reports an absent area) or a '
          'pyipmi error, after reading the 8-byte header only')
    area, error = None, None
    try:
        area = getattr(ipmi, name)(fru_id=FRU_ID)
    except Exception as e:
        error = e
    if error is not None and type(error).__module__ == 'pyipmi.errors':
        # a clean library error would be acceptable
        print('   got     : %r' % error)
    elif error is not None:
        print('   got     : %s: %s' % (type(error).__name__, error))
        print('   VIOLATION: Python-level error instead of a result')
        violations += 1
    elif area is not None:
        data = bytes(getattr(area, 'data', b''))
        print('   got     : %s object, .data = %d bytes %s the whole '
              'inventory' % (type(area).__name__, len(data),
                             '==' if data == IMAGE else '!='))
        for k in ('type', 'part_number', 'serial_number'):
            if hasattr(area, k):
                print('             %s = %s' % (k, getattr(area, k)))
        print('   VIOLATION: an area the device does not store was '
              'returned')
        violations += 1
    else:
        print('   got     : None')
    reads = [l for l in dev.log if l[0] == 'read']
    nbytes = sum(l[3] for l in reads)
    print('   device saw %d Read FRU Data requests for %d bytes '
          '(the inventory is %d bytes, the header 8)'
          % (len(reads), nbytes, len(IMAGE)))
    if nbytes > 8:
        print('   VIOLATION: count=5 header reads were turned into whole-'
              'inventory reads')
        violations += 1


probe('2. get_fru_chassis_area')
probe('3. get_fru_multirecord_area')

print('\n%d violation(s)' % violations)
sys.exit(1 if violations else 0)
