"""C17 finding 1: cube-root linearisation (0Bh) raises ValueError for every
negative argument, although L[y] = y^(1/3) is defined for all real y.

Run:  cd /tmp/hunt_c17 && /venv/bin/python -B _hunt/finding_1/demo.py
Exit status 1 = property violated, 0 = property holds.
"""
import math
import os
import sys

sys.path.insert(0, os.getcwd())

from pyipmi.sdr import SdrCommon, SdrFullSensorRecord  # noqa: E402


def full_sensor_record(fmt, lin, m, b, k1, k2, name=b'CBRT'):
    """Type 01h Full Sensor Record, laid out by hand from IPMI v2.0 table 43-1
    (byte numbers in the comments are the 1-based numbers of the table)."""
    M = m & 0x3ff
    B = b & 0x3ff
    body = [
        0x20, 0x00, 0x01,        # 6-8   owner id, owner lun, sensor number
        0x03, 0x01,              # 9-10  entity id, entity instance
        0x7f, 0x68,              # 11-12 initialisation, capabilities
        0x01, 0x01,              # 13-14 sensor type (temperature), threshold
        0, 0, 0, 0, 0, 0,        # 15-20 masks
        (fmt << 6) & 0xc0,       # 21    units 1: [7:6] analog data format
        0x01, 0x00,              # 22-23 base unit, modifier unit
        lin & 0x7f,              # 24    linearisation
        M & 0xff,                # 25    M ls 8 bits
        ((M >> 8) & 3) << 6,     # 26    [7:6] M ms 2 bits, [5:0] tolerance
        B & 0xff,                # 27    B ls 8 bits
        ((B >> 8) & 3) << 6,     # 28    [7:6] B ms 2 bits, [5:0] accuracy
        0x00,                    # 29    accuracy, accuracy exp
        ((k2 & 0xf) << 4) | (k1 & 0xf),  # 30 [7:4] R exp (K2), [3:0] B exp (K1)
        0x00,                    # 31    analog characteristic flags
        0, 0, 0, 0, 0,           # 32-36 nominal, normal max/min, sensor max/min
        0, 0, 0, 0, 0, 0,        # 37-42 thresholds
        0, 0,                    # 43-44 hysteresis
        0, 0,                    # 45-46 reserved
        0,                       # 47    OEM
        0xc0 | len(name),        # 48    id string type/length
    ] + list(name)
    return [0x01, 0x00, 0x51, 0x01, len(body)] + body


def signed(x, fmt):
    if fmt == 0:
        return x
    if fmt == 1:
        return x if x < 0x80 else -(0xff - x)
    return x if x < 0x80 else x - 0x100


def real_cbrt(y):
    return math.copysign(abs(y) ** (1.0 / 3), y)


L_CUBERT = 0x0b
violations = 0

print('--- concrete cases ---')
cases = [
    # fmt, m, b, k1, k2, raw, expected
    (2, 1, 0, 0, 0, 0xf8, -2.0),     # 2's complement raw F8h = -8 -> cbrt = -2
    (1, 1, 0, 0, 0, 0xf7, -2.0),     # 1's complement raw F7h = -8 -> -2
    (0, -1, 0, 0, 0, 27, -3.0),      # unsigned, M = -1: y = -27 -> -3
    (0, 1, -64, 0, 0, 0, -4.0),      # unsigned, B = -64, raw 0: y = -64 -> -4
    (2, 1, 0, 0, 3, 0xff, -10.0),    # raw -1, K2 = 3: y = -1000 -> -10
]
for fmt, m, b, k1, k2, raw, expected in cases:
    sdr = SdrCommon.from_data(full_sensor_record(fmt, L_CUBERT, m, b, k1, k2))
    assert isinstance(sdr, SdrFullSensorRecord)
    assert (sdr.analog_data_format, sdr.linearization, sdr.m, sdr.b,
            sdr.k1, sdr.k2) == (fmt, L_CUBERT, m, b, k1, k2)
    try:
        got = sdr.convert_sensor_raw_to_value(raw)
    except Exception as e:  # noqa
        got = e
    ok = (not isinstance(got, Exception)) and abs(got - expected) < 1e-9
    if not ok:
        violations += 1
    print('fmt=%d M=%d B=%d K1=%d K2=%d raw=0x%02x: expected %r, got %r  %s'
          % (fmt, m, b, k1, k2, raw, expected, got, 'ok' if ok else 'VIOLATION'))

print('--- sweep: all 256 raws x 3 formats, M in {1,-1,511,-512}, '
      'B in {0,100,-100}, K1=K2=0, linearisation 0Bh ---')
total = bad = 0
first = None
for fmt in (0, 1, 2):
    for m in (1, -1, 511, -512):
        for b in (0, 100, -100):
            sdr = SdrCommon.from_data(
                full_sensor_record(fmt, L_CUBERT, m, b, 0, 0))
            for raw in range(256):
                y = m * signed(raw, fmt) + b
                expected = real_cbrt(y) if y else 0.0
                total += 1
                try:
                    got = sdr.convert_sensor_raw_to_value(raw)
                    good = abs(got - expected) <= 1e-9 * max(1, abs(expected))
                except Exception as e:  # noqa
                    got = e
                    good = False
                if not good:
                    bad += 1
                    if first is None:
                        first = (fmt, m, b, raw, y, expected, got)
print('%d of %d conversions wrong' % (bad, total))
if first:
    print('first: fmt=%d M=%d B=%d raw=0x%02x  y=%d  expected %r got %r' % first)
    violations += bad

if violations:
    print('RESULT: property C17 VIOLATED (cube-root linearisation, negative argument)')
    sys.exit(1)
print('RESULT: property C17 holds for the cube-root linearisation')
sys.exit(0)
