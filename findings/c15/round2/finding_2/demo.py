#!/usr/bin/env python
"""C15 finding 2: an info area may run into the area that follows it.

A well-formed image (built below by an independent encoder straight from the
Platform Management FRU Information Storage Definition v1.0) has a 16 byte
board info area at offset 8 directly followed by a 16 byte product info area
at offset 24.  ONE byte covered by the board area checksum -- the board area
length byte -- is altered from 02h to 03h.  The 24 bytes the board area now
claims are its own 16 (which summed to 0 and now sum to 1) plus the first 8
bytes of the product area (which sum to FFh), so the zero-sum checksum over
the claimed area holds; but the board area now overlaps the product area that
the common header places at offset 24.

expected: the altered image is rejected (DecodingError) from bytes, array,
          file and device
got:      accepted from all four sources
"""
import array
import os
import sys
import tempfile

sys.path.insert(0, os.getcwd())

import pyipmi                                             # noqa: E402
from pyipmi.errors import DecodingError                   # noqa: E402
from pyipmi.fru import FruInventory, get_fru_inventory_from_file  # noqa: E402
from pyipmi.msgs import (create_message, decode_message,  # noqa: E402
                         encode_message)


# ---------------------------------------------------------------- encoder
def text_field(s):
    """type/length byte 11b (8-bit ASCII + Latin 1) + data, spec ch. 13"""
    b = s.encode('latin-1')
    assert len(b) != 1 and len(b) < 64
    return bytes([0xc0 | len(b)]) + b


def close_area(b):
    """C1h end marker, 00h padding, length/8 in byte 1, zero checksum"""
    b = bytearray(b)
    b.append(0xc1)
    while (len(b) + 1) % 8:
        b.append(0x00)
    b[1] = (len(b) + 1) // 8
    b.append(-sum(b) & 0xff)
    return bytes(b)


def board_area(lang, minutes, fields):
    """spec ch. 11"""
    b = bytes([0x01, 0x00, lang,
               minutes & 0xff, minutes >> 8 & 0xff, minutes >> 16 & 0xff])
    return close_area(b + b''.join(text_field(f) for f in fields))


def product_area(lang, fields):
    """spec ch. 12"""
    b = bytes([0x01, 0x00, lang])
    return close_area(b + b''.join(text_field(f) for f in fields))


def image(board, product):
    """spec ch. 8: common header, board area, product area"""
    h = bytearray([0x01, 0, 0, 1, (8 + len(board)) // 8, 0, 0, 0])
    h[7] = -sum(h) & 0xff
    return bytes(h) + board + product


board = board_area(0, 12623040, ['AB', '', '', '', ''])
# a product name whose first characters make the first 8 bytes of the product
# area sum to FFh
for c in range(0x20, 0x7f):
    product = product_area(0, ['ACM' + chr(c), 'X1', '', '', '', '', ''])
    if sum(product[:8]) % 256 == 0xff:
        break
else:
    raise SystemExit('no suitable name')
good = image(board, product)
assert len(board) == 16 and len(product) == 24 and good[9] == 2
assert sum(good[:8]) % 256 == 0 and sum(board) % 256 == 0
assert sum(product) % 256 == 0
POS, OLD, NEW = 9, 0x02, 0x03
altered = good[:POS] + bytes([NEW]) + good[POS + 1:]


# ------------------------------------------------- reference FRU device
class Device(object):
    """IPMI v2.0 34.1 Get FRU Inventory Area Info, 34.2 Read FRU Data"""

    def __init__(self, img):
        self.img = img

    def send_and_receive(self, req):
        tx = bytes(encode_message(req))
        if req.cmdid == 0x10:
            rx = bytes([0, len(self.img) & 0xff, len(self.img) >> 8, 0])
        else:
            assert req.cmdid == 0x11
            off, cnt = tx[1] | tx[2] << 8, tx[3]
            if cnt == 0 or off + cnt > len(self.img):
                rx = bytes([0xc9])
            else:
                rx = bytes([0, cnt]) + self.img[off:off + cnt]
        rsp = create_message(req.netfn + 1, req.cmdid, req.group_extension)
        decode_message(rsp, rx)
        return rsp


def from_file(img):
    fd, path = tempfile.mkstemp()
    os.write(fd, img)
    os.close(fd)
    try:
        return get_fru_inventory_from_file(path)
    finally:
        os.unlink(path)


def from_device(img):
    ipmi = pyipmi.Ipmi(interface=Device(img), target=pyipmi.Target(0x20))
    return ipmi.get_fru_inventory()


SOURCES = [('FruInventory(bytes)', FruInventory),
           ('FruInventory(array)', lambda i: FruInventory(array.array('B', i))),
           ('get_fru_inventory_from_file', from_file),
           ('Ipmi.get_fru_inventory (reference device)', from_device)]

print('well-formed image :', good.hex())
print('  board area   @ 8:', board.hex(), '(length byte %02xh)' % OLD)
print('  product area @24:', product.hex())
for name, parse in SOURCES:
    inv = parse(good)
    assert inv.board_info_area.manufacturer.string == 'AB'
    assert inv.board_info_area.length == 16
    assert inv.product_info_area.manufacturer.string == 'ACM' + chr(c)
    assert inv.product_info_area.name.string == 'X1'
print('  parses from all four sources')
print()
print('altered image     :', altered.hex())
print('  byte %d (board area length, covered by the board area checksum) '
      '%02xh -> %02xh' % (POS, OLD, NEW))
print('  board area now claims image offsets 8..31, sum mod 256 =',
      sum(altered[8:32]) % 256)
print('  the common header places the product area at offset %d'
      % (altered[4] * 8))
print()

violated = False
for name, parse in SOURCES:
    try:
        inv = parse(altered)
    except DecodingError as e:
        print('%-45s expected DecodingError, got DecodingError(%s)' % (name, e))
    except Exception as e:
        violated = True
        print('%-45s expected DecodingError, got %s: %s'
              % (name, type(e).__name__, e))
    else:
        violated = True
        print('%-45s expected DecodingError, got ACCEPTED: board area length '
              '%d (offsets 8..%d) and product area at offset 24'
              % (name, inv.board_info_area.length,
                 7 + inv.board_info_area.length))

if violated:
    print('\nPROPERTY VIOLATED: an image with an altered checksum-covered '
          'byte is accepted')
    sys.exit(1)
print('\nOK: the altered image is rejected from every source')
