#!/usr/bin/env python
"""C15 finding 1: the fields of an info area are not confined to the area.

A well-formed image (built below by an independent encoder straight from the
Platform Management FRU Information Storage Definition v1.0) has a 16 byte
board info area.  ONE byte covered by the board area checksum -- the area
length byte -- is altered from 02h to 01h.  The first 8 bytes of the area
happen to sum to zero, so the checksum over the (now 8 byte) area holds, but
every field after the first character of the manufacturer name, the C1h end
marker and the real checksum lie OUTSIDE the declared area.

expected: the altered image is rejected (DecodingError) from bytes, array,
          file and device
got:      FruInventory(bytes) / FruInventory(array) /
          get_fru_inventory_from_file accept it and return field values taken
          from bytes outside the area; Ipmi.get_fru_inventory ends with a bare
          IndexError
"""
import array
import datetime
import os
import sys
import tempfile

sys.path.insert(0, os.getcwd())

import pyipmi                                             # noqa: E402
from pyipmi.errors import DecodingError                   # noqa: E402
from pyipmi.fru import FruInventory, get_fru_inventory_from_file  # noqa: E402
from pyipmi.msgs import (create_message, decode_message,  # noqa: E402
                         encode_message)


# ---------------------------------------------------------------- encoder
def text_field(s):
    """type/length byte 11b (8-bit ASCII + Latin 1) + data, spec ch. 13"""
    b = s.encode('latin-1')
    assert len(b) != 1 and len(b) < 64
    return bytes([0xc0 | len(b)]) + b


def board_area(lang, minutes, fields):
    """spec ch. 11: version, length/8, language, mfg date (LSB first),
    5 fields, C1h, 00h padding, zero checksum"""
    b = bytearray([0x01, 0x00, lang,
                   minutes & 0xff, minutes >> 8 & 0xff, minutes >> 16 & 0xff])
    for f in fields:
        b += text_field(f)
    b.append(0xc1)
    while (len(b) + 1) % 8:
        b.append(0x00)
    b[1] = (len(b) + 1) // 8
    b.append(-sum(b) & 0xff)
    return bytes(b)


def image(board):
    """spec ch. 8: common header; only a board area, at offset 8"""
    h = bytearray([0x01, 0, 0, 1, 0, 0, 0])
    h.append(-sum(h) & 0xff)
    return bytes(h) + board


# a manufacturing date whose three bytes make the first 8 bytes of the area,
# taken with length byte 01h, sum to zero (the first such minute in 2020)
fields = ['AB', '', '', '', '']
minutes = int((datetime.datetime(2020, 1, 1)
               - datetime.datetime(1996, 1, 1)).total_seconds()) // 60
while True:
    good = image(board_area(0, minutes, fields))
    if (sum(good[8:16]) - 1) % 256 == 0:
        break
    minutes += 1
mfg_date = datetime.datetime(1996, 1, 1) + datetime.timedelta(minutes=minutes)

assert len(good) == 24 and good[9] == 2
assert sum(good[:8]) % 256 == 0 and sum(good[8:24]) % 256 == 0
POS, OLD, NEW = 9, 0x02, 0x01
altered = good[:POS] + bytes([NEW]) + good[POS + 1:]


# ------------------------------------------------- reference FRU device
class Device(object):
    """IPMI v2.0 34.1 Get FRU Inventory Area Info, 34.2 Read FRU Data"""

    def __init__(self, img):
        self.img = img

    def send_and_receive(self, req):
        tx = bytes(encode_message(req))
        if req.cmdid == 0x10:
            rx = bytes([0, len(self.img) & 0xff, len(self.img) >> 8, 0])
        else:
            assert req.cmdid == 0x11
            off, cnt = tx[1] | tx[2] << 8, tx[3]
            if cnt == 0 or off + cnt > len(self.img):
                rx = bytes([0xc9])
            else:
                rx = bytes([0, cnt]) + self.img[off:off + cnt]
        rsp = create_message(req.netfn + 1, req.cmdid, req.group_extension)
        decode_message(rsp, rx)
        return rsp


def from_file(img):
    fd, path = tempfile.mkstemp()
    os.write(fd, img)
    os.close(fd)
    try:
        return get_fru_inventory_from_file(path)
    finally:
        os.unlink(path)


def from_device(img):
    ipmi = pyipmi.Ipmi(interface=Device(img), target=pyipmi.Target(0x20))
    return ipmi.get_fru_inventory()


SOURCES = [('FruInventory(bytes)', FruInventory),
           ('FruInventory(array)', lambda i: FruInventory(array.array('B', i))),
           ('get_fru_inventory_from_file', from_file),
           ('Ipmi.get_fru_inventory (reference device)', from_device)]

print('well-formed image :', good.hex())
print('  board area      :', good[8:].hex(), '(length byte %02xh = 16 bytes)' % OLD)
for name, parse in SOURCES:
    b = parse(good).board_info_area
    assert b.manufacturer.string == 'AB' and b.mfg_date == mfg_date
    assert [b.product_name.string, b.serial_number.string,
            b.part_number.string, b.fru_file_id.string] == [''] * 4
    assert b.custom_mfg_info == []
print('  parses from all four sources: manufacturer "AB", mfg date', mfg_date)
print()
print('altered image     :', altered.hex())
print('  byte %d (board area length, covered by the board area checksum) '
      '%02xh -> %02xh' % (POS, OLD, NEW))
print('  declared area   :', altered[8:16].hex(), ' sum mod 256 =',
      sum(altered[8:16]) % 256)
print('  outside the area:', altered[16:].hex(),
      ' (rest of manufacturer, 4 fields, C1h, pad, old checksum)')
print()

violated = False
for name, parse in SOURCES:
    try:
        b = parse(altered).board_info_area
    except DecodingError as e:
        print('%-45s expected DecodingError, got DecodingError(%s)' % (name, e))
    except Exception as e:
        violated = True
        print('%-45s expected DecodingError, got %s: %s'
              % (name, type(e).__name__, e))
    else:
        violated = True
        print('%-45s expected DecodingError, got ACCEPTED: area length %d, '
              'manufacturer %r (raw %s), %d more fields and the end marker '
              'read at area offsets 8..13'
              % (name, b.length, b.manufacturer.string,
                 bytes(bytearray(b.manufacturer.raw)).hex(), 4))

if violated:
    print('\nPROPERTY VIOLATED: an image with an altered checksum-covered '
          'byte is accepted')
    sys.exit(1)
print('\nOK: the altered image is rejected from every source')
