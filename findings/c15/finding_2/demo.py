"""C15 finding 2: OEM multi-records of type 0xC0 are decoded as PICMG records
without looking at the record's own length or manufacturer ID.

FruDataMultiRecord.create_from_record_id dispatches on the record type ID
alone and FruPicmgRecord._from_data tests len(<rest of the image>) < 10
instead of the record's length byte; the PICMG fields are then taken from
data[5..11] of the REST OF THE IMAGE.  Consequences shown below:

 A  a well-formed image whose last record is an OEM record of type 0xC0 with
    a 3..4 byte body (manufacturer ID + 0..1 data bytes) is parsed from
    bytes/file (thanks to the padding after the area) but REJECTED when the
    very same image is read from a device;
 B  the same record in front of another record is given a
    picmg_record_type_id / format_version that are bytes of the NEXT record's
    header;
 C  an OEM record of another manufacturer (IANA 343, not PICMG 12634) whose
    4th body byte happens to be 0x27 is returned as a
    FruPicmgPowerModuleCapabilityRecord with a maximum_current_output that was
    never encoded -- or the image is rejected if the record is the last one.

Images are built by hand from the FRU Information Storage Definition
v1.0 r1.3, section 16 (MultiRecord area) and 18.7 (OEM record).
"""
import array
import os
import sys

HERE = os.path.dirname(os.path.abspath(__file__))
sys.path.insert(0, os.path.dirname(os.path.dirname(HERE)))

import pyipmi  # noqa: E402
from pyipmi.fru import (FruInventory, FruDataUnknown,  # noqa: E402
                        FruPicmgPowerModuleCapabilityRecord)
from pyipmi.msgs import encode_message, decode_message, create_message  # noqa


def cks(bs):
    return (-sum(bs)) & 0xff


def record(type_id, body, last):
    h = bytes([type_id, (0x80 if last else 0x00) | 0x02, len(body), cks(body)])
    return h + bytes([cks(h)]) + bytes(body)


def image(records):
    area = b''.join(record(t, b, i == len(records) - 1)
                    for i, (t, b) in enumerate(records))
    area += bytes((-len(area)) % 8)          # images are multiples of 8 bytes
    hdr = bytes([0x01, 0, 0, 0, 0, 1, 0])
    return hdr + bytes([cks(hdr)]) + area


class Device(object):
    def __init__(self, img):
        self.img = img

    def send_and_receive(self, req):
        raw = bytes(encode_message(req))
        if (req.netfn, req.cmdid) == (0x0a, 0x10):
            out = bytes([0, len(self.img) & 0xff, len(self.img) >> 8, 0])
        elif (req.netfn, req.cmdid) == (0x0a, 0x11):
            off, cnt = raw[1] | raw[2] << 8, raw[3]
            if off + cnt > len(self.img):
                out = b'\xc9'
            else:
                out = bytes([0, cnt]) + self.img[off:off + cnt]
        else:
            out = b'\xc1'
        rsp = create_message(req.netfn + 1, req.cmdid, None)
        decode_message(rsp, out)
        return rsp


def parse(img, how):
    if how == 'bytes':
        return FruInventory(img)
    if how == 'array':
        return FruInventory(array.array('B', img))
    ipmi = pyipmi.create_connection(Device(img))
    ipmi.target = pyipmi.Target(0x20)
    return ipmi.get_fru_inventory()


def describe(rec):
    d = {'class': type(rec).__name__, 'type': rec.record_type_id,
         'raw': bytes(bytearray(rec.raw)).hex()}
    for k in ('picmg_record_type_id', 'maximum_current_output'):
        if hasattr(rec, k):
            d[k] = getattr(rec, k)
    return d


violations = 0
INTEL = bytes([0x57, 0x01, 0x00])            # IANA 343, LS byte first

# ---------------------------------------------------------------- case A
recs = [(0x02, bytes(range(13))), (0xc0, INTEL + b'\xaa')]
img = image(recs)
print('A: image %s' % img.hex())
print('   last record: OEM type 0xC0, manufacturer 343, 1 data byte')
for how in ('bytes', 'array', 'device'):
    try:
        f = parse(img, how)
        got = [(r.record_type_id, bytes(bytearray(r.raw)))
               for r in f.multirecord_area.records]
        ok = got == [(t, b) for t, b in recs]
        print('   %-6s expected: 2 records   got: %d records, equal=%s'
              % (how, len(got), ok))
        violations += not ok
    except Exception as e:
        print('   %-6s expected: 2 records   got: %r' % (how, e))
        violations += 1

# ---------------------------------------------------------------- case B
recs = [(0xc0, INTEL), (0x02, bytes(range(0x27, 0x27 + 13)))]
img = image(recs)
f = parse(img, 'bytes')
r0 = f.multirecord_area.records[0]
print('B: first record OEM 0xC0 with body %s (manufacturer ID only)'
      % INTEL.hex())
print('   expected: no field taken from outside the 3 body bytes')
got = (getattr(r0, 'picmg_record_type_id', None), r0.format_version)
print('   got: picmg_record_type_id=%r format_version=%r (bytes 0 and 1 of '
      'the NEXT record header are %r, %r)' % (got + (img[16], img[17])))
if got == (img[16], img[17]):
    violations += 1

# ---------------------------------------------------------------- case C
body = INTEL + bytes([0x27, 0x00, 0x10, 0x20])
recs = [(0xc0, body), (0x01, bytes(13))]
for how in ('bytes', 'device'):
    f = parse(image(recs), how)
    r0 = f.multirecord_area.records[0]
    print('C: %-6s OEM 0xC0 record of manufacturer 343, body %s'
          % (how, body.hex()))
    print('   expected: an undecoded OEM record (manufacturer is not PICMG '
          '12634)   got: %s' % describe(r0))
    if isinstance(r0, FruPicmgPowerModuleCapabilityRecord):
        violations += 1
# the same kind of record, 5 bytes long, as the last record of the image
recs = [(0x01, bytes(13)), (0xc0, INTEL + bytes([0x27, 0x00]))]
for how in ('bytes', 'device'):
    try:
        f = parse(image(recs), how)
        r1 = f.multirecord_area.records[1]
        print('C2: %-6s expected: an undecoded OEM record   got: %s'
              % (how, describe(r1)))
        if isinstance(r1, FruPicmgPowerModuleCapabilityRecord):
            violations += 1
    except Exception as e:
        print('C2: %-6s expected: 2 records   got: %r' % (how, e))
        violations += 1

if violations:
    print('PROPERTY VIOLATED: %d deviations' % violations)
    sys.exit(1)
print('ok')
sys.exit(0)
