"""C15 finding 1: an info area whose length byte was altered to 0 is accepted.

The area length byte (offset 1 of every chassis/board/product info area) is
covered by the area's zero-sum checksum.  Altering it to 0 makes
CommonInfoArea._from_data sum an EMPTY slice (sum == 0), so the checksum test
passes for every image; from a device the area is not even looked at
(_read_fru_area reads 0 bytes and the area class skips parsing empty data).

The image below is built by hand from the Platform Management FRU Information
Storage Definition v1.0 r1.3 (no pyipmi helper is used to build it).
"""
import array
import os
import sys

HERE = os.path.dirname(os.path.abspath(__file__))
sys.path.insert(0, os.path.dirname(os.path.dirname(HERE)))

import pyipmi  # noqa: E402
from pyipmi.fru import FruInventory  # noqa: E402
from pyipmi.errors import DecodingError  # noqa: E402
from pyipmi.msgs import encode_message, decode_message, create_message  # noqa


def cks(bs):
    return (-sum(bs)) & 0xff


def close_area(a):
    a = bytes(a)
    a += bytes((-(len(a) + 1)) % 8)
    a = a[:1] + bytes([(len(a) + 1) // 8]) + a[2:]
    return a + bytes([cks(a)])


# board info area: version 1, length (filled in), language 0 (English),
# mfg date 0x123456 minutes, 8-bit text fields, one custom field, C1
board = close_area(b'\x01\x00\x00\x56\x34\x12'
                   + b'\xc4ACME' + b'\xc5BOARD' + b'\xc4SN01' + b'\xc4PN02'
                   + b'\xc0' + b'\xc3XYZ' + b'\xc1')
# product info area
product = close_area(b'\x01\x00\x00'
                     + b'\xc4ACME' + b'\xc4PROD' + b'\xc2P1' + b'\xc2V1'
                     + b'\xc2S1' + b'\xc2A1' + b'\xc0' + b'\xc1')
hdr = bytes([0x01, 0x00, 0x00, 1, 1 + len(board) // 8, 0x00, 0x00])
hdr += bytes([cks(hdr)])
image = hdr + board + product
assert len(board) % 8 == 0 and sum(board) % 256 == 0
assert sum(product) % 256 == 0 and sum(hdr) % 256 == 0


class Device(object):
    """reference device: Get FRU Inventory Area Info / Read FRU Data"""

    def __init__(self, img):
        self.img = img

    def send_and_receive(self, req):
        raw = bytes(encode_message(req))
        if (req.netfn, req.cmdid) == (0x0a, 0x10):
            out = bytes([0, len(self.img) & 0xff, len(self.img) >> 8, 0])
        elif (req.netfn, req.cmdid) == (0x0a, 0x11):
            off, cnt = raw[1] | raw[2] << 8, raw[3]
            if off + cnt > len(self.img):
                out = b'\xc9'
            else:
                out = bytes([0, cnt]) + self.img[off:off + cnt]
        else:
            out = b'\xc1'
        rsp = create_message(req.netfn + 1, req.cmdid, None)
        decode_message(rsp, out)
        return rsp


def parse(img, how):
    if how == 'bytes':
        return FruInventory(img)
    if how == 'array':
        return FruInventory(array.array('B', img))
    ipmi = pyipmi.create_connection(Device(img))
    ipmi.target = pyipmi.Target(0x20)
    return ipmi.get_fru_inventory()


violations = 0

# sanity: the unaltered image is parsed correctly on every path
for how in ('bytes', 'array', 'device'):
    f = parse(image, how)
    assert f.board_info_area.manufacturer.string == 'ACME'
    assert f.product_info_area.name.string == 'PROD'

# sanity: every other single-byte alteration of the board area IS rejected
for pos in range(8, 8 + len(board)):
    if pos == 9:
        continue
    alt = image[:pos] + bytes([image[pos] ^ 0x01]) + image[pos + 1:]
    try:
        parse(alt, 'bytes')
        raise SystemExit('unexpected: alteration at %d accepted' % pos)
    except DecodingError:
        pass

for name, pos in (('board', 8 + 1), ('product', 8 + len(board) + 1)):
    altered = image[:pos] + b'\x00' + image[pos + 1:]
    print('%s area length byte (image offset %d) altered 0x%02x -> 0x00'
          % (name, pos, image[pos]))
    print('  covered by the area checksum: sum(area) %% 256 = %d (was 0)'
          % (sum(altered[pos - 1:pos - 1 + image[pos] * 8]) % 256))
    for how in ('bytes', 'array', 'device'):
        try:
            f = parse(altered, how)
            area = getattr(f, name + '_info_area')
            print('  %-6s expected: DecodingError   got: ACCEPTED, %s area '
                  'attributes = %s'
                  % (how, name, sorted(k for k in vars(area)
                                       if k not in ('data',))[:4]))
            violations += 1
        except DecodingError as e:
            print('  %-6s rejected (%s)' % (how, e))

if violations:
    print('PROPERTY VIOLATED: %d altered images accepted' % violations)
    sys.exit(1)
print('ok: all altered images rejected')
sys.exit(0)
