#!/usr/bin/env python
"""C08 finding 2: over the native RMCP interface the answer 0x80 ("command in
progress") to an HPM.1 request makes every *_and_wait operation fail with
IndexError instead of completing or raising an error that carries the code.

Run:  cd /tmp/hunt_c08 && /venv/bin/python -B _hunt/finding_2/demo.py

Only the UDP socket is replaced (pyipmi.interfaces.rmcp.Rmcp._sock); RMCP,
IPMI session and IPMB framing, Ipmi.send_message, the HPM code and the message
decoder are the real library code.  The frames of the fake BMC are built by
hand from the IPMI v1.5 LAN message format (RMCP header 06 00 ff 07, session
header auth=none, IPMB-style response with the two checksums).

HPM.1 "Get upgrade status" has command number 0x34 in the PICMG group
extension (NetFn 0x2c/0x2d).  Rmcp._send_and_receive and
ipmb.decode_bridged_message take every received frame whose command byte is
0x34 for the answer to the IPMI "Send Message" command (NetFn App 0x06/0x07,
cmd 0x34) and strip it as a bridging wrapper.  What remains of an OK answer is
3..4 bytes, and rx_filter then indexes beyond them.
"""
import sys
sys.path.insert(0, '/tmp/hunt_c08')

import pyipmi
from pyipmi.interfaces.rmcp import Rmcp
from pyipmi.errors import CompletionCodeError, HpmError, RetryError

NETFN_GROUP_EXT = 0x2c
PICMG_ID = 0x00
CMD_INITIATE_UPGRADE_ACTION = 0x31
CMD_GET_UPGRADE_STATUS = 0x34


def checksum(data):
    return (-sum(data)) & 0xff


class FakeUdpSocket(object):
    """A BMC on the other end of the UDP socket (IPMI v1.5, no auth)."""

    def __init__(self, bmc):
        self.bmc = bmc
        self.rx = []

    def settimeout(self, timeout):
        pass

    def sendto(self, pdu, addr):
        pdu = bytearray(pdu)
        # RMCP header: version 6, reserved, sequence, class 7 (IPMI)
        assert pdu[0] == 0x06 and pdu[3] == 0x07
        # session header: auth type(1) sequence(4) session id(4) length(1)
        assert pdu[4] == 0x00
        length = pdu[13]
        msg = pdu[14:14 + length]
        rs_sa, netfn_lun, _, rq_sa, seq_lun, cmd = msg[:6]
        data = bytes(msg[6:-1])
        body = self.bmc(netfn_lun >> 2, cmd, data)
        head = bytearray([rq_sa, (((netfn_lun >> 2) | 1) << 2) | (seq_lun & 3)])
        head.append(checksum(head))
        tail = bytearray([rs_sa, (seq_lun & 0xfc) | (netfn_lun & 3), cmd])
        tail += body
        tail.append(checksum(tail))
        ipmi_msg = bytes(head + tail)
        self.rx.append(bytes([0x06, 0x00, 0xff, 0x07,
                              0x00, 0, 0, 0, 0, 0, 0, 0, 0,
                              len(ipmi_msg)]) + ipmi_msg)

    def recvfrom(self, size):
        return (self.rx.pop(0), ('bmc', 623))


class Bmc(object):
    def __init__(self, initiate_cc, status_cc=0x00):
        self.initiate_cc = initiate_cc
        self.status_cc = status_cc
        self.log = []

    def __call__(self, netfn, cmd, data):
        if netfn == NETFN_GROUP_EXT and cmd == CMD_INITIATE_UPGRADE_ACTION:
            rsp = bytes([self.initiate_cc, PICMG_ID])
        elif netfn == NETFN_GROUP_EXT and cmd == CMD_GET_UPGRADE_STATUS:
            if self.status_cc != 0:
                rsp = bytes([self.status_cc])
            else:
                # OK, PICMG id, command in progress, last completion code
                # (0x00: the long duration command has completed)
                rsp = bytes([0x00, PICMG_ID, CMD_INITIATE_UPGRADE_ACTION, 0x00])
        else:
            rsp = bytes([0xc1])
        self.log.append('netfn=0x%02x cmd=0x%02x req=[%s] -> rsp=[%s]' % (
            netfn, cmd, ' '.join('%02x' % b for b in bytearray(data)),
            ' '.join('%02x' % b for b in bytearray(rsp))))
        return rsp


def connect(bmc):
    interface = Rmcp()
    interface._sock = FakeUdpSocket(bmc)      # instead of Rmcp.open()
    interface.host, interface.port = 'bmc', 623
    interface._session = None                 # session-less, auth type none
    ipmi = pyipmi.create_connection(interface)
    ipmi.target = pyipmi.Target(0x20)
    return ipmi


def run(title, bmc, expect, acceptable):
    ipmi = connect(bmc)
    try:
        result = ipmi.initiate_upgrade_action_and_wait(0x01, 0x01, timeout=1,
                                                       interval=0.01)
        got = ('returned', result)
        text = 'returned %r' % (result,)
    except Exception as e:      # noqa: we want to see *what* is raised
        got = ('raised', type(e).__name__)
        text = 'raised %s: %s' % (type(e).__name__, e)
    ok = acceptable(got)
    print('---', title)
    for line in bmc.log:
        print('     BMC:', line)
    print('   expected:', expect)
    print('   got     :', text)
    print('   =>', 'ok' if ok else 'PROPERTY VIOLATED')
    return 0 if ok else 1


violations = 0

violations += run(
    'control: Initiate upgrade action answered 0x00',
    Bmc(initiate_cc=0x00),
    'returns None',
    lambda got: got == ('returned', None))

violations += run(
    'control: 0x80, then Get upgrade status answered with cc 0xc1',
    Bmc(initiate_cc=0x80, status_cc=0xc1),
    'CompletionCodeError cc=0xc1 (or HpmError)',
    lambda got: got in (('raised', 'CompletionCodeError'),
                        ('raised', 'HpmError')))

violations += run(
    'fault: Initiate upgrade action answered 0x80, the command then completes '
    '(Get upgrade status: OK, last completion code 0x00)',
    Bmc(initiate_cc=0x80),
    'returns None (the documented long-duration polling), or HpmError / '
    'CompletionCodeError / RetryError',
    lambda got: got == ('returned', None) or got in (
        ('raised', 'CompletionCodeError'), ('raised', 'HpmError'),
        ('raised', 'RetryError')))

print()
if violations:
    print('completion code 0x80 at request 1 of '
          'initiate_upgrade_action_and_wait ends in an unrelated Python error')
    sys.exit(1)
print('no violation')
sys.exit(0)
