#!/usr/bin/env python
"""C08 finding 3 (borderline scope): after open() has failed with the BMC's
completion code, close() fails with AttributeError, which replaces the
CompletionCodeError in the usual try/finally (the library's own command line
tool pyipmi/ipmitool.py main() is written that way).

Run:  cd /tmp/hunt_c08 && /venv/bin/python -B _hunt/finding_3/demo.py

Only the UDP socket of the native RMCP interface is replaced.  The fake BMC
answers the ASF ping and then answers request k of the session set-up
(1 = Get Channel Authentication Capabilities, 2 = Get Session Challenge,
3 = Activate Session, 4 = Set Session Privilege Level) with a completion code.
"""
import struct
import sys
sys.path.insert(0, '/tmp/hunt_c08')

import pyipmi
from pyipmi.interfaces.rmcp import Rmcp
from pyipmi.errors import CompletionCodeError


def checksum(data):
    return (-sum(data)) & 0xff


class FakeUdpSocket(object):
    def __init__(self, fault_position, fault_cc):
        self.rx = []
        self.count = 0
        self.fault_position = fault_position
        self.fault_cc = fault_cc
        self.log = []

    def settimeout(self, timeout):
        pass

    def sendto(self, pdu, addr):
        pdu = bytearray(pdu)
        if pdu[3] == 0x06:
            # ASF presence ping -> pong (IANA 4542, type 0x40, tag, 16 bytes)
            self.rx.append(bytes([0x06, 0x00, pdu[2], 0x06])
                           + struct.pack('!IBBxB', 4542, 0x40, pdu[9], 16)
                           + struct.pack('!IIBB6x', 4542, 0, 0x81, 0))
            return
        offset = 13 if pdu[4] == 0 else 29      # auth code present or not
        msg = pdu[offset + 1:offset + 1 + pdu[offset]]
        rs_sa, netfn_lun, _, rq_sa, seq_lun, cmd = msg[:6]
        self.count += 1
        if self.count == self.fault_position:
            body = bytes([self.fault_cc])
        elif cmd == 0x38:   # Get Channel Authentication Capabilities
            body = bytes([0x00, 0x0e, 0x01, 0x00, 0x00, 0, 0, 0, 0])
        elif cmd == 0x39:   # Get Session Challenge
            body = bytes([0x00, 1, 2, 3, 4]) + bytes(range(16))
        elif cmd == 0x3a:   # Activate Session
            body = bytes([0x00, 0x00, 0x11, 0x22, 0x33, 0x44, 1, 0, 0, 0, 4])
        elif cmd == 0x3b:   # Set Session Privilege Level
            body = bytes([0x00, 0x04])
        elif cmd == 0x3c:   # Close Session
            body = bytes([0x00])
        else:
            body = bytes([0xc1])
        self.log.append('cmd=0x%02x -> [%s]' % (
            cmd, ' '.join('%02x' % b for b in bytearray(body))))
        netfn = netfn_lun >> 2
        head = bytearray([rq_sa, ((netfn | 1) << 2) | (seq_lun & 3)])
        head.append(checksum(head))
        tail = bytearray([rs_sa, (seq_lun & 0xfc) | (netfn_lun & 3), cmd])
        tail += body
        tail.append(checksum(tail))
        m = bytes(head + tail)
        self.rx.append(bytes([0x06, 0x00, 0xff, 0x07, 0x00,
                              0, 0, 0, 0, 0, 0, 0, 0, len(m)]) + m)

    def recvfrom(self, size):
        return (self.rx.pop(0), ('bmc', 623))


def session_with_fault(position, cc):
    interface = Rmcp(keep_alive_interval=0)
    sock = FakeUdpSocket(position, cc)
    interface.open = lambda: setattr(interface, '_sock', sock)
    ipmi = pyipmi.create_connection(interface)
    ipmi.target = pyipmi.Target(0x20)
    ipmi.session.set_session_type_rmcp('bmc', 623)
    # the pattern of pyipmi/ipmitool.py main()
    try:
        try:
            ipmi.open()
        finally:
            ipmi.close()
        outcome = 'no error'
    except CompletionCodeError as e:
        outcome = 'CompletionCodeError cc=0x%02x' % e.cc
    except Exception as e:
        outcome = '%s: %s' % (type(e).__name__, e)
    return outcome, sock.log


violations = 0
NAMES = {1: 'Get Channel Authentication Capabilities',
         2: 'Get Session Challenge', 3: 'Activate Session',
         4: 'Set Session Privilege Level'}
for position, cc in ((1, 0xc1), (1, 0xd4), (2, 0x81), (2, 0xff),
                     (3, 0x81), (4, 0x80)):
    outcome, log = session_with_fault(position, cc)
    expected = 'CompletionCodeError cc=0x%02x' % cc
    ok = outcome == expected
    print('--- open(): request %d (%s) answered with 0x%02x; then close()'
          % (position, NAMES[position], cc))
    for line in log:
        print('     BMC:', line)
    print('   expected:', expected)
    print('   got     :', outcome)
    print('   =>', 'ok' if ok else 'PROPERTY VIOLATED')
    violations += 0 if ok else 1

print()
if violations:
    print('%d case(s): the completion code was replaced by an unrelated '
          'Python error' % violations)
    sys.exit(1)
print('no violation')
sys.exit(0)
