"""C08 finding 1: a Get SDR answered with C5h (reservation cancelled) in the
middle of a record makes get_repository_sdr / get_device_sdr return a record
that never existed in the BMC.

The BMC behind the fake interface follows IPMI v2.0 33.11/33.12 (and 35.4 for
the device SDR repository): a partial Get SDR (offset != 0) needs the current
reservation; the reservation is cancelled when the repository is modified.
While the library reads record 0001h in 20-byte pieces, the repository is
updated (record 0001h is replaced by another record of the same length) --
exactly the event the C5h completion code reports.

Run:  cd /tmp/hunt2_c08 && /venv/bin/python -B _hunt/finding_1/demo.py
"""
import os
import sys
import time
from array import array

sys.path.insert(0, os.path.dirname(os.path.dirname(os.path.dirname(
    os.path.abspath(__file__)))))

import pyipmi                                                    # noqa: E402
from pyipmi.msgs import create_message, decode_message, encode_message  # noqa
from pyipmi.errors import CompletionCodeError, RetryError        # noqa: E402

time_sleep = time.sleep
time.sleep = lambda s: None      # only to make the demo fast (1 s pause)


def full_sensor_record(rec_id, number, m, b_, unr, ucr, unc, name):
    """IPMI v2.0 table 43-1, Full Sensor Record (type 01h)."""
    body = [
        0x20, 0x00, number,          # owner id, owner lun, sensor number
        0x03, 0x01,                  # entity id, instance
        0x7f, 0x68,                  # sensor initialization, capabilities
        0x02, 0x01,                  # sensor type: voltage, threshold based
        0x80, 0x0a, 0x80, 0x7a, 0x38, 0x38,   # masks
        0x00, 0x04, 0x00,            # units 1..3 (Volts)
        0x00,                        # linearization
        m & 0xff, (m >> 2) & 0xc0,   # M, M/tolerance
        b_ & 0xff, (b_ >> 2) & 0xc0,  # B, B/accuracy
        0x00, 0xd0,                  # accuracy, R exp / B exp (R=-3)
        0x07,                        # analog flags
        0x80, 0x90, 0x70,            # nominal, normal max, normal min
        0xff, 0x00,                  # sensor max / min
        unr, ucr, unc,               # upper thresholds
        0x10, 0x18, 0x20,            # lower thresholds (lnr, lcr, lnc)
        0x02, 0x02,                  # hysteresis
        0x00, 0x00, 0x00,            # reserved, reserved, OEM
    ]
    ids = [ord(c) for c in name]
    body += [0xc0 | len(ids)] + ids
    return [rec_id & 0xff, rec_id >> 8, 0x51, 0x01, len(body)] + body


OLD = full_sensor_record(1, 0x11, m=0x3b, b_=0, unr=0xf4, ucr=0xe0, unc=0xd0,
                         name='A2:Vcc 12V')
NEW = full_sensor_record(1, 0x42, m=0x0d, b_=5, unr=0x66, ucr=0x60, unc=0x5a,
                         name='B7:Vbat 3V')
assert len(OLD) == len(NEW)


class Bmc(object):
    """SDR repository device; answers are raw bytes."""

    def __init__(self):
        self.record = list(OLD)
        self.reservation = 0x0100
        self.partial_reads = 0
        self.trace = []

    # --- interface API used by pyipmi.Ipmi
    def send_and_receive(self, req):
        body = array('B', encode_message(req)).tolist()
        data = self.command(req.netfn, req.cmdid, body)
        self.trace.append((req.netfn, req.cmdid, body, data))
        rsp = create_message(req.netfn + 1, req.cmdid, req.group_extension)
        decode_message(rsp, array('B', data).tobytes())
        return rsp

    def command(self, netfn, cmd, b):
        if (netfn, cmd) in ((0x0a, 0x22), (0x04, 0x22)):      # Reserve
            self.reservation += 1
            return [0x00, self.reservation & 0xff, self.reservation >> 8]
        if (netfn, cmd) in ((0x0a, 0x23), (0x04, 0x21)):      # Get SDR
            res, rid, off, cnt = b[0] | b[1] << 8, b[2] | b[3] << 8, b[4], b[5]
            if off != 0:
                self.partial_reads += 1
                if self.partial_reads == 2:
                    # the repository is updated by another party: the record
                    # is replaced, outstanding reservations are cancelled
                    self.record = list(NEW)
                    self.reservation += 0x10
                if res != self.reservation:
                    return [0xc5]
            if rid not in (0, 1):
                return [0xcb]
            if off + cnt > len(self.record):
                return [0xc9]
            return [0x00, 0xff, 0xff] + self.record[off:off + cnt]
        return [0xc1]


def main():
    bad = 0
    for name in ('get_repository_sdr', 'get_device_sdr'):
        bmc = Bmc()
        ipmi = pyipmi.create_connection(bmc)
        ipmi.target = pyipmi.Target(0x20)
        print('== %s(1)' % name)
        try:
            sdr = getattr(ipmi, name)(1)
        except (CompletionCodeError, RetryError) as e:
            print('   raised %r -> conforming' % e)
            continue
        for (nf, cmd, rq, rs) in bmc.trace:
            print('   rq netfn=%02x cmd=%02x %s  ->  %s' % (
                nf, cmd, ' '.join('%02x' % x for x in rq),
                ' '.join('%02x' % x for x in rs[:4]) +
                (' ...' if len(rs) > 4 else '')))
        got = list(sdr.data)
        print('   record in the BMC before the update: %s' % bytes(OLD).hex())
        print('   record in the BMC after the update : %s' % bytes(NEW).hex())
        print('   record returned by the library     : %s' % bytes(got).hex())
        print('   returned: sensor number 0x%02x, M=%d, unr raw=0x%02x, '
              'name %r' % (sdr.number, sdr.m, sdr.threshold['unr'],
                           sdr.device_id_string))
        if got != OLD and got != NEW:
            k = [rq[4] for (_, _, rq, rs) in bmc.trace if rs == [0xc5]][0]
            print('   EXPECTED: an error carrying C5h, or the record the BMC '
                  'holds')
            print('   GOT     : bytes 0..%d of the old record (read before '
                  'C5h) followed by bytes %d.. of the new one; no error'
                  % (k - 1, k))
            bad += 1
    time.sleep = time_sleep
    if bad:
        print('PROPERTY VIOLATED (%d operations)' % bad)
        sys.exit(1)
    print('ok')
    sys.exit(0)


main()
