#!/usr/bin/env python
"""C08 finding 1: a failed HPM.1 long-duration command is reported as success.

Run:  cd /tmp/hunt_c08 && /venv/bin/python -B _hunt/finding_1/demo.py

The BMC (a fake interface object, nothing in the library is patched) answers
the HPM.1 request of a *_and_wait operation with completion code 0x80
("command in progress").  The library then polls Get Upgrade Status
(PICMG cmd 0x34).  HPM.1 table "Get upgrade status command", response byte 4
is the *completion code of the last long-duration command*: 0x80 while it is
still running, 0x00 when it succeeded, any other value when it FAILED.

Scenario A: the polled status finally reports a failure code.
Scenario B: the polled status reports 0x80 for longer than `timeout`.

In both cases the BMC never reported success, so the operation has to raise
(HpmError / CompletionCodeError carrying the code).  It returns normally.
"""
import sys
sys.path.insert(0, '/tmp/hunt_c08')

import pyipmi
from pyipmi.msgs import create_message, decode_message, encode_message
from pyipmi.errors import CompletionCodeError, HpmError

NETFN_GROUP_EXT = 0x2c
PICMG_ID = 0x00
CMD_INITIATE_UPGRADE_ACTION = 0x31
CMD_UPLOAD_FIRMWARE_BLOCK = 0x32
CMD_FINISH_FIRMWARE_UPLOAD = 0x33
CMD_GET_UPGRADE_STATUS = 0x34
CMD_ACTIVATE_FIRMWARE = 0x35
CMD_INITIATE_MANUAL_ROLLBACK = 0x38


class FakeBmcInterface(object):
    """Stands in for pyipmi.interfaces.*: takes a request object, returns the
    response object decoded from raw response bytes (as every real interface
    does with create_message/decode_message)."""

    def __init__(self, long_cmd, status_script):
        self.long_cmd = long_cmd
        self.status_script = list(status_script)   # last entry repeats
        self.log = []

    def _raw_response(self, netfn, cmd, req_bytes):
        if netfn == NETFN_GROUP_EXT and cmd == self.long_cmd:
            # completion code 0x80 = long duration command in progress
            return bytes([0x80, PICMG_ID])
        if netfn == NETFN_GROUP_EXT and cmd == CMD_GET_UPGRADE_STATUS:
            last_cc = self.status_script[0]
            if len(self.status_script) > 1:
                self.status_script.pop(0)
            # cc=OK, PICMG id, command in progress, last completion code
            return bytes([0x00, PICMG_ID, self.long_cmd, last_cc])
        return bytes([0x00, PICMG_ID])

    def send_and_receive(self, req):
        raw = self._raw_response(req.netfn, req.cmdid, encode_message(req))
        self.log.append('%-26s -> %s' % (type(req).__name__,
                                          ' '.join('%02x' % b for b in raw)))
        rsp = create_message(req.netfn + 1, req.cmdid, req.group_extension)
        decode_message(rsp, raw)
        return rsp


def run(title, long_cmd, status_script, op, expect, success_is_correct=False):
    itf = FakeBmcInterface(long_cmd, status_script)
    ipmi = pyipmi.create_connection(itf)
    ipmi.target = pyipmi.Target(0x20)
    try:
        result = op(ipmi)
        got = 'returned %r (success)' % (result,)
        violated = not success_is_correct
    except (HpmError, CompletionCodeError) as e:
        got = 'raised %s: %s' % (type(e).__name__, e)
        violated = success_is_correct
    print('---', title)
    for line in itf.log[:6]:
        print('    ', line)
    if len(itf.log) > 6:
        print('     ... (%d exchanges in total)' % len(itf.log))
    print('   expected:', expect)
    print('   got     :', got)
    print('   =>', 'PROPERTY VIOLATED' if violated else 'ok')
    return violated


violations = 0

# Control: the long-duration command succeeds (status 0x80, then 0x00); here
# returning normally is the right answer.
violations += run(
    'control finish_upload_and_wait: 0x80, then status 0x80,0x00',
    CMD_FINISH_FIRMWARE_UPLOAD, [0x80, 0x00],
    lambda i: i.finish_upload_and_wait(0, 50, timeout=1, interval=0.01),
    'returns normally', success_is_correct=True)

# Scenario A: finish_firmware_upload is answered 0x80; the upgrade status
# says "in progress" twice and then 0x82 (HPM.1 Finish firmware upload:
# 82h = image checksum mismatch).
violations += run(
    'A1 finish_upload_and_wait: 0x80, then status 0x80,0x80,0x82',
    CMD_FINISH_FIRMWARE_UPLOAD, [0x80, 0x80, 0x82],
    lambda i: i.finish_upload_and_wait(0, 50, timeout=1, interval=0.01),
    'HpmError/CompletionCodeError carrying 0x82')

# the same for the other *_and_wait operations
violations += run(
    'A2 initiate_upgrade_action_and_wait: 0x80, then status 0xff',
    CMD_INITIATE_UPGRADE_ACTION, [0x80, 0xff],
    lambda i: i.initiate_upgrade_action_and_wait(0x01, 0x01, timeout=1,
                                                 interval=0.01),
    'HpmError/CompletionCodeError carrying 0xff')

violations += run(
    'A3 upload_binary: block answered 0x80, then status 0xd5',
    CMD_UPLOAD_FIRMWARE_BLOCK, [0x80, 0xd5],
    lambda i: i.upload_binary(bytes(range(20)), timeout=1, interval=0.01),
    'HpmError/CompletionCodeError carrying 0xd5')

violations += run(
    'A4 activate_firmware_and_wait: 0x80, then status 0x81',
    CMD_ACTIVATE_FIRMWARE, [0x80, 0x81],
    lambda i: i.activate_firmware_and_wait(timeout=1, interval=0.01),
    'HpmError/CompletionCodeError carrying 0x81')

# Scenario B: the command never completes within the time-out.
violations += run(
    'B  finish_upload_and_wait: 0x80, status stays 0x80 beyond the time-out',
    CMD_FINISH_FIRMWARE_UPLOAD, [0x80],
    lambda i: i.finish_upload_and_wait(0, 50, timeout=0.2, interval=0.01),
    'an error (the command is still in progress, cc 0x80)')

print()
if violations:
    print('%d scenario(s): an error reported by the BMC was taken for success'
          % violations)
    sys.exit(1)
print('no violation')
sys.exit(0)
