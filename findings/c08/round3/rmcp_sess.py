import sys, time, threading
sys.path.insert(0, '/tmp/h3_C08/_hunt')
from rmcp_test import Bmc, attempt
from rmcp_sim import *

print('--- session establishment faults')
for cmd in (0x38, 0x39, 0x3a, 0x3b):
    for cc in (0x81, 0xc0, 0xd4, 0xff):
        b = Bmc(); b.fault[(6, cmd, 0)] = cc
        ipmi, intf, sock = connect(b.handler, establish=False)
        r = attempt(ipmi.open)
        r2 = attempt(lambda: ipmi.get_device_id().device_id)
        r3 = attempt(ipmi.close)
        r4 = attempt(ipmi.open)
        r5 = attempt(lambda: ipmi.get_device_id().device_id)
        print('cmd %02x cc %02x open->' % (cmd, cc), r[:3], '| getdevid', r2[:3], '| close', r3[:3], '| reopen', r4[:2], r5[:2])

print('--- close session fault')
for cc in (0x87, 0xc0, 0xff):
    b = Bmc(); b.fault[(6, 0x3c, 0)] = cc
    ipmi, intf, sock = connect(b.handler)
    print('close cc %02x' % cc, attempt(ipmi.close)[:3], 'activated', intf._session.activated)

print('--- keep alive')
errs = []
threading.excepthook = lambda a: errs.append((a.exc_type.__name__, str(a.exc_value)))
b = Bmc()
ipmi, intf, sock = connect(b.handler, keep_alive=0.05)
time.sleep(0.3)
n0 = b.count.get((0x20, 6, 1), 0)
print('keep-alive GetDeviceId so far', n0)
# a single non-OK answer to the keep-alive
b.fault[(6, 1, n0)] = 0xc0
time.sleep(0.5)
n1 = b.count.get((0x20, 6, 1), 0)
time.sleep(0.5)
n2 = b.count.get((0x20, 6, 1), 0)
print('after one busy answer: count', n1, 'then', n2, 'thread errors', errs)
