"""Byte-level simulated BMC + fault injecting interface (written from the
IPMI 2.0 / PICMG HPM.1 command tables, not with the library's API helpers)."""
import sys
import time
sys.path.insert(0, '/tmp/h3_C08')
import pyipmi
from pyipmi.msgs import create_message, encode_message, decode_message

time.sleep = lambda s: None  # no waiting in the library


def le16(v):
    return [v & 0xff, (v >> 8) & 0xff]


class SimBmc(object):
    def __init__(self):
        # SDR repository: record id -> bytes
        self.sdrs = {}
        for i, rid in enumerate([0x0001, 0x0002, 0x0010]):
            body = [0x20, 0x00, i + 1, 0x07, 0x01, 0x00, 0x00, 0x00, 0x00, 0x00,
                    0xC0 | 5] + [0x41 + i] * 5
            # type 0x12: management controller device locator
            body = [0x20, 0x00, 0x00, 0x00, 0x00, 0x00, 0x00, 0x07, i, 0x00,
                    0xC0 | (20 + i)] + [0x41 + i] * (20 + i)
            self.sdrs[rid] = le16(rid) + [0x51, 0x12, len(body)] + body
        self.sdr_res = 0x100
        self.dev_res = 0x200
        self.sel_res = 0x300
        self.sdr_res_valid = False
        self.dev_res_valid = False
        self.sel_res_valid = False
        self.sel = {}
        for rid in (1, 2, 3):
            self.sel[rid] = le16(rid) + [0x02, rid, 0, 0, 0, 0x20, 0x00, 0x04,
                                         0x01, 0x30 + rid, 0x01, 0x50 + rid,
                                         0xff, 0xff]
        self.fru = {0: bytearray((i * 7 + 3) & 0xff for i in range(100)),
                    3: bytearray((i * 5 + 1) & 0xff for i in range(64))}
        self.erase_polls = 0
        self.sel_erase_started = False
        self.log = []
        # hpm
        self.blocks = []
        self.hpm_last_cc = 0
        self.hpm_cmd = 0

    # returns list of bytes: cc + data
    def handle(self, netfn, cmd, lun, d):
        self.log.append((netfn, cmd, lun, bytes(d)))
        d = list(d)
        if netfn == 0x06 and cmd == 0x01:
            return [0, 0x12, 0x81, 0x02, 0x05, 0x02, 0xbf, 0x3a, 0x3a, 0x00,
                    0x34, 0x12, 1, 2, 3, 4]
        if netfn == 0x0a:
            return self.storage(cmd, d)
        if netfn == 0x04:
            return self.sensor(cmd, d)
        if netfn == 0x2c:
            return self.grp(cmd, d)
        return [0xc1]

    def _get_sdr(self, d, res, valid):
        rsv = d[0] | d[1] << 8
        rid = d[2] | d[3] << 8
        off, n = d[4], d[5]
        ids = sorted(self.sdrs)
        if rid == 0:
            rid = ids[0]
        if rid == 0xffff:
            rid = ids[-1]
        if rid not in self.sdrs:
            return [0xcb]
        if off != 0 and (not valid or rsv != res):
            return [0xc5]
        rec = self.sdrs[rid]
        nxt = ids[ids.index(rid) + 1] if ids.index(rid) + 1 < len(ids) else 0xffff
        if n == 0xff:
            n = len(rec) - off
        if off + n > len(rec):
            return [0xc9]
        return [0] + le16(nxt) + rec[off:off + n]

    def storage(self, cmd, d):
        if cmd == 0x10:  # fru inventory area info
            if d[0] not in self.fru:
                return [0xcb]
            return [0] + le16(len(self.fru[d[0]])) + [0]
        if cmd == 0x11:  # read fru
            if d[0] not in self.fru:
                return [0xcb]
            f = self.fru[d[0]]
            off = d[1] | d[2] << 8
            n = d[3]
            if off + n > len(f) or n > 32:
                return [0xc9]
            return [0, n] + list(f[off:off + n])
        if cmd == 0x12:  # write fru
            if d[0] not in self.fru:
                return [0xcb]
            f = self.fru[d[0]]
            off = d[1] | d[2] << 8
            data = d[3:]
            if off + len(data) > len(f):
                return [0xc9]
            f[off:off + len(data)] = bytes(data)
            return [0, len(data)]
        if cmd == 0x20:
            return [0, 0x51] + le16(len(self.sdrs)) + le16(1000) + [0] * 8 + [0x0f]
        if cmd == 0x22:
            self.sdr_res += 1
            self.sdr_res_valid = True
            return [0] + le16(self.sdr_res)
        if cmd == 0x23:
            return self._get_sdr(d, self.sdr_res, self.sdr_res_valid)
        if cmd == 0x27:  # clear sdr
            rsv = d[0] | d[1] << 8
            if not self.sdr_res_valid or rsv != self.sdr_res:
                return [0xc5]
            if d[2:5] != [0x43, 0x4c, 0x52]:
                return [0xcc]
            if d[5] == 0xaa:
                self.sdrs_erase = 2
                return [0, 1]
            self.sdrs_erase -= 1
            if self.sdrs_erase <= 0:
                self.sdrs.clear()
                return [0, 1]
            return [0, 0]
        if cmd == 0x40:
            return [0, 0x51] + le16(len(self.sel)) + le16(1000) + [0] * 8 + [0x0f]
        if cmd == 0x42:
            self.sel_res += 1
            self.sel_res_valid = True
            return [0] + le16(self.sel_res)
        if cmd == 0x43:
            rsv = d[0] | d[1] << 8
            rid = d[2] | d[3] << 8
            off, n = d[4], d[5]
            ids = sorted(self.sel)
            if not ids:
                return [0xcb]
            if rid == 0:
                rid = ids[0]
            if rid == 0xffff:
                rid = ids[-1]
            if rid not in self.sel:
                return [0xcb]
            if off != 0 and (not self.sel_res_valid or rsv != self.sel_res):
                return [0xc5]
            rec = self.sel[rid]
            nxt = ids[ids.index(rid) + 1] if ids.index(rid) + 1 < len(ids) else 0xffff
            if n == 0xff:
                n = 16 - off
            if off + n > 16:
                return [0xc9]
            return [0] + le16(nxt) + rec[off:off + n]
        if cmd == 0x46:
            rsv = d[0] | d[1] << 8
            rid = d[2] | d[3] << 8
            if not self.sel_res_valid or rsv != self.sel_res:
                return [0xc5]
            if rid not in self.sel:
                return [0xcb]
            del self.sel[rid]
            self.sel_res_valid = False  # deleting cancels reservations
            return [0] + le16(rid)
        if cmd == 0x47:
            rsv = d[0] | d[1] << 8
            if not self.sel_res_valid or rsv != self.sel_res:
                return [0xc5]
            if d[5] == 0xaa:
                self.sel_erase = 2
                return [0, 1]
            self.sel_erase -= 1
            if self.sel_erase <= 0:
                self.sel.clear()
                return [0, 1]
            return [0, 0]
        return [0xc1]

    def sensor(self, cmd, d):
        if cmd == 0x22:
            self.dev_res += 1
            self.dev_res_valid = True
            return [0] + le16(self.dev_res)
        if cmd == 0x21:
            return self._get_sdr(d, self.dev_res, self.dev_res_valid)
        return [0xc1]

    def grp(self, cmd, d):
        if d[0] == 0xdc:  # DCMI
            if cmd == 0x07:
                ent = d[2]
                ids = {0x40: [0x0101], 0x41: [0x0202, 0x0303], 0x42: []}[ent]
                raw = []
                for i in ids:
                    raw += le16(i)
                return [0, 0xdc, len(ids), len(ids)] + raw
            return [0xc1]
        if d[0] != 0x00:
            return [0xc1]
        # HPM.1
        if cmd == 0x2e:
            return [0, 0, 0x00, 0xff, 5, 5, 5, 5, 0x03]
        if cmd == 0x2f:
            comp, sel = d[1], d[2]
            if comp > 1:
                return [0x82]
            if sel == 0:
                return [0, 0, 0x0d]
            if sel == 1:
                return [0, 0, 1, 0x23, 0, 0, 0, comp]
            if sel == 2:
                return [0, 0] + list(b'COMP-%d\0\0\0\0\0\0' % comp)
            if sel == 3:
                return [0, 0, 1, 0x11, 0, 0, 0, comp]
            if sel == 4:
                return [0x83]
            return [0x83]
        if cmd == 0x30:
            return [0, 0]
        if cmd == 0x31:
            self.blocks = []
            self.hpm_cmd = 0x31
            return [0, 0]
        if cmd == 0x32:
            self.blocks.append((d[1], bytes(d[2:])))
            self.hpm_cmd = 0x32
            return [0, 0]
        if cmd == 0x33:
            self.finish = (d[1], d[2] | d[3] << 8 | d[4] << 16 | d[5] << 24)
            self.hpm_cmd = 0x33
            return [0, 0]
        if cmd == 0x34:
            return [0, 0, self.hpm_cmd, self.hpm_last_cc]
        if cmd == 0x35:
            return [0, 0]
        if cmd == 0x36:
            return [0, 0, 0x55, 0x00]
        if cmd == 0x37:
            return [0, 0, 0x00]
        if cmd == 0x38:
            return [0, 0]
        return [0xc1]


class FaultInterface(object):
    """interface object for pyipmi.Ipmi: answers from the SimBmc, replaces
    the answer to request number k (0 based) by the bare completion code."""

    def __init__(self, bmc, faults=None, exc=None):
        self.bmc = bmc
        self.faults = dict(faults or {})  # position -> cc
        self.exc = dict(exc or {})        # position -> exception instance
        self.n = 0

    def open(self): pass
    def close(self): pass
    def establish_session(self, s): pass
    def close_session(self): pass

    def send_and_receive(self, req):
        k = self.n
        self.n += 1
        payload = encode_message(req)
        if k in self.exc:
            raise self.exc[k]
        if k in self.faults:
            cc = self.faults[k]
            # a real BMC that answers 0xC5 has lost the reservation
            if cc == 0xc5:
                self.bmc.sdr_res_valid = False
                self.bmc.dev_res_valid = False
                self.bmc.sel_res_valid = False
            self.bmc.log.append(('FAULT', k, req.netfn, req.cmdid, cc))
            data = [cc]
        else:
            data = self.bmc.handle(req.netfn, req.cmdid, req.lun, payload)
        rsp = create_message(req.netfn + 1, req.cmdid, req.group_extension)
        decode_message(rsp, bytes(bytearray(data)))
        return rsp


def make(faults=None, exc=None, bmc=None):
    bmc = bmc or SimBmc()
    intf = FaultInterface(bmc, faults, exc)
    ipmi = pyipmi.create_connection(intf)
    ipmi.target = pyipmi.Target(0x20)
    return ipmi, intf, bmc
