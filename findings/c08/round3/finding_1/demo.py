"""C08 / RMCP keep-alive: one non-OK completion code answered to the
library's own keep-alive request (Get Device ID, issued periodically by
Ipmi.open() -> Rmcp.establish_session) ends the keep-alive for good.

The error is neither raised to the caller nor retried: the CompletionCodeError
escapes in the keep-alive thread (call_repeatedly only catches socket.timeout),
the thread dies, the session is no longer kept alive, the BMC drops it after
its inactivity timeout and the caller's next operation fails with RetryError -
although the BMC answered every single one of the caller's requests correctly.

The BMC is simulated at UDP-datagram level (RMCP + IPMI v1.5 session header +
IPMB frame, built by hand from the IPMI 2.0 spec, sections 13.x/22.x); the
library code is unmodified.  The BMC drops a session that was idle for
IDLE seconds (spec: 60 s +/- 3 s; scaled down so that the demo is fast).
"""
import sys, socket, struct, time, threading, collections
sys.path.insert(0, '/tmp/h3_C08')
import pyipmi
import pyipmi.interfaces
from pyipmi.errors import CompletionCodeError, RetryError

IDLE = 0.6          # BMC session inactivity timeout (scaled)
KEEP_ALIVE = 0.1    # keep_alive_interval of the interface (default is 1)


def csum(b):
    return (-sum(b)) & 0xff


class FakeBmcSocket(object):
    def __init__(self, busy_at=None):
        self.q = collections.deque()
        self.timeout = 2.0
        self.busy_at = busy_at        # index of the Get Device ID to answer C0h
        self.n_devid = 0
        self.session_open = False
        self.last_rx = None
        self.trace = []

    def settimeout(self, t): self.timeout = t
    def gettimeout(self): return self.timeout

    def _answer(self, netfn, cmd):
        if netfn == 6 and cmd == 0x38:   # Get Channel Authentication Capabilities
            return [0, 1, 0x01, 0, 0, 0, 0, 0, 0]      # auth type "none" only
        if netfn == 6 and cmd == 0x39:   # Get Session Challenge
            return [0, 1, 2, 3, 4] + [7] * 16
        if netfn == 6 and cmd == 0x3a:   # Activate Session
            self.session_open = True
            return [0, 0, 9, 9, 9, 9, 1, 0, 0, 0, 4]
        if netfn == 6 and cmd == 0x3b:   # Set Session Privilege Level
            return [0, 4]
        if netfn == 6 and cmd == 0x3c:   # Close Session
            self.session_open = False
            return [0]
        if netfn == 6 and cmd == 0x01:   # Get Device ID
            k = self.n_devid
            self.n_devid += 1
            if k == self.busy_at:
                self.trace.append('Get Device ID #%d answered with C0h (node busy)' % k)
                return [0xc0]
            return [0, 0x20, 0x81, 2, 5, 2, 0xbf, 0x3a, 0x3a, 0, 0x34, 0x12]
        return [0xc1]

    def sendto(self, pdu, addr):
        pdu = bytes(pdu)
        now = time.time()
        if pdu[3] == 0x06:               # ASF ping -> pong
            self.q.append(bytes([6, 0, 0xff, 6])
                          + struct.pack('!IBBBB', 4542, 0x40, pdu[9], 0, 16)
                          + struct.pack('!IIBB6x', 4542, 0, 0x81, 0))
            return
        # session inactivity timeout
        if self.session_open and self.last_rx is not None \
                and now - self.last_rx > IDLE:
            self.session_open = False
            self.trace.append('BMC: session idle for %.2fs -> session closed'
                              % (now - self.last_rx))
        f = pdu[4 + 10:]                 # auth type none: 10 byte session header
        netfn, cmd = f[1] >> 2, f[5]
        in_session = struct.unpack('!I', pdu[4 + 5:4 + 9])[0] != 0
        if in_session and not self.session_open and cmd != 0x3a:
            return                       # packets of a dead session are dropped
        self.last_rx = now
        body = self._answer(netfn, cmd)
        h = [f[3], ((netfn | 1) << 2) | (f[4] & 3)]
        h.append(csum(h))
        p = [f[0], f[4] & 0xfc | (f[1] & 3), cmd] + body
        p.append(csum(p))
        frame = bytes(h + p)
        self.q.append(bytes([6, 0, 0xff, 7])
                      + struct.pack('!BIIB', 0, 0, 0, len(frame)) + frame)

    def recvfrom(self, n):
        if self.q:
            return (self.q.popleft(), ('bmc', 623))
        if self.timeout == 0:
            raise BlockingIOError()
        raise socket.timeout()


def scenario(busy_at):
    thread_errors = []
    threading.excepthook = lambda a: thread_errors.append(
        '%s: %s' % (a.exc_type.__name__, a.exc_value))
    intf = pyipmi.interfaces.create_interface(
        'rmcp', keep_alive_interval=KEEP_ALIVE)
    ipmi = pyipmi.create_connection(intf)
    ipmi.session.set_session_type_rmcp('bmc', 623)
    ipmi.session.set_auth_type_user('admin', 'admin')
    ipmi.target = pyipmi.Target(0x20)
    sock = FakeBmcSocket(busy_at)
    intf.open = lambda: None             # do not create a real UDP socket
    intf._sock = sock
    ipmi.open()
    time.sleep(IDLE * 3)                 # the caller is idle, keep-alive is not
    try:
        result = 'device_id=0x%02x' % ipmi.get_device_id().device_id
    except Exception as e:               # noqa
        result = 'raised %s(%s)' % (type(e).__name__, e)
    n = sock.n_devid
    try:
        ipmi.close()
    except Exception:
        pass
    return result, n, sock.trace, thread_errors


if __name__ == '__main__':
    print('open(); caller idle for %.1fs; get_device_id()' % (IDLE * 3))
    good, n_good, trace, errs = scenario(busy_at=None)
    print('no fault                         : %s   (%d Get Device ID requests seen by BMC)'
          % (good, n_good))
    bad, n_bad, trace, errs = scenario(busy_at=2)
    print('3rd keep-alive answered with C0h : %s   (%d Get Device ID requests seen by BMC)'
          % (bad, n_bad))
    for t in trace:
        print('   ', t)
    for e in errs:
        print('    uncaught in keep-alive thread:', e)
    print('expected: same result as without the fault (the keep-alive goes on), '
          'or an error carrying C0h raised to the caller')
    print('got     : %s' % bad)
    sys.exit(0 if bad == good else 1)
