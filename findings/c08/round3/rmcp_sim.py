"""Fake UDP socket speaking RMCP / IPMI v1.5 (auth none) for pyipmi.interfaces.rmcp."""
import sys, socket, struct, threading, collections
sys.path.insert(0, '/tmp/h3_C08')
import pyipmi
import pyipmi.interfaces


def csum(b):
    return (-sum(b)) & 0xff


def ipmb_rsp(rq_sa, rq_lun, rs_sa, rs_lun, netfn_rsp, seq, cmd, body):
    h = [rq_sa, (netfn_rsp << 2) | rq_lun]
    h.append(csum(h))
    p = [rs_sa, (seq << 2) | rs_lun, cmd] + list(body)
    p.append(csum(p))
    return h + p


class FakeSock(object):
    """handler(ipmb_request_bytes) -> list of ipmb response frames (lists)"""

    def __init__(self, handler):
        self.handler = handler
        self.q = collections.deque()
        self.timeout = 2.0
        self.sent = []
        self.lock = threading.Lock()

    def settimeout(self, t): self.timeout = t
    def gettimeout(self): return self.timeout

    def sendto(self, pdu, addr):
        pdu = bytes(pdu)
        cls = pdu[3]
        if cls == 0x06:  # ASF ping -> pong
            tag = pdu[9]
            pong = bytes([6, 0, 0xff, 6]) + struct.pack('!IBBBB', 4542, 0x40, tag, 0, 16) \
                + struct.pack('!IIBB6x', 4542, 0, 0x81, 0)
            self.q.append(pong)
            return
        body = pdu[4:]
        auth = body[0]
        hl = 10 if auth == 0 else 26
        sdu = body[hl:]
        self.sent.append(sdu)
        for frame in self.handler(list(sdu)):
            out = bytes([6, 0, 0xff, 7]) + struct.pack('!BIIB', 0, 0, 0, len(frame)) + bytes(frame)
            self.q.append(out)

    def recvfrom(self, n):
        if self.q:
            return (self.q.popleft(), ('h', 623))
        if self.timeout == 0:
            raise BlockingIOError()
        raise socket.timeout()


def connect(handler, routing=None, ipmb=0x20, keep_alive=0, max_retries=0, establish=True):
    intf = pyipmi.interfaces.create_interface('rmcp', keep_alive_interval=keep_alive,
                                              max_retries=max_retries)
    ipmi = pyipmi.create_connection(intf)
    ipmi.session.set_session_type_rmcp('h', 623)
    ipmi.session.set_auth_type_user('admin', 'admin')
    t = pyipmi.Target(ipmb)
    if routing:
        t.set_routing(routing)
    ipmi.target = t
    sock = FakeSock(handler)
    intf.open = lambda: None
    intf._sock = sock
    if establish:
        ipmi.open()
    return ipmi, intf, sock
