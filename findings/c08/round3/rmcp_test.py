import sys, time, threading
sys.path.insert(0, '/tmp/h3_C08/_hunt')
from rmcp_sim import *
from pyipmi.errors import *

class Bmc:
    def __init__(self):
        self.fault = {}      # (netfn, cmd, nth) -> cc  at the BMC 0x20
        self.sat_fault = {}  # cmd -> cc at satellite
        self.count = {}
        self.log = []
    def app(self, sa, netfn, cmd, data):
        """returns cc+data for a management controller"""
        if netfn == 6 and cmd == 1:
            return [0, sa, 0x81, 2, 5, 2, 0xbf, 0x3a, 0x3a, 0, 0x34, 0x12]
        if netfn == 6 and cmd == 0x38:
            return [0, 1, 0x01, 0x00, 0, 0, 0, 0, 0]
        if netfn == 6 and cmd == 0x39:
            return [0, 1, 2, 3, 4] + [7]*16
        if netfn == 6 and cmd == 0x3a:
            return [0, 0, 9, 9, 9, 9, 1, 0, 0, 0, 4]
        if netfn == 6 and cmd == 0x3b:
            return [0, 4]
        if netfn == 6 and cmd == 0x3c:
            return [0]
        return [0xc1]
    def frame(self, f, me=0x20):
        rs_sa, netfn, rs_lun = f[0], f[1] >> 2, f[1] & 3
        rq_sa, seq, rq_lun, cmd = f[3], f[4] >> 2, f[4] & 3, f[5]
        data = f[6:-1]
        key = (netfn, cmd)
        n = self.count.get((me,)+key, 0); self.count[(me,)+key] = n + 1
        self.log.append((hex(me), netfn, hex(cmd), n))
        if me == 0x20 and (netfn, cmd, n) in self.fault:
            body = [self.fault[(netfn, cmd, n)]]
        elif me != 0x20 and cmd in self.sat_fault:
            body = [self.sat_fault[cmd]]
        elif netfn == 6 and cmd == 0x34:
            inner = data[1:]
            innerrsp = self.frame(inner, me=inner[0])
            body = [0] + innerrsp
        else:
            body = self.app(me, netfn, cmd, data)
        return ipmb_rsp(rq_sa, rq_lun, rs_sa, rs_lun, netfn | 1, seq, cmd, body)
    def handler(self, sdu):
        return [self.frame(sdu)]

def attempt(fn):
    try:
        return ('ok', fn())
    except BaseException as e:
        return ('exc', type(e).__name__, getattr(e, 'cc', None), str(e))

R1 = [(0x81, 0x20, 0), (0x20, 0x82, None)]
R2 = [(0x81, 0x20, 0), (0x20, 0x82, 7), (0x20, 0x72, None)]
for name, routing, ipmb in (('direct', None, 0x20), ('single', R1, 0x82), ('double', R2, 0x72)):
    b = Bmc()
    ipmi, intf, sock = connect(b.handler, routing, ipmb)
    r = attempt(lambda: ipmi.get_device_id().device_id)
    print(name, 'golden', r)
    for cc in (0x80, 0x81, 0x82, 0x83, 0xc0, 0xc3, 0xd3, 0xd4, 0xff):
        # fault on the outer send message / the direct command
        b = Bmc(); ipmi, intf, sock = connect(b.handler, routing, ipmb)
        if routing:
            nsm = b.count.get((0x20, 6, 0x34), 0)
            for i in range(5):
                b.fault[(6, 0x34, nsm+i)] = cc
        else:
            nd = b.count.get((0x20, 6, 1), 0)
            for i in range(5): b.fault[(6, 1, nd+i)] = cc
        r = attempt(lambda: ipmi.get_device_id().device_id)
        r2 = None
        b.fault.clear()
        r2 = attempt(lambda: ipmi.get_device_id().device_id)
        flag = '' if (r[0]=='exc' and (r[2]==cc or r[1]=='RetryError')) else '   <<<<<'
        print('  %s outer cc=%02x ->' % (name, cc), r, 'next:', r2, flag)
        if routing:
            b = Bmc(); ipmi, intf, sock = connect(b.handler, routing, ipmb)
            b.sat_fault[1] = cc
            r = attempt(lambda: ipmi.get_device_id().device_id)
            flag = '' if (r[0]=='exc' and (r[2]==cc or r[1]=='RetryError')) else '   <<<<<'
            print('  %s innermost cc=%02x ->' % (name, cc), r, flag)
        if routing and len(routing) == 3:
            b = Bmc(); ipmi, intf, sock = connect(b.handler, routing, ipmb)
            b.sat_fault[0x34] = cc
            r = attempt(lambda: ipmi.get_device_id().device_id)
            flag = '' if (r[0]=='exc' and (r[2]==cc or r[1]=='RetryError')) else '   <<<<<'
            print('  %s 2nd-level sendmsg cc=%02x ->' % (name, cc), r, flag)
