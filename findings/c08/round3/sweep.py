import sys, traceback, itertools
sys.path.insert(0, '/tmp/h3_C08/_hunt')
from sim import *
from pyipmi.errors import CompletionCodeError, RetryError, HpmError
import pyipmi.hpm as H


def canon(x):
    if isinstance(x, (list, tuple)):
        return [canon(i) for i in x]
    if hasattr(x, 'tolist'):
        return x.tolist()
    if isinstance(x, (int, str, bytes, type(None), bool, float)):
        return x
    if hasattr(x, 'array'):
        return x.array.tolist()
    d = {}
    for k, v in sorted(vars(x).items()):
        d[k] = canon(v)
    return (type(x).__name__, d)


class Img(object):
    pass


def mk_image():
    img = Img()
    img.header = Img()
    img.header.device_id = 0x12
    img.header.manufacturer_id = 0x003a3a
    img.header.product_id = 0x1234
    img.header.components = [0]
    img.header.inaccessibility_timeout = 0
    a = H.UpgradeActionRecordUploadForUpgrade.__new__(H.UpgradeActionRecordUploadForUpgrade)
    a.components = 1
    a.action_type = 2
    a.firmware_image_data = bytes(range(100))
    a.firmware_length = 100
    img.actions = [a]
    return img


OPS = {
    'sdr_list': lambda i: i.get_repository_sdr_list(),
    'sdr_one': lambda i: i.get_repository_sdr(0x0002),
    'dev_sdr_list': lambda i: i.get_device_sdr_list(),
    'sel_entries': lambda i: i.get_sel_entries(),
    'sel_get_clear': lambda i: i.get_and_clear_sel_entry(2),
    'sel_entry_res': lambda i: i.get_sel_entry(2, i.get_sel_reservation_id()),
    'clear_sel': lambda i: i.clear_sel(),
    'clear_sdr': lambda i: i.clear_sdr_repository(),
    'fru_full': lambda i: i.read_fru_data_full(0),
    'fru_full3': lambda i: i.read_fru_data_full(3),
    'fru_part': lambda i: i.read_fru_data(offset=10, count=70, fru_id=3 - 3),
    'fru_write': lambda i: i.write_fru_data(bytes(range(50)), offset=5, fru_id=3),
    'hpm_props': lambda i: i.get_component_properties(1),
    'hpm_find': lambda i: i.find_component_id_by_descriptor('COMP-1'),
    'hpm_upload': lambda i: i.upload_binary(bytes(range(100)), timeout=0.05, interval=0.01),
    'hpm_upgrade_stage': lambda i: i.upgrade_stage(mk_image(), 0),
    'hpm_prep': lambda i: i.preparation_stage(mk_image()),
    'hpm_init_wait': lambda i: i.initiate_upgrade_action_and_wait(1, 2, timeout=0.05, interval=0.01),
    'hpm_finish_wait': lambda i: i.finish_upload_and_wait(0, 100, timeout=0.05, interval=0.01),
    'hpm_activate_wait': lambda i: i.activate_firmware_and_wait(timeout=0.05, interval=0.01),
    'hpm_rollback_wait': lambda i: i.initiate_manual_rollback_and_wait(timeout=0.05, interval=0.01),
    'dcmi_ids': lambda i: i.get_dcmi_sensor_record_ids(),
}


def bmc_state(b):
    return (dict(b.sdrs), dict(b.sel), {k: bytes(v) for k, v in b.fru.items()},
            list(b.blocks), getattr(b, 'finish', None))


def run(op, faults=None, exc=None):
    ipmi, intf, bmc = make(faults, exc)
    try:
        r = ('ok', canon(OPS[op](ipmi)))
    except BaseException as e:
        r = ('exc', e)
    return r, intf.n, bmc_state(bmc), ipmi, intf, bmc


def classify(r, ccs, golden):
    if r[0] == 'ok':
        return 'same' if r[1] == golden[1] else 'DIFF'
    e = r[1]
    if isinstance(e, CompletionCodeError):
        return 'cc' if e.cc in ccs else 'WRONGCC(%02x)' % e.cc
    if isinstance(e, RetryError):
        return 'retry'
    if isinstance(e, HpmError):
        if any(('0x%02x' % c) in str(e).lower() for c in ccs) or 'still in progress' in str(e):
            return 'hpm'
        return 'HPM?(%s)' % e
    return 'PYERR(%s: %s)' % (type(e).__name__, e)


if __name__ == '__main__':
    only = sys.argv[1:] or list(OPS)
    CCS = list(range(0x80, 0x84)) + list(range(0xc0, 0xd7)) + [0x01, 0x7f, 0xff]
    for op in only:
        g, n, gstate, *_ = run(op)
        if g[0] != 'ok':
            print(op, 'GOLDEN FAILS', repr(g[1]))
            traceback.print_exception(type(g[1]), g[1], g[1].__traceback__)
            continue
        print('==', op, 'requests', n)
        seen = {}
        for k in range(n + 3):
            for cc in CCS:
                r, n2, st, *_ = run(op, {k: cc})
                c = classify(r, [cc], g)
                if c == 'same' and st != gstate:
                    c = 'same-but-BMC-STATE-DIFF'
                if c in ('same',) and k >= n:
                    continue
                key = c
                seen.setdefault(key, []).append((k, '%02x' % cc))
        for key, v in seen.items():
            print('  ', key, len(v), v[:12] if key not in ('cc',) else '')


def double(only, CCS=(0xc5, 0xca, 0xc3, 0xce, 0xc0, 0xc9, 0x80, 0x83, 0xff)):
    for op in only:
        g, n, gstate, *_ = run(op)
        print('== double', op, 'requests', n)
        seen = {}
        for k1 in range(n + 4):
            for k2 in range(k1 + 1, n + 6):
                for c1 in CCS:
                    for c2 in CCS:
                        r, n2, st, *_ = run(op, {k1: c1, k2: c2})
                        c = classify(r, [c1, c2], g)
                        if c == 'same' and st != gstate:
                            c = 'same-but-BMC-STATE-DIFF'
                        seen.setdefault(c, []).append((k1, '%02x' % c1, k2, '%02x' % c2))
        for key, v in seen.items():
            print('  ', key, len(v), v[:10] if key not in ('cc', 'same', 'retry', 'hpm') else '')
