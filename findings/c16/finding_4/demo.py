"""C16 finding 4 (management controller device locator, table 43-8): the parsed
`global_initialization` is the constant 0, whatever the record encodes.

IPMI v2.0 table 43-8, byte 8 "Power State Notification / Global Initialization":
  [7] ACPI system power state notification required
  [6] ACPI device power state notification required
  [5] static/dynamic controller   [4] reserved
  Global Initialization:
  [3] controller logs initialization agent errors
  [2] log initialization agent errors accessing this controller
  [1:0] 00 enable event message generation / 01 disable / 10 do not initialize / 11 reserved
"""
import os
import sys

sys.path.insert(0, os.getcwd())
import pyipmi  # noqa: E402,F401
from pyipmi.sdr import SdrCommon  # noqa: E402


def mc_locator(power_state_notification, global_initialization):
    body = [0x82, 0x00,
            (power_state_notification << 5) | global_initialization,
            0xbf, 0x00, 0x00, 0x00, 0xc1, 0x61, 0x00,
            0xc3, 0x4d, 0x43, 0x31]                # "MC1"
    return bytes([0x03, 0x00, 0x51, 0x12, len(body)] + body)


failures = 0
for psn, gi in ((0, 0), (0, 1), (0, 2), (3, 1), (0, 0xd), (7, 0xe)):
    data = mc_locator(psn, gi)
    rec = SdrCommon.from_data(data)
    got = rec.global_initialization
    # accept either reading of the field's width: the whole nibble [3:0]
    # (the table's "Global Initialization" group) or just the [1:0] selector
    ok = got in (gi, gi & 0x3)
    failures += not ok
    print('record %s: encoded global initialization %s (byte 8 = 0x%02x), '
          'parsed global_initialization %r, power_state_notification 0x%02x '
          '-> %s' % (data.hex(), format(gi, '04b'), data[7], got,
                     rec.power_state_notification,
                     'ok' if ok else 'VIOLATION'))
sys.exit(1 if failures else 0)
