"""C16 finding 5 (OEM record, table 43-12): the parser applies the *sensor*
record key layout (owner id / owner LUN / sensor number) to a record type that
has no such key.  Bytes 6..8 of an OEM record are the manufacturer's IANA
enterprise number, LS byte first (20 bits, upper 4 bits reserved); byte 9.. is
OEM data.  The parsed object reports a sensor owner id, LUN and sensor number
that the record does not encode, and the manufacturer id that it does encode
is not available.
"""
import os
import sys

sys.path.insert(0, os.getcwd())
import pyipmi  # noqa: E402,F401
from pyipmi.sdr import SdrCommon, SdrOEMSensorRecord  # noqa: E402


def oem_record(record_id, manufacturer_id, oem_data):
    body = [manufacturer_id & 0xff, (manufacturer_id >> 8) & 0xff,
            (manufacturer_id >> 16) & 0xff] + list(oem_data)
    return bytes([record_id & 0xff, record_id >> 8, 0x51, 0xc0, len(body)]
                 + body)


failures = 0
for mid, payload in ((15000, b'\x01\x02\x03'),      # Kontron
                     (343, b''),                     # Intel
                     (0x0b4220, b'\xaa' * 8)):
    data = oem_record(0x0101, mid, payload)
    rec = SdrCommon.from_data(data)
    assert type(rec) is SdrOEMSensorRecord and rec.id == 0x0101
    fabricated = {k: getattr(rec, k) for k in ('owner_id', 'owner_lun', 'number')
                  if hasattr(rec, k)}
    got_mid = getattr(rec, 'manufacturer_id', 'AttributeError')
    ok = not fabricated and got_mid == mid
    failures += not ok
    print('record %s' % data.hex())
    print('    encoded: manufacturer id %d (0x%06x), %d bytes OEM data, '
          'no sensor key' % (mid, mid, len(payload)))
    print('    parsed : manufacturer_id=%s, sensor key attributes %s -> %s'
          % (got_mid, fabricated or 'none', 'ok' if ok else 'VIOLATION'))
sys.exit(1 if failures else 0)
