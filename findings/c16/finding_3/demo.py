"""C16 finding 3 (capabilities byte of the full sensor record): the decoder swaps
"thresholds readable" and "thresholds readable and settable".

IPMI v2.0 table 43-1, byte 12 "Sensor Capabilities":
  [5:4] hysteresis support  00 none / 01 readable / 10 readable+settable / 11 fixed
  [3:2] threshold access    00 none / 01 readable / 10 readable+settable / 11 fixed
The library decodes [5:4] per the table but maps [3:2]=01b to
'threshold_read_and_setable' and [3:2]=10b to 'threshold_readable'.
"""
import os
import sys

sys.path.insert(0, os.getcwd())
import pyipmi  # noqa: E402,F401
from pyipmi.sdr import SdrCommon  # noqa: E402


def full_sensor_record(capabilities):
    body = [0x20, 0x00, 0x11,             # owner id, owner lun, sensor number
            0x03, 0x60,                   # entity id / instance
            0x7f, capabilities,           # initialization, CAPABILITIES
            0x01, 0x01,                   # temperature, threshold type
            0x80, 0x7a, 0x80, 0x7a,       # assertion / deassertion masks
            0x3f, 0x3f,                   # settable / readable threshold mask
            0x80, 0x01, 0x00, 0x00,       # units 1..3, linearization
            0x01, 0x00, 0x00, 0x00, 0x00, 0x00,   # M, tol, B, acc, acc exp, exps
            0x07, 0x19, 0x50, 0xf6, 0x7f, 0x80,
            0x5a, 0x50, 0x46, 0xec, 0xf6, 0x00,   # thresholds
            0x02, 0x02, 0x00, 0x00, 0x00,
            0xc4, 0x54, 0x65, 0x6d, 0x70]         # "Temp"
    return bytes([0x17, 0x00, 0x51, 0x01, len(body)] + body)


THRESHOLD = {0b00: 'threshold_not_supported',
             0b01: 'threshold_readable',
             0b10: 'threshold_read_and_setable',      # (library's spelling)
             0b11: 'threshold_fixed'}
HYSTERESIS = {0b00: 'hysteresis_not_supported',
              0b01: 'hysteresis_readable',
              0b10: 'hysteresis_read_and_setable',
              0b11: 'hysteresis_fixed'}

failures = 0
for thr in range(4):
    for hys in range(4):
        cap = 0x40 | (hys << 4) | (thr << 2) | 0x01
        rec = SdrCommon.from_data(full_sensor_record(cap))
        exp = {THRESHOLD[thr], HYSTERESIS[hys]}
        got = {c for c in rec.capabilities
               if c.startswith(('threshold_', 'hysteresis_'))}
        if got != exp:
            failures += 1
            print('capabilities byte 0x%02x ([5:4]=%s [3:2]=%s): expected %s, '
                  'got %s -> VIOLATION' % (cap, format(hys, '02b'),
                                           format(thr, '02b'),
                                           sorted(exp), sorted(got)))
print('%d of 16 hysteresis/threshold combinations decoded wrongly' % failures)
sys.exit(1 if failures else 0)
