"""C16 finding 2: `channel_number` of the FRU Device Locator (table 43-7) and of
the Management Controller Confirmation record (table 43-9) is not the encoded
channel number.

IPMI v2.0 table 43-7, byte 9  "Channel Number": [7:4] channel number, [3:0] reserved.
IPMI v2.0 table 43-9, byte 8  "Channel Number / Device Revision":
                               [7:4] channel number, [3:0] device revision.
(Compare table 43-8, byte 7: [7:4] reserved, [3:0] channel number - there the
library masks correctly with & 0xf.)
All three bytes are RECORD KEY bytes.
"""
import os
import sys

sys.path.insert(0, os.getcwd())
import pyipmi  # noqa: E402,F401
from pyipmi.sdr import SdrCommon  # noqa: E402


def header(record_id, record_type, body):
    return bytes([record_id & 0xff, record_id >> 8, 0x51, record_type,
                  len(body)] + body)


def fru_locator(access_addr7, fru_id, logical, lun, bus, channel):
    body = [access_addr7 << 1, fru_id, (logical << 7) | (lun << 3) | bus,
            channel << 4, 0x00, 0x10, 0x02, 0xc2, 0x61, 0x00,
            0xc4, 0x46, 0x52, 0x55, 0x31]          # 8-bit ASCII "FRU1"
    return header(0x0002, 0x11, body)


def mc_locator(slave7, channel):
    body = [slave7 << 1, channel, 0x00, 0xbf, 0, 0, 0, 0xc1, 0x61, 0x00,
            0xc3, 0x4d, 0x43, 0x31]                # "MC1"
    return header(0x0003, 0x12, body)


def mc_confirmation(slave7, device_id, channel, device_rev):
    body = [slave7 << 1, device_id, (channel << 4) | device_rev,
            0x02, 0x01, 0x51, 0x4a, 0xc1, 0x02, 0x06, 0x80] + [0] * 16
    return header(0x0045, 0x13, body)


failures = 0


def check(what, data, expected):
    global failures
    got = SdrCommon.from_data(data).channel_number
    ok = got == expected
    failures += not ok
    print('%-44s record %s' % (what, data.hex()))
    print('    encoded channel number %d, parsed channel_number %d -> %s'
          % (expected, got, 'ok' if ok else 'VIOLATION'))


check('MC device locator, channel 7 (control)', mc_locator(0x10, 7), 7)
check('FRU device locator, channel 7', fru_locator(0x10, 1, 1, 0, 0, 7), 7)
check('FRU device locator, channel 1', fru_locator(0x10, 1, 1, 0, 0, 1), 1)
check('MC confirmation, channel 0, device rev 5',
      mc_confirmation(0x10, 0, 0, 5), 0)
check('MC confirmation, channel 2, device rev 1',
      mc_confirmation(0x10, 0, 2, 1), 2)

sys.exit(1 if failures else 0)
