"""C16 finding 1: BCD-plus id strings containing ':' ',' or '_' cannot be parsed.

IPMI v2.0 section 43.15 (Type/Length Byte Format), "BCD PLUS definition":
  0h-9h digits, Ah space, Bh dash '-', Ch period '.',
  Dh colon ':', Eh comma ',', Fh underscore '_'.
Every one of the 16 nibble values is a defined character in an SDR id string.
"""
import os
import sys

sys.path.insert(0, os.getcwd())
import pyipmi  # noqa: E402  (registers the bcd+ codec exactly as a user would)
from pyipmi.sdr import SdrCommon  # noqa: E402

BCD_PLUS = "0123456789 -.:,_"           # IPMI v2.0 43.15


def bcd_plus_id_string(text):
    assert len(text) % 2 == 0
    raw = [(BCD_PLUS.index(text[i]) << 4) | BCD_PLUS.index(text[i + 1])
           for i in range(0, len(text), 2)]
    return [(0b01 << 6) | len(raw)] + raw


def header(record_id, record_type, body):
    return bytes([record_id & 0xff, record_id >> 8, 0x51, record_type,
                  len(body)] + body)


def event_only(text):                    # table 43-3
    return header(0x1234, 0x03, [0x20, 0x00, 0x07, 0x03, 0x01, 0x02, 0x6f,
                                 0x00, 0x00, 0x00, 0x00]
                  + bcd_plus_id_string(text))


def fru_locator(text):                   # table 43-7
    return header(0x0002, 0x11, [0x20, 0x01, 0x80, 0x00, 0x00, 0x10, 0x02,
                                 0xc2, 0x61, 0x00] + bcd_plus_id_string(text))


def compact(text):                       # table 43-2
    return header(0x00d3, 0x02, [0x82, 0x00, 0xd3, 0xc1, 0x64, 0x03, 0x40,
                                 0x21, 0x6f] + [0] * 6 + [0xc0, 0, 0] +
                  [1, 0, 0, 0, 0, 0, 0, 0] + bcd_plus_id_string(text))


failures = 0
for name, build, text in (
        ('event-only  (43-3)', event_only, '12:30:00'),
        ('FRU locator (43-7)', fru_locator, '000_1,2 '),
        ('compact     (43-2)', compact, '10.0.0.1:623')):
    data = build(text)
    try:
        got = SdrCommon.from_data(data).device_id_string
    except Exception as e:               # noqa: E722
        got = '%s(%s)' % (type(e).__name__, e)
    ok = got == text
    failures += not ok
    print('%s  record %s' % (name, data.hex()))
    print('    expected device_id_string %r, got %s  -> %s'
          % (text, got if not ok else repr(got), 'ok' if ok else 'VIOLATION'))

# control: the same records with only 0-9, space, '-', '.' parse fine
ctl = SdrCommon.from_data(event_only('12.30-00')).device_id_string
print('control "12.30-00" ->', repr(ctl))
assert ctl == '12.30-00'

sys.exit(1 if failures else 0)
