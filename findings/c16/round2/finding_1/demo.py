"""C16 finding 1: SdrFruDeviceLocator.logical_physical is the whole key byte 8
(logical/physical bit + access LUN + private bus id), not the logical/physical
flag.

Run:  cd /tmp/hunt2_c16 && /venv/bin/python -B _hunt/finding_1/demo.py
"""
import os
import sys

sys.path.insert(0, os.getcwd())

from pyipmi.sdr import SdrCommon, SdrFruDeviceLocator  # noqa: E402


def encode_fru_device_locator(record_id, access_addr7, fru_device_id,
                              logical, access_lun, private_bus_id, channel,
                              device_type, device_type_modifier,
                              entity_id, entity_instance, oem, id_ascii):
    """IPMI v2.0 table 43-7, written from the specification."""
    body = [
        (access_addr7 << 1) & 0xfe,        # byte 6  [7:1] device access address
        fru_device_id,                     # byte 7  FRU device id (logical)
        ((logical & 1) << 7)               # byte 8  [7] logical/physical
        | ((access_lun & 3) << 3)          # [4:3] LUN for Master Write-Read/FRU command
        | (private_bus_id & 7),            # [2:0] private bus id
        (channel & 0xf) << 4,              # byte 9  [7:4] channel number
        0x00,                              # byte 10 reserved
        device_type,                       # byte 11
        device_type_modifier,              # byte 12
        entity_id,                         # byte 13
        entity_instance,                   # byte 14
        oem,                               # byte 15
        0xc0 | len(id_ascii),              # byte 16 type/length: 8-bit ASCII
    ] + [ord(c) for c in id_ascii]
    return [record_id & 0xff, record_id >> 8, 0x51, 0x11, len(body)] + body


def main():
    bad = []
    n = 0
    for logical in (0, 1):
        for lun in range(4):
            for bus in range(8):
                n += 1
                data = encode_fru_device_locator(
                    0x0102, 0x50, 0x03, logical, lun, bus, 0x7,
                    0x10, 0x02, 0xc2, 0x61, 0x00, 'FRU')
                sdr = SdrCommon.from_data(data)
                assert isinstance(sdr, SdrFruDeviceLocator)
                # everything else of the record is right
                assert sdr.id == 0x0102
                assert sdr.device_access_address == 0x50
                assert sdr.fru_device_id == 0x03
                assert sdr.channel_number == 0x7
                assert (sdr.entity_id, sdr.entity_instance) == (0xc2, 0x61)
                assert sdr.device_id_string == 'FRU'
                if sdr.logical_physical != logical:
                    bad.append((logical, lun, bus, data, sdr.logical_physical))

    print('FRU device locator records (table 43-7), key byte 8 = '
          '[7] logical/physical, [4:3] access LUN, [2:0] private bus id')
    print('%d of %d well-formed records decode a wrong logical_physical' %
          (len(bad), n))
    for logical, lun, bus, data, got in bad[:6] + bad[-2:]:
        print('  logical=%d access_lun=%d private_bus_id=%d  record=[%s]' %
              (logical, lun, bus, ' '.join('%02x' % b for b in data)))
        print('      expected logical_physical = %d   got %d (0x%02x)' %
              (logical, got, got))

    # the consequence for a caller: a *physical* (non-intelligent) FRU device
    # on a private bus tests as logical
    data = encode_fru_device_locator(1, 0x50, 0xa0, 0, 0, 3, 0,
                                     0x08, 0x00, 7, 1, 0, 'SEEPROM')
    sdr = SdrCommon.from_data(data)
    print('physical SEEPROM on private bus 3: bool(logical_physical) = %s '
          '(expected False)' % bool(sdr.logical_physical))

    if bad:
        print('PROPERTY VIOLATED')
        return 1
    print('ok')
    return 0


if __name__ == '__main__':
    sys.exit(main())
