"""C16 finding 2: the channel number of the record key of full, compact and
event-only sensor records (key byte 7, bits [7:4]) is dropped; records with
different keys parse to identical objects.

Run:  cd /tmp/hunt2_c16 && /venv/bin/python -B _hunt/finding_2/demo.py
"""
import os
import sys

sys.path.insert(0, os.getcwd())

from pyipmi.sdr import SdrCommon  # noqa: E402


def key(owner_id, channel, owner_lun, number):
    """Record key bytes 6..8 of tables 43-1, 43-2 and 43-3."""
    return [owner_id,                                   # byte 6 sensor owner id
            ((channel & 0xf) << 4) | (owner_lun & 3),   # byte 7 [7:4] channel, [1:0] LUN
            number]                                     # byte 8 sensor number


def header(record_id, record_type, body):
    return [record_id & 0xff, record_id >> 8, 0x51, record_type, len(body)] + body


def id_string(s):
    return [0xc0 | len(s)] + [ord(c) for c in s]


def full(channel):          # table 43-1
    body = key(0x82, channel, 1, 0x21) + [
        0x03, 0x60,                 # entity id / instance
        0x7f, 0x68,                 # initialization, capabilities
        0x01, 0x01,                 # sensor type, event/reading type
        0x85, 0x7a, 0x85, 0x7a, 0x3f, 0x3f,   # masks
        0x80, 0x01, 0x00,           # units 1..3
        0x00,                       # linearization
        0x01, 0x00, 0x00, 0x00, 0x00, 0x00,   # M, tol, B, acc, acc exp, R/B exp
        0x07, 0x19, 0x28, 0x0a, 0x7f, 0x80,   # analog flags, nominal .. sensor min
        0x5a, 0x55, 0x50, 0x00, 0x05, 0x0a,   # thresholds
        0x02, 0x02,                 # hysteresis
        0x00, 0x00, 0x00]           # reserved, OEM
    return header(0x0011, 0x01, body + id_string('Temp CPU'))


def compact(channel):       # table 43-2
    body = key(0x82, channel, 1, 0x22) + [
        0x03, 0x60, 0x67, 0x40, 0x07, 0x6f,
        0x01, 0x00, 0x01, 0x00, 0x01, 0x00,
        0xc0, 0x00, 0x00, 0x00, 0x00, 0x00, 0x00,
        0x00, 0x00, 0x00, 0x00]
    return header(0x0012, 0x02, body + id_string('CPU Status'))


def event_only(channel):    # table 43-3
    body = key(0x82, channel, 1, 0x23) + [
        0x03, 0x60, 0x12, 0x6f, 0x00, 0x00, 0x00, 0x00]
    return header(0x0013, 0x03, body + id_string('Sys Event'))


def public_state(sdr):
    """Everything the parsed object says about the record, except the raw
    bytes it keeps in .data."""
    return dict((k, v) for k, v in vars(sdr).items() if k != 'data')


def main():
    violated = False
    for name, enc in (('full (43-1)', full), ('compact (43-2)', compact),
                      ('event-only (43-3)', event_only)):
        states = []
        for channel in range(16):
            sdr = SdrCommon.from_data(enc(channel))
            # the other two key fields are right
            assert sdr.owner_id == 0x82 and sdr.owner_lun == 1
            states.append(public_state(sdr))
        distinct = []
        for s in states:
            if s not in distinct:
                distinct.append(s)
        got = getattr(SdrCommon.from_data(enc(5)), 'channel_number',
                      '<no such attribute>')
        print('%-18s key byte 7 = 0x51 (channel 5, LUN 1): expected channel '
              'number 5, got %s' % (name, got))
        print('%-18s 16 records with 16 different keys (channel 0..15) -> %d '
              'distinct parse result(s)' % ('', len(distinct)))
        if len(distinct) != 16 or got != 5:
            violated = True

    a = SdrCommon.from_data(full(0))
    b = SdrCommon.from_data(full(7))
    print('full record, channel 0: [%s]' % ' '.join('%02x' % x for x in a.data[5:8]))
    print('full record, channel 7: [%s]' % ' '.join('%02x' % x for x in b.data[5:8]))
    print('decoded key (owner_id, owner_lun, number): %r vs %r' % (
        (a.owner_id, a.owner_lun, a.number),
        (b.owner_id, b.owner_lun, b.number)))

    if violated:
        print('PROPERTY VIOLATED')
        return 1
    print('ok')
    return 0


if __name__ == '__main__':
    sys.exit(main())
