#!/usr/bin/env python
"""C07 finding 5: get_sensor_reading() hands out the state bits of a response
that says "reading/state unavailable".

IPMI v2.0 section 35.14, Get Sensor Reading response:
    byte 2: sensor reading
    byte 3: [7] 0b = all event messages disabled from this sensor
            [6] 0b = sensor scanning disabled
            [5] 1b = reading/state unavailable (formerly "initial update in
                progress") ... "Software should use this bit to avoid getting
                an incorrect status while the first sensor update is in
                progress."
    byte 4: threshold comparison status / discrete states 0..7
            (threshold sensors: [7:6] reserved, returned as 1b)
    byte 5: discrete states 8..14, [7] reserved, returned as 1b
While bit 5 is set, bytes 2, 4 and 5 are leftovers (here: what the sensor
showed before it was re-armed), not the sensor's state.

Run:  cd /tmp/hunt_c07 && /venv/bin/python -B _hunt/finding_5/demo.py
"""
import os
import sys

sys.path.insert(0, os.getcwd())

import pyipmi                                                    # noqa: E402
from pyipmi.msgs import (encode_message, decode_message,         # noqa: E402
                         create_message)

CMD_REARM = 0x2a
CMD_GET_SENSOR_READING = 0x2d


class Sensor(object):
    def __init__(self, reading, status):
        self.reading = reading
        self.status = status          # threshold comparison status [5:0]
        self.available = True


class RefBmc(object):
    """(lun, sensor number) -> threshold sensor."""

    def __init__(self):
        self.sensors = {(0, 7): Sensor(0xf0, 0x38),   # above unc, ucr, unr
                        (1, 7): Sensor(0x40, 0x00)}

    def update(self):
        """the next scan of the sensors: everything is back to normal"""
        for s in self.sensors.values():
            s.reading, s.status, s.available = 0x40, 0x00, True

    def handle(self, netfn, cmd, lun, p):
        assert netfn == 0x04
        sensor = self.sensors[(lun, p[0])]
        if cmd == CMD_REARM:
            sensor.available = False          # until the next scan
            return b'\x00'
        if cmd == CMD_GET_SENSOR_READING:
            flags = 0xc0 | (0x00 if sensor.available else 0x20)
            return bytes([0x00, sensor.reading, flags,
                          0xc0 | sensor.status])
        return b'\xc1'


class FakeInterface(object):
    def __init__(self, bmc):
        self.bmc = bmc

    def send_and_receive(self, req):
        rx = self.bmc.handle(req.netfn, req.cmdid, req.lun,
                             bytes(encode_message(req)))
        rsp = create_message(req.netfn + 1, req.cmdid, req.group_extension)
        decode_message(rsp, rx)
        return rsp


def main():
    bmc = RefBmc()
    ipmi = pyipmi.create_connection(FakeInterface(bmc))
    ipmi.target = pyipmi.Target(0x20)
    bad = 0

    def check(what, got, expected):
        nonlocal bad
        ok = got == expected
        bad += not ok
        print('%-4s %s\n       expected %r\n       got      %r'
              % ('ok' if ok else 'FAIL', what, expected, got))

    check('sensor 7 LUN 0 (above all upper thresholds)',
          ipmi.get_sensor_reading(7), (0xf0, 0xc0 | 0x38))
    check('sensor 7 LUN 1 (normal)',
          ipmi.get_sensor_reading(7, lun=1), (0x40, 0xc0))

    ipmi.rearm_sensor_events(7)
    check('sensor 7 LUN 0 right after rearm_sensor_events(7): the BMC says '
          'reading/state unavailable',
          ipmi.get_sensor_reading(7), (None, None))

    bmc.update()
    check('sensor 7 LUN 0 after the next scan',
          ipmi.get_sensor_reading(7), (0x40, 0xc0))

    print('\n%d check(s) failed' % bad)
    return 1 if bad else 0


if __name__ == '__main__':
    sys.exit(main())
