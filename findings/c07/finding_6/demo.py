#!/usr/bin/env python
"""C07 finding 6: DeviceId.available is the negation of the BMC's state.

IPMI v2.0 section 20.1, Get Device ID response byte 4 (Firmware Revision 1):
    [7] Device available: 0 = normal operation,
                          1 = device firmware, SDR Repository update or
                              self-initialization in progress
    [6:0] major firmware revision
(ipmitool: 'Device Available : %s', (fw_rev1 & 0x80) ? "no" : "yes".)

Run:  cd /tmp/hunt_c07 && /venv/bin/python -B _hunt/finding_6/demo.py
"""
import os
import sys

sys.path.insert(0, os.getcwd())

import pyipmi                                                    # noqa: E402
from pyipmi.msgs import (encode_message, decode_message,         # noqa: E402
                         create_message)


class RefBmc(object):
    def __init__(self):
        self.update_in_progress = False

    def handle(self, netfn, cmd, payload):
        assert (netfn, cmd) == (0x06, 0x01) and payload == b''
        fw1 = 0x05 | (0x80 if self.update_in_progress else 0x00)
        return bytes([0x00,               # completion code
                      0x12,               # device id
                      0x81,               # provides SDRs, device revision 1
                      fw1, 0x67,          # firmware 5.67
                      0x02,               # IPMI 2.0
                      0xbf,               # additional device support
                      0x57, 0x01, 0x00,   # manufacturer 343
                      0x34, 0x12])        # product 0x1234


class FakeInterface(object):
    def __init__(self, bmc):
        self.bmc = bmc

    def send_and_receive(self, req):
        rx = self.bmc.handle(req.netfn, req.cmdid, bytes(encode_message(req)))
        rsp = create_message(req.netfn + 1, req.cmdid, req.group_extension)
        decode_message(rsp, rx)
        return rsp


def main():
    bmc = RefBmc()
    ipmi = pyipmi.create_connection(FakeInterface(bmc))
    ipmi.target = pyipmi.Target(0x20)
    bad = 0
    for in_progress in (False, True):
        bmc.update_in_progress = in_progress
        dev = ipmi.get_device_id()
        expected = not in_progress
        ok = dev.available == expected and str(dev.fw_revision) == '5.67'
        print('%-4s BMC %s: get_device_id().available = %r (expected %r); '
              'str(): %s'
              % ('ok' if ok else 'FAIL',
                 'firmware/SDR update or self-initialization in progress'
                 if in_progress else 'in normal operation',
                 dev.available, expected, dev))
        bad += not ok
    print('\n%d check(s) failed' % bad)
    return 1 if bad else 0


if __name__ == '__main__':
    sys.exit(main())
