#!/usr/bin/env python
"""C07 finding 1: set_event_receiver / get_event_receiver do not carry the
Event Receiver Slave Address byte of IPMI v2.0 section 29.1 / 29.2.

    Set Event Receiver request  byte 1: Event Receiver Slave Address.
        0FFh disables Event Message Generation, otherwise
        [7:1] IPMB (I2C) slave address, [0] always 0b
    byte 2: [7:2] reserved, [1:0] Event Receiver LUN
    Get Event Receiver response bytes 2,3: the same two bytes.

The reference BMC below stores/returns these two bytes and nothing else.
Run:  cd /tmp/hunt_c07 && /venv/bin/python -B _hunt/finding_1/demo.py
"""
import os
import sys

sys.path.insert(0, os.getcwd())

import pyipmi                                                    # noqa: E402
from pyipmi.msgs import (encode_message, decode_message,         # noqa: E402
                         create_message)

NETFN_SE = 0x04
CMD_SET_EVENT_RECEIVER = 0x00
CMD_GET_EVENT_RECEIVER = 0x01


class RefBmc(object):
    """Independent model: the event receiver is (slave address byte, lun)."""

    def __init__(self):
        self.receiver = (0xFF, 0)          # power-on default: disabled

    def handle(self, netfn, cmd, payload):
        if (netfn, cmd) == (NETFN_SE, CMD_SET_EVENT_RECEIVER):
            assert len(payload) == 2
            self.receiver = (payload[0], payload[1] & 0x03)
            return b'\x00'
        if (netfn, cmd) == (NETFN_SE, CMD_GET_EVENT_RECEIVER):
            assert len(payload) == 0
            return bytes([0x00, self.receiver[0], self.receiver[1]])
        return b'\xc1'


class FakeInterface(object):
    """Same three steps as pyipmi.interfaces.rmcp.Rmcp.send_and_receive."""

    def __init__(self, bmc):
        self.bmc = bmc

    def send_and_receive(self, req):
        rx = self.bmc.handle(req.netfn, req.cmdid, bytes(encode_message(req)))
        rsp = create_message(req.netfn + 1, req.cmdid, req.group_extension)
        decode_message(rsp, rx)
        return rsp


def main():
    bmc = RefBmc()
    ipmi = pyipmi.create_connection(FakeInterface(bmc))
    ipmi.target = pyipmi.Target(0x20)
    bad = 0

    def check(what, got, expected):
        nonlocal bad
        ok = got == expected
        bad += 0 if ok else 1
        print('%-4s %s\n       expected %s\n       got      %s'
              % ('ok' if ok else 'FAIL', what, expected, got))

    # (a) read: a BMC whose event generation is disabled (0xFF) and a BMC
    #     whose receiver is the device at slave address 0xFE give the same
    #     result, and neither result is the BMC's state.
    bmc.receiver = (0xFF, 0)
    r_disabled = ipmi.get_event_receiver()
    check('get_event_receiver(), BMC state: disabled (FFh), LUN 0',
          r_disabled, (0xFF, 0))
    bmc.receiver = (0xFE, 0)
    r_fe = ipmi.get_event_receiver()
    check('two different BMC states (FFh, FEh) give different results',
          r_disabled != r_fe, True)

    # (b) read: receiver is the BMC at IPMB address 20h (the usual setting)
    bmc.receiver = (0x20, 0)
    check('get_event_receiver(), BMC state: receiver 20h, LUN 0',
          ipmi.get_event_receiver(), (0x20, 0))

    # (c) write: the addresses pyipmi uses everywhere else (Target(0x20),
    #     Target(0x82), ...) and the one of tests/test_event.py (0xb0)
    for addr, lun in ((0x20, 0), (0xb0, 1), (0xFF, 0)):
        ipmi.set_event_receiver(addr, lun)
        check('set_event_receiver(0x%02x, %d): slave address byte in the BMC'
              % (addr, lun), '0x%02x lun %d' % bmc.receiver,
              '0x%02x lun %d' % (addr, lun))
        check('set_event_receiver(0x%02x, %d) then get_event_receiver()'
              % (addr, lun), ipmi.get_event_receiver(), (addr, lun))

    print('\n%d check(s) failed' % bad)
    return 1 if bad else 0


if __name__ == '__main__':
    sys.exit(main())
