#!/usr/bin/env python
"""C07 finding 2: set_fan_level(fru_id, fan_level) sends a fourth request
byte ("extra_byte", always 00h) that no argument of the call denotes.

PICMG 3.0 "Set Fan Level" (NetFn 2Ch, cmd 15h) request:
    byte 1  PICMG identifier (00h)
    byte 2  FRU device id
    byte 3  fan level
   [byte 4  local control enable state, 00h = disabled, 01h = enabled;
            optional, PICMG 3.0 R3.0 only]
A controller that implements the R1.0/R2.0 command (three bytes) answers the
four byte request with C7h (request data length invalid); a controller that
implements the R3.0 command executes it and *disables local control* of the
fan tray - a state change the caller did not ask for.

Run:  cd /tmp/hunt2_c07 && /venv/bin/python -B _hunt/finding_2/demo.py
"""
import os
import sys

sys.path.insert(0, os.path.join(os.path.dirname(os.path.abspath(__file__)),
                                '..', '..'))

import pyipmi                                               # noqa: E402
from pyipmi.errors import CompletionCodeError               # noqa: E402
from pyipmi.msgs import (encode_message, decode_message,    # noqa: E402
                         create_message)


class ReferenceFanTray(object):
    """Fan tray IPMC, written from the PICMG 3.0 Set/Get Fan Level tables."""

    def __init__(self, revision):
        self.revision = revision            # 2 -> R2.0, 3 -> R3.0
        # per FRU: [override level, local control level, local ctl enabled]
        self.fans = {3: [0xff, 4, True]}
        self.requests = []

    def handle(self, netfn, cmd, data):
        self.requests.append(data)
        assert netfn == 0x2c and data[0] == 0x00
        if cmd == 0x15:     # Set Fan Level
            if self.revision < 3:
                if len(data) != 3:
                    return bytes([0xc7])
            elif len(data) not in (3, 4):
                return bytes([0xc7])
            fan = self.fans.get(data[1])
            if fan is None:
                return bytes([0xcb])
            fan[0] = data[2]
            if len(data) == 4:
                if data[3] > 1:
                    return bytes([0xcc])
                fan[2] = bool(data[3])
            return bytes([0x00, 0x00])
        if cmd == 0x16:     # Get Fan Level
            fan = self.fans.get(data[1])
            if fan is None:
                return bytes([0xcb])
            rsp = [0x00, 0x00, fan[0], fan[1]]
            if self.revision >= 3:
                rsp.append(1 if fan[2] else 0)
            return bytes(rsp)
        return bytes([0xc1])


class Interface(object):
    def __init__(self, bmc):
        self.bmc = bmc

    def send_and_receive(self, req):
        rsp_data = self.bmc.handle(req.netfn, req.cmdid,
                                   bytes(encode_message(req)))
        rsp = create_message(req.netfn + 1, req.cmdid, req.group_extension)
        decode_message(rsp, rsp_data)
        return rsp


def main():
    violations = 0
    fru_id, level = 3, 9
    expected_request = bytes([0x00, fru_id, level])

    for revision in (2, 3):
        bmc = ReferenceFanTray(revision)
        ipmi = pyipmi.Ipmi(interface=Interface(bmc),
                           target=pyipmi.Target(0x20))
        before = list(bmc.fans[fru_id])
        # what the call denotes: override level := 9, nothing else
        expected_state = [level, before[1], before[2]]
        try:
            ipmi.set_fan_level(fru_id, level)
            outcome = 'ok'
        except CompletionCodeError as e:
            outcome = 'CompletionCodeError cc=0x%02x' % e.cc
        got_request = bmc.requests[-1]
        got_state = bmc.fans[fru_id]

        print('PICMG 3.0 R%d.0 fan tray: set_fan_level(fru_id=%d, '
              'fan_level=%d) -> %s' % (revision, fru_id, level, outcome))
        print('    request data  expected %s   got %s'
              % (expected_request.hex(), got_request.hex()))
        print('    [override, local level, local control enabled]\n'
              '        before   %s\n        expected %s\n        got      %s'
              % (before, expected_state, got_state))
        if outcome != 'ok' or got_state != expected_state \
                or got_request != expected_request:
            print('    VIOLATION')
            violations += 1
        if outcome == 'ok':
            print('    get_fan_level(%d) = %s'
                  % (fru_id, (ipmi.get_fan_level(fru_id),)))

    if violations:
        print('%d violations' % violations)
        return 1
    print('no violation')
    return 0


if __name__ == '__main__':
    sys.exit(main())
