#!/usr/bin/env python
"""C07 finding 1: the HPM.1 component description string is decoded with
raw_unicode_escape, so a description that contains a backslash-u is returned
altered or the query ends in UnicodeDecodeError.

Run:  cd /tmp/hunt2_c07 && /venv/bin/python -B _hunt/finding_1/demo.py
"""
import os
import sys

sys.path.insert(0, os.path.join(os.path.dirname(os.path.abspath(__file__)),
                                '..', '..'))

import pyipmi                                               # noqa: E402
from pyipmi.msgs import (encode_message, decode_message,    # noqa: E402
                         create_message)
from pyipmi.hpm import PROPERTY_DESCRIPTION_STRING          # noqa: E402


class ReferenceIpmc(object):
    """HPM.1 IPM controller, written from HPM.1 R1.0 tables 3-3 and 3-5.

    state: description string of each component (printable ASCII, the
    response carries it in a fixed 12 byte field padded with 00h).
    """

    def __init__(self, descriptions):
        self.descriptions = descriptions        # {component id: bytes}

    def handle(self, netfn, cmd, data):
        assert netfn == 0x2c and data[0] == 0x00     # PICMG group extension
        if cmd == 0x2e:     # Get target upgrade capabilities
            present = 0
            for c in self.descriptions:
                present |= 1 << c
            return bytes([0x00, 0x00, 0x00, 0x00, 5, 5, 5, 5, present])
        if cmd == 0x2f:     # Get component properties
            component, selector = data[1], data[2]
            if component not in self.descriptions:
                return bytes([0x82])
            if selector != 2:
                return bytes([0x83])
            return bytes([0x00, 0x00]) \
                + self.descriptions[component].ljust(12, b'\x00')
        return bytes([0xc1])


class Interface(object):
    def __init__(self, bmc):
        self.bmc = bmc

    def send_and_receive(self, req):
        rsp_data = self.bmc.handle(req.netfn, req.cmdid,
                                   bytes(encode_message(req)))
        rsp = create_message(req.netfn + 1, req.cmdid, req.group_extension)
        decode_message(rsp, rsp_data)
        return rsp


def main():
    descriptions = {
        0: b'IPMC',
        1: b'fw\\update',        # f w \ u p d a t e
        2: b'A\\u0042C',         # A \ u 0 0 4 2 C
    }
    ipmi = pyipmi.Ipmi(interface=Interface(ReferenceIpmc(descriptions)),
                       target=pyipmi.Target(0x20))
    violations = 0

    for component, raw in sorted(descriptions.items()):
        expected = raw.decode('ascii')
        try:
            got = ipmi.get_component_property(
                component, PROPERTY_DESCRIPTION_STRING).description
        except Exception as e:      # noqa
            got = '%s: %s' % (type(e).__name__, e)
        ok = got == expected
        print('get_component_property(%d, DESCRIPTION_STRING): BMC holds %r'
              % (component, expected))
        print('    expected %r\n    got      %r   %s'
              % (expected, got, 'ok' if ok else 'VIOLATION'))
        violations += 0 if ok else 1

    # the look-up by description, built on the same decoder
    for component, raw in sorted(descriptions.items()):
        name = raw.decode('ascii')
        ipmi2 = pyipmi.Ipmi(
            interface=Interface(ReferenceIpmc({component: raw})),
            target=pyipmi.Target(0x20))
        try:
            got = ipmi2.find_component_id_by_descriptor(name)
        except Exception as e:      # noqa
            got = '%s: %s' % (type(e).__name__, e)
        ok = got == component
        print('find_component_id_by_descriptor(%r): expected %r got %r   %s'
              % (name, component, got, 'ok' if ok else 'VIOLATION'))
        violations += 0 if ok else 1

    if violations:
        print('%d violations' % violations)
        return 1
    print('no violation')
    return 0


if __name__ == '__main__':
    sys.exit(main())
