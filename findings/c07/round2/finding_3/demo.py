#!/usr/bin/env python
"""C07 finding 3: the OEM link types the library itself exports
(LinkDescriptor.TYPE_OEM0..TYPE_OEM3 = F0h..F3h) cannot be written with
set_port_state nor recognised in the result of get_port_state.

PICMG 3.0 link descriptor (Set/Get Port State "Link Info", LS byte first):
    [31:24] link grouping id   [23:20] link type extension
    [19:12] link type          [11:8]  port flags
    [7:6]   interface          [5:0]   channel
Link type is an EIGHT bit field: 01h base, 02h..05h fabric types,
F0h..FEh "E-Keying OEM GUID definition".  PICMG 3.1 R2.0 uses its upper
nibble as signalling class for the Ethernet fabric types (e.g. 32h =
class 3, Ethernet), which is how the library models it: 'type' is bits
[15:12] and 'sig_class' bits [19:16].  A value F0h put into the four bit
'type' is cut to 0h.

Run:  cd /tmp/hunt2_c07 && /venv/bin/python -B _hunt/finding_3/demo.py
"""
import os
import sys

sys.path.insert(0, os.path.join(os.path.dirname(os.path.abspath(__file__)),
                                '..', '..'))

import pyipmi                                               # noqa: E402
from pyipmi.errors import CompletionCodeError               # noqa: E402
from pyipmi.picmg import LinkDescriptor                     # noqa: E402
from pyipmi.msgs import (encode_message, decode_message,    # noqa: E402
                         create_message)


def pack_link(channel, interface, ports, link_type, extension, grouping):
    word = (channel & 0x3f) | (interface & 3) << 6 | (ports & 0xf) << 8 \
        | (link_type & 0xff) << 12 | (extension & 0xf) << 20 \
        | (grouping & 0xff) << 24
    return bytes([(word >> (8 * i)) & 0xff for i in range(4)])


def unpack_link(data):
    word = data[0] | data[1] << 8 | data[2] << 16 | data[3] << 24
    return dict(channel=word & 0x3f, interface=word >> 6 & 3,
                ports=word >> 8 & 0xf, link_type=word >> 12 & 0xff,
                extension=word >> 20 & 0xf, grouping=word >> 24 & 0xff)


class ReferenceIpmc(object):
    """Front board IPMC, from the PICMG 3.0 Set/Get Port State tables.

    state: the links of the board's point-to-point connectivity record and
    whether each is enabled.
    """

    def __init__(self, links):
        self.links = [dict(l, enabled=False) for l in links]
        self.requests = []

    def handle(self, netfn, cmd, data):
        self.requests.append(data)
        assert netfn == 0x2c and data[0] == 0x00
        if cmd == 0x0e:     # Set Port State
            if len(data) != 6:
                return bytes([0xc7])
            want = unpack_link(data[1:5])
            for link in self.links:
                if all(link[k] == v for k, v in want.items()):
                    link['enabled'] = bool(data[5] & 1)
                    return bytes([0x00, 0x00])
            return bytes([0xcc])        # no such link on this board
        if cmd == 0x0f:     # Get Port State
            rsp = [0x00, 0x00]
            for link in self.links:
                if link['channel'] == data[1] & 0x3f \
                        and link['interface'] == data[1] >> 6:
                    rsp += list(pack_link(
                        link['channel'], link['interface'], link['ports'],
                        link['link_type'], link['extension'],
                        link['grouping']))
                    rsp.append(1 if link['enabled'] else 0)
            return bytes(rsp)
        return bytes([0xc1])


class Interface(object):
    def __init__(self, bmc):
        self.bmc = bmc

    def send_and_receive(self, req):
        rsp_data = self.bmc.handle(req.netfn, req.cmdid,
                                   bytes(encode_message(req)))
        rsp = create_message(req.netfn + 1, req.cmdid, req.group_extension)
        decode_message(rsp, rsp_data)
        return rsp


def main():
    violations = 0
    # fabric channel 5, ports 0-3, link type F0h = first OEM GUID of the
    # board's connectivity record, link type extension 1
    oem_link = dict(channel=5, interface=1, ports=0xf, link_type=0xf0,
                    extension=1, grouping=0x77)
    bmc = ReferenceIpmc([oem_link])
    ipmi = pyipmi.Ipmi(interface=Interface(bmc), target=pyipmi.Target(0x82))

    # --- write -----------------------------------------------------------
    link = LinkDescriptor()
    link.channel = 5
    link.interface = LinkDescriptor.INTERFACE_FABRIC
    link.link_flags = LinkDescriptor.FLAGS_LANE0123
    link.type = LinkDescriptor.TYPE_OEM0
    link.sig_class = 0
    link.extension = 1
    link.grouping_id = 0x77
    expected_request = bytes([0x00]) + pack_link(5, 1, 0xf, 0xf0, 1, 0x77) \
        + bytes([0x01])
    try:
        ipmi.set_port_state(link, LinkDescriptor.STATE_ENABLE)
        outcome = 'ok'
    except CompletionCodeError as e:
        outcome = 'CompletionCodeError cc=0x%02x' % e.cc
    got_request = bmc.requests[-1]
    print('set_port_state(LinkDescriptor(channel=5, interface=FABRIC, '
          'link_flags=LANE0123,\n        type=TYPE_OEM0 (0x%02x), sig_class=0,'
          ' extension=1, grouping_id=0x77), STATE_ENABLE) -> %s'
          % (LinkDescriptor.TYPE_OEM0, outcome))
    print('    request data expected %s (link type %02xh)\n'
          '                 got      %s (link type %02xh)'
          % (expected_request.hex(), 0xf0, got_request.hex(),
             unpack_link(got_request[1:5])['link_type']))
    print('    link enabled on the BMC: expected True got %s'
          % bmc.links[0]['enabled'])
    if outcome != 'ok' or not bmc.links[0]['enabled']:
        print('    VIOLATION')
        violations += 1

    # --- read ------------------------------------------------------------
    (got, state) = ipmi.get_port_state(5, LinkDescriptor.INTERFACE_FABRIC)
    print('get_port_state(5, FABRIC): BMC holds link type F0h (OEM GUID 0)')
    print('    expected link.type == LinkDescriptor.TYPE_OEM0 (0x%02x)\n'
          '    got      link.type = 0x%02x, link.sig_class = 0x%x'
          % (LinkDescriptor.TYPE_OEM0, got.type, got.sig_class))
    if got.type != LinkDescriptor.TYPE_OEM0:
        print('    VIOLATION')
        violations += 1

    if violations:
        print('%d violations' % violations)
        return 1
    print('no violation')
    return 0


if __name__ == '__main__':
    sys.exit(main())
