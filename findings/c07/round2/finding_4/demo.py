#!/usr/bin/env python
"""C07 finding 4: get_sensor_reading reports the reserved bit of the second
state byte as an asserted state.

IPMI v2.0 table 35-15, Get Sensor Reading response
    byte 4  discrete sensors: [7:0] state 7..0 asserted
    byte 5  (discrete reading sensors only)
            [7]   reserved. Returned as 1b. Ignore on read.
            [6:0] state 14..8 asserted
A sensor has the fifteen states 0..14.  The library returns
states1 | states2 << 8, i.e. bit 15 of the result is 1 for every conforming
BMC and every discrete sensor, whatever the sensor's state.

Run:  cd /tmp/hunt2_c07 && /venv/bin/python -B _hunt/finding_4/demo.py
"""
import os
import sys

sys.path.insert(0, os.path.join(os.path.dirname(os.path.abspath(__file__)),
                                '..', '..'))

import pyipmi                                               # noqa: E402
from pyipmi.msgs import (encode_message, decode_message,    # noqa: E402
                         create_message)


class ReferenceBmc(object):
    """Sensor device, from IPMI v2.0 table 35-15.

    state: per (lun, sensor number) the reading byte and the set of asserted
    states (offsets 0..14) of a discrete sensor.
    """

    def __init__(self, sensors):
        self.sensors = sensors

    def handle(self, netfn, lun, cmd, data):
        if netfn == 0x04 and cmd == 0x2d:       # Get Sensor Reading
            if len(data) != 1:
                return bytes([0xc7])
            sensor = self.sensors.get((lun, data[0]))
            if sensor is None:
                return bytes([0xcb])
            reading, asserted = sensor
            mask = 0
            for offset in asserted:
                assert 0 <= offset <= 14
                mask |= 1 << offset
            return bytes([0x00, reading,
                          0xc0,                     # events + scanning on
                          mask & 0xff,
                          0x80 | mask >> 8])        # [7] returned as 1b
        return bytes([0xc1])


class Interface(object):
    def __init__(self, bmc):
        self.bmc = bmc

    def send_and_receive(self, req):
        rsp_data = self.bmc.handle(req.netfn, req.lun, req.cmdid,
                                   bytes(encode_message(req)))
        rsp = create_message(req.netfn + 1, req.cmdid, req.group_extension)
        decode_message(rsp, rsp_data)
        return rsp


def main():
    sensors = {
        (0, 5): (0x00, set()),          # nothing asserted
        (0, 6): (0x00, {0, 9}),
        (1, 5): (0x12, {14}),
    }
    ipmi = pyipmi.Ipmi(interface=Interface(ReferenceBmc(sensors)),
                       target=pyipmi.Target(0x20))
    violations = 0
    for (lun, number), (reading, asserted) in sorted(sensors.items()):
        expected = (reading, sum(1 << o for o in asserted))
        got = ipmi.get_sensor_reading(number, lun=lun)
        got_set = sorted(o for o in range(got[1].bit_length())
                         if got[1] >> o & 1)
        ok = got == expected
        print('get_sensor_reading(%d, lun=%d): BMC holds reading 0x%02x, '
              'asserted states %s' % (number, lun, reading, sorted(asserted)))
        print('    expected (0x%02x, 0x%04x)\n    got      (0x%02x, 0x%04x)'
              ' = states %s   %s'
              % (expected[0], expected[1], got[0], got[1], got_set,
                 'ok' if ok else 'VIOLATION'))
        violations += 0 if ok else 1

    if violations:
        print('%d violations' % violations)
        return 1
    print('no violation')
    return 0


if __name__ == '__main__':
    sys.exit(main())
