#!/usr/bin/env python
"""C07 finding 4: Hpm.query_rollback_status() throws the BMC's answer away.

PICMG HPM.1 R1.0, Query Rollback Status (NetFn 2Ch, cmd 37h):
    request  byte 1: PICMG identifier (00h)
    response byte 1: completion code (00h rollback finished / nothing pending,
                     80h in progress, 81h failure, ...)
             byte 2: PICMG identifier
             byte 3: Rollback status - bit n = 1b: component n was rolled back
(ipmitool's ipmi_hpmfwupg.c reads the same byte as 'rollbackComp' and prints
"Rollback occurred on component mask: 0x%02x".)

Run:  cd /tmp/hunt_c07 && /venv/bin/python -B _hunt/finding_4/demo.py
"""
import os
import sys

sys.path.insert(0, os.getcwd())

import pyipmi                                                    # noqa: E402
from pyipmi.msgs import (encode_message, decode_message,         # noqa: E402
                         create_message)


class RefBmc(object):
    def __init__(self):
        self.rolled_back_components = 0x00

    def handle(self, netfn, cmd, payload):
        assert (netfn, cmd) == (0x2c, 0x37) and payload == b'\x00'
        return bytes([0x00, 0x00, self.rolled_back_components])


class FakeInterface(object):
    def __init__(self, bmc):
        self.bmc = bmc

    def send_and_receive(self, req):
        rx = self.bmc.handle(req.netfn, req.cmdid, bytes(encode_message(req)))
        rsp = create_message(req.netfn + 1, req.cmdid, req.group_extension)
        decode_message(rsp, rx)
        return rsp


def main():
    bmc = RefBmc()
    ipmi = pyipmi.create_connection(FakeInterface(bmc))
    ipmi.target = pyipmi.Target(0x20)
    bad = 0

    results = []
    for mask in (0x00, 0x01, 0x05, 0xff):
        bmc.rolled_back_components = mask
        status = ipmi.query_rollback_status()
        content = dict(vars(status))
        results.append(content)
        ok = mask in content.values()
        print('%-4s BMC rolled back component mask 0x%02x: '
              'query_rollback_status() -> %s with attributes %r'
              % ('ok' if ok else 'FAIL', mask, type(status).__name__, content))
        bad += not ok

    distinct = len(set(repr(sorted(r.items())) for r in results))
    ok = distinct == len(results)
    print('%-4s four different BMC states give four different results '
          '(got %d distinct)' % ('ok' if ok else 'FAIL', distinct))
    bad += not ok

    print('\n%d check(s) failed' % bad)
    return 1 if bad else 0


if __name__ == '__main__':
    sys.exit(main())
