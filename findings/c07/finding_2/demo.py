#!/usr/bin/env python
"""C07 finding 2: Lan.get_lan_config_param(channel, ..., revision_only=1)
addresses channel 0 instead of the requested channel and does not return the
parameter revision.

IPMI v2.0 section 23.2, Get LAN Configuration Parameters:
    request  byte 1: [7] 1b = get parameter revision only
                     [6:4] reserved, [3:0] channel number
             byte 2: parameter selector, byte 3: set selector,
             byte 4: block selector
    response byte 1: completion code
             byte 2: parameter revision (MSN present, LSN oldest compatible;
                     11h for this specification)
             byte 3..N: parameter data - not returned when the 'get parameter
                     revision only' bit is 1b
A BMC answers CCh (invalid data field) for a channel that is not a LAN
channel.  Channel 0 is the primary IPMB (IPMI v2.0 table 6-1), so it never is.

Run:  cd /tmp/hunt_c07 && /venv/bin/python -B _hunt/finding_2/demo.py
"""
import os
import sys

sys.path.insert(0, os.getcwd())

import pyipmi                                                    # noqa: E402
from pyipmi.errors import CompletionCodeError                    # noqa: E402
from pyipmi.msgs import (encode_message, decode_message,         # noqa: E402
                         create_message)

NETFN_TRANSPORT = 0x0c
CMD_GET_LAN_CONFIG = 0x02


class RefBmc(object):
    """Two LAN channels with their own parameter sets, revision 11h."""

    def __init__(self):
        self.revision = 0x11
        self.lan = {
            1: {3: bytes([10, 0, 0, 1])},
            2: {3: bytes([192, 168, 7, 9])},
        }
        self.seen = []

    def handle(self, netfn, cmd, payload):
        assert (netfn, cmd) == (NETFN_TRANSPORT, CMD_GET_LAN_CONFIG)
        assert len(payload) == 4
        rev_only = payload[0] >> 7
        channel = payload[0] & 0x0f
        selector = payload[1]
        self.seen.append((channel, rev_only, selector))
        if channel not in self.lan:
            return b'\xcc'
        if rev_only:
            return bytes([0x00, self.revision])
        if selector not in self.lan[channel]:
            return b'\x80'
        return bytes([0x00, self.revision]) + self.lan[channel][selector]


class FakeInterface(object):
    def __init__(self, bmc):
        self.bmc = bmc

    def send_and_receive(self, req):
        rx = self.bmc.handle(req.netfn, req.cmdid, bytes(encode_message(req)))
        rsp = create_message(req.netfn + 1, req.cmdid, req.group_extension)
        decode_message(rsp, rx)
        return rsp


def main():
    bmc = RefBmc()
    ipmi = pyipmi.create_connection(FakeInterface(bmc))
    ipmi.target = pyipmi.Target(0x20)
    bad = 0

    # control: the normal read addresses the channel
    for ch in (1, 2):
        got = list(ipmi.get_lan_config_param(channel=ch, parameter_selector=3))
        exp = list(bmc.lan[ch][3])
        print('%-4s get_lan_config_param(channel=%d, parameter_selector=3) '
              '-> %s (expected %s)' % ('ok' if got == exp else 'FAIL', ch,
                                       got, exp))
        bad += got != exp

    for ch in (1, 2):
        del bmc.seen[:]
        try:
            got = ipmi.get_lan_config_param(channel=ch, parameter_selector=3,
                                            revision_only=1)
        except CompletionCodeError as e:
            got = 'CompletionCodeError cc=0x%02x' % e.cc
        (seen_ch, seen_rev, _), = bmc.seen
        ok_ch = seen_ch == ch
        print('%-4s get_lan_config_param(channel=%d, ..., revision_only=1): '
              'channel in request byte 1 = %d (expected %d)'
              % ('ok' if ok_ch else 'FAIL', ch, seen_ch, ch))
        bad += not ok_ch
        ok_val = got == bmc.revision
        print('%-4s   result %r (expected the parameter revision 0x%02x)'
              % ('ok' if ok_val else 'FAIL', got, bmc.revision))
        bad += not ok_val

    # even when channel 0 answers (a BMC model that accepts any channel)
    bmc.lan[0] = {3: bytes(4)}
    got = ipmi.get_lan_config_param(channel=0, revision_only=1)
    ok = got == bmc.revision
    print('%-4s get_lan_config_param(channel=0, revision_only=1) on a BMC '
          'that accepts channel 0 -> %r (expected 0x%02x)'
          % ('ok' if ok else 'FAIL', got, bmc.revision))
    bad += not ok

    print('\n%d check(s) failed' % bad)
    return 1 if bad else 0


if __name__ == '__main__':
    sys.exit(main())
