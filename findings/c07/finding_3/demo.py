#!/usr/bin/env python
"""C07 finding 3: LedState carries the blink / lamp-test durations in two
different units - get_led_state() returns milliseconds, set_led_state() takes
the raw PICMG byte (tens / hundreds of milliseconds) from the *same*
attributes.  Writing back what was read changes the LED ten-fold or raises.

PICMG 3.0 R3.0, Set FRU LED State (table 3-30), request data after the PICMG
identifier: FRU id, LED id,
    LED function   00h off, 01h..FAh blink: off-duration in tens of ms,
                   FBh lamp test, FCh restore local control, FFh on
    on-duration    blink: on-time in tens of ms; lamp test: hundreds of ms
    colour
Get FRU LED State (table 3-31), response after the PICMG identifier:
    LED states     [0] local control state, [1] override, [2] lamp test
    local function, local on-duration, local colour
    override function, override on-duration, override colour  (if [1] or [2])
    lamp test duration in hundreds of ms                      (if [2])

Run:  cd /tmp/hunt_c07 && /venv/bin/python -B _hunt/finding_3/demo.py
"""
import os
import sys

sys.path.insert(0, os.getcwd())

import pyipmi                                                    # noqa: E402
from pyipmi.errors import EncodingError                          # noqa: E402
from pyipmi.picmg import LedState                                # noqa: E402
from pyipmi.msgs import (encode_message, decode_message,         # noqa: E402
                         create_message)

NETFN_GRPEXT = 0x2c
CMD_SET_FRU_LED_STATE = 0x07
CMD_GET_FRU_LED_STATE = 0x08


class Led(object):
    def __init__(self):
        self.override = None       # (function byte, on byte, colour)
        self.lamp_test = None      # duration byte (hundreds of ms)

    def describe(self):
        if self.lamp_test is not None:
            return 'lamp test %d ms' % (self.lamp_test * 100)
        f, on, colour = self.override
        if f == 0x00:
            return 'override off'
        if f == 0xff:
            return 'override on colour %d' % colour
        return 'override blinking off %d ms / on %d ms colour %d' % (
            f * 10, on * 10, colour)


class RefBmc(object):
    def __init__(self):
        self.leds = {}

    def handle(self, netfn, cmd, p):
        assert netfn == NETFN_GRPEXT and p[0] == 0x00
        if cmd == CMD_SET_FRU_LED_STATE:
            assert len(p) == 6
            led = self.leds.setdefault((p[1], p[2]), Led())
            function, on, colour = p[3], p[4], p[5]
            if function == 0xfb:
                if on >= 128:
                    return b'\xcc'
                led.lamp_test = on
            elif function == 0xfc:
                led.override, led.lamp_test = None, None
            elif function <= 0xfa or function == 0xff:
                led.override, led.lamp_test = (function, on, colour), None
            else:
                return b'\xcc'
            return b'\x00\x00'
        if cmd == CMD_GET_FRU_LED_STATE:
            assert len(p) == 3
            led = self.leds[(p[1], p[2])]
            states = 0x01 | (0x02 if led.override else 0) \
                | (0x04 if led.lamp_test is not None else 0)
            rsp = [0x00, 0x00, states, 0xff, 0x00, 0x03]   # local: on, green
            if states & 0x06:
                rsp += list(led.override or (0xff, 0x00, 0x03))
            if states & 0x04:
                rsp.append(led.lamp_test)
            return bytes(rsp)
        return b'\xc1'


class FakeInterface(object):
    def __init__(self, bmc):
        self.bmc = bmc

    def send_and_receive(self, req):
        rx = self.bmc.handle(req.netfn, req.cmdid, bytes(encode_message(req)))
        rsp = create_message(req.netfn + 1, req.cmdid, req.group_extension)
        decode_message(rsp, rx)
        return rsp


def main():
    bmc = RefBmc()
    ipmi = pyipmi.create_connection(FakeInterface(bmc))
    ipmi.target = pyipmi.Target(0x20)
    bad = 0

    def write_back(fru, led_id):
        """read the LED and write the very same LedState back"""
        state = ipmi.get_led_state(fru, led_id)
        state.fru_id, state.led_id = fru, led_id
        ipmi.set_led_state(state)
        return state

    # --- blinking -------------------------------------------------------
    led = LedState(fru_id=0, led_id=1, color=LedState.COLOR_RED,
                   function=LedState.FUNCTION_BLINKING)
    led.override_off_duration = 10
    led.override_on_duration = 5
    ipmi.set_led_state(led)
    before = bmc.leds[(0, 1)].describe()
    print('set_led_state(off_duration=10, on_duration=5)')
    print('     BMC: %s' % before)
    rd = ipmi.get_led_state(0, 1)
    print('get_led_state(): override_off_duration=%r override_on_duration=%r'
          % (rd.override_off_duration, rd.override_on_duration))
    same_units = (rd.override_off_duration, rd.override_on_duration) == (10, 5)
    print('%-4s what was written is read back (expected 10, 5)'
          % ('ok' if same_units else 'FAIL'))
    bad += not same_units

    write_back(0, 1)
    after = bmc.leds[(0, 1)].describe()
    ok = after == before
    print('%-4s set_led_state(get_led_state()) leaves the LED unchanged\n'
          '     expected BMC: %s\n     got      BMC: %s'
          % ('ok' if ok else 'FAIL', before, after))
    bad += not ok
    try:
        write_back(0, 1)
        after2 = bmc.leds[(0, 1)].describe()
    except EncodingError as e:
        after2 = 'EncodingError raised by set_led_state (%r)' % (e,)
    ok = after2 == before
    print('%-4s ... and once more\n     expected BMC: %s\n     got         : %s'
          % ('ok' if ok else 'FAIL', before, after2))
    bad += not ok

    # --- lamp test --------------------------------------------------------
    led = LedState(fru_id=0, led_id=2, color=LedState.COLOR_RED,
                   function=LedState.FUNCTION_LAMP_TEST)
    led.lamp_test_duration = 1
    ipmi.set_led_state(led)
    before = bmc.leds[(0, 2)].describe()
    print('set_led_state(lamp_test_duration=1)\n     BMC: %s' % before)
    rd = ipmi.get_led_state(0, 2)
    ok = rd.lamp_test_duration == 1
    print('%-4s get_led_state().lamp_test_duration = %r (expected 1)'
          % ('ok' if ok else 'FAIL', rd.lamp_test_duration))
    bad += not ok
    again = LedState(fru_id=0, led_id=2, color=LedState.COLOR_RED,
                     function=LedState.FUNCTION_LAMP_TEST)
    again.lamp_test_duration = rd.lamp_test_duration
    ipmi.set_led_state(again)
    after = bmc.leds[(0, 2)].describe()
    ok = after == before
    print('%-4s starting a lamp test with the duration just read gives the '
          'same lamp test\n     expected BMC: %s\n     got      BMC: %s'
          % ('ok' if ok else 'FAIL', before, after))
    bad += not ok

    print('\n%d check(s) failed' % bad)
    return 1 if bad else 0


if __name__ == '__main__':
    sys.exit(main())
