#!/usr/bin/env python
"""C19 finding 1: rmcp_ping() starts ipmitool WITHOUT the configured privilege
level (-L) and cipher suite (-C).

Run:  cd /tmp/hunt_c19 && /venv/bin/python -B _hunt/finding_1/demo.py

A stub executable takes the place of ipmitool.  It is started by the
unmodified library through the real /bin/sh and records the argument vector
it receives.  The same Ipmitool object / Session is used for one raw request
and for rmcp_ping(); the argument vectors are compared with the configuration.
Exit code 1 = property violated.
"""
import os
import stat
import sys
import tempfile

sys.path.insert(0, os.getcwd())

from pyipmi import Session, Target                      # noqa: E402
from pyipmi.interfaces.ipmitool import Ipmitool         # noqa: E402

tmp = tempfile.mkdtemp(prefix='c19f1_')
stub = os.path.join(tmp, 'ipmitool-stub')
argv_file = os.path.join(tmp, 'argv')
with open(stub, 'w') as f:
    f.write('#!/bin/sh\n: > "%s"\n'
            'for a in "$@"; do printf \'%%s\\0\' "$a" >> "%s"; done\n'
            'exit 0\n' % (argv_file, argv_file))
os.chmod(stub, os.stat(stub).st_mode | stat.S_IXUSR)
Ipmitool.IPMITOOL_PATH = stub


def argv():
    with open(argv_file, 'rb') as f:
        return [a.decode() for a in f.read().split(b'\0')[:-1]]


def option(args, opt):
    return args[args.index(opt) + 1] if opt in args else None


violations = 0
for itype, cipher, priv in (('lanplus', 3, 'user'),
                            ('lanplus', '17', 'operator'),
                            ('lanplus', 0, 'administrator'),
                            ('lan', None, 'user')):
    intf = Ipmitool(interface_type=itype, cipher=cipher)
    session = Session()
    session.interface = intf
    session.set_session_type_rmcp('10.0.1.1', 623)
    session.set_auth_type_user('admin', 'secret')
    session.set_priv_level(priv)
    session.establish()

    intf.send_and_receive_raw(Target(0x20), 0, 0x06, b'\x01')
    raw_args = argv()
    intf.rmcp_ping()
    ping_args = argv()

    exp_L = priv.upper()
    exp_C = None if cipher is None else str(cipher)
    print('configuration: interface=%s cipher=%r priv_level=%s'
          % (itype, cipher, priv))
    print('  raw request argv :', raw_args)
    print('  rmcp_ping   argv :', ping_args)
    for name, args in (('raw request', raw_args), ('rmcp_ping', ping_args)):
        got_L, got_C = option(args, '-L'), option(args, '-C')
        ok = (got_L == exp_L and got_C == exp_C)
        print('  %-11s expected -L %s -C %s   got -L %s -C %s   %s'
              % (name, exp_L, exp_C, got_L, got_C,
                 'ok' if ok else 'VIOLATION'))
        if not ok:
            violations += 1

if violations:
    print('\nFAIL: %d ipmitool start(s) without the configured privilege '
          'level / cipher suite' % violations)
    sys.exit(1)
print('\nPASS')
sys.exit(0)
