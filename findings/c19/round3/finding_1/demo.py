#!/venv/bin/python
"""C19 finding 1: Ipmitool.rmcp_ping() starts ipmitool WITHOUT the configured
privilege level (-L) and cipher suite (-C).

Run:  cd /tmp/h3_C19 && /venv/bin/python -B _hunt/finding_1/demo.py
Exits 1 when the property is violated, 0 when it holds.

The stub 'ipmitool' below is started by the real library through the real
/bin/sh.  It records its argument vector and behaves like a BMC on which
  * the account 'monitor' is limited to USER privilege, and
  * only cipher suite 17 is enabled (the usual hardening of current BMCs):
a session request with any other -L / -C (or with ipmitool's defaults,
ADMINISTRATOR / 3) is refused, exactly as ipmitool does it
("Error: Unable to establish IPMI v2 / RMCP+ session", exit status 1).
"""
import json
import os
import stat
import sys
import tempfile

sys.path.insert(0, os.getcwd())

from pyipmi.interfaces.ipmitool import Ipmitool   # noqa: E402
from pyipmi.session import Session                # noqa: E402

STUB = r'''#!%s
import json, os, sys
argv = sys.argv[1:]
with open(os.environ['C19_ARGV_LOG'], 'a') as f:
    f.write(json.dumps(argv) + '\n')
def opt(name, default):
    return argv[argv.index(name) + 1] if name in argv else default
# ipmitool defaults: -L ADMINISTRATOR, -C 3
if opt('-L', 'ADMINISTRATOR') != 'USER' or opt('-C', '3') != '17':
    sys.stdout.write('Error: Unable to establish IPMI v2 / RMCP+ session\n')
    sys.exit(1)
if 'raw' in argv:
    sys.stdout.write(' 20 81 01 02\n')       # some reply bytes
else:
    sys.stdout.write('session handle : 1\n')
sys.exit(0)
''' % sys.executable


def main():
    tmp = tempfile.mkdtemp(prefix='c19_f1_')
    stub = os.path.join(tmp, 'ipmitool')
    with open(stub, 'w') as f:
        f.write(STUB)
    os.chmod(stub, os.stat(stub).st_mode | stat.S_IXUSR)
    log = os.path.join(tmp, 'argv.log')
    os.environ['C19_ARGV_LOG'] = log

    # --- non-default configuration covered by the property ---------------
    interface = Ipmitool(interface_type='lanplus', cipher=17)
    interface.IPMITOOL_PATH = stub
    session = Session()
    session.set_session_type_rmcp('10.0.0.1', 623)
    session.set_auth_type_user('monitor', 'secret')
    session.set_priv_level('user')
    interface.establish_session(session)

    print('configuration: interface=lanplus cipher=17 priv_level=USER '
          'user=monitor host=10.0.0.1 port=623')

    rsp = interface.send_and_receive_raw(None, 0, 0x06, b'\x01')
    accessible = interface.is_ipmc_accessible(None)

    argvs = [json.loads(line) for line in open(log)]
    raw_argv, ping_argv = argvs[0], argvs[1]
    print('argv of raw request :', raw_argv)
    print('argv of rmcp_ping   :', ping_argv)
    print('raw request reply   :', rsp)
    print('is_ipmc_accessible():', accessible)

    def has(argv, name, value):
        return name in argv and argv[argv.index(name) + 1] == value

    failures = []
    if not (has(raw_argv, '-L', 'USER') and has(raw_argv, '-C', '17')):
        failures.append('raw request lacks -L USER / -C 17')
    if not has(ping_argv, '-L', 'USER'):
        failures.append('rmcp_ping: expected "-L USER" in argv, got none '
                        '(ipmitool falls back to ADMINISTRATOR)')
    if not has(ping_argv, '-C', '17'):
        failures.append('rmcp_ping: expected "-C 17" in argv, got none '
                        '(ipmitool falls back to its default cipher suite)')
    if not accessible:
        failures.append('is_ipmc_accessible() == False although the very '
                        'same interface object just completed a raw request '
                        'with the same BMC (expected True)')

    if failures:
        print('\nPROPERTY C19 VIOLATED:')
        for f in failures:
            print('  -', f)
        return 1
    print('\nproperty holds')
    return 0


if __name__ == '__main__':
    sys.exit(main())
