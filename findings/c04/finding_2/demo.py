"""C04 finding 2 -- Rmcp: the request sequence number is advanced and read
OUTSIDE the transaction lock, so two threads (e.g. the keep-alive thread and
the caller) can send consecutive requests with the SAME rqSeq, and a late /
duplicated reply to the first is then returned as the answer to the second.

Run:  cd /tmp/hunt_c04 && /venv/bin/python -B _hunt/finding_2/demo.py

The real, unmodified Rmcp._send_and_receive is executed by two threads A and B.
A thread schedule is enforced from the outside with sys.settrace (no library
code or object is changed):

    A: self._inc_sequence_number()            -> next_sequence_number = 1
    B: self._inc_sequence_number()            -> next_sequence_number = 2
    B: header.rq_seq = self.next_sequence_number   (2), reaches the lock
    A: header.rq_seq = self.next_sequence_number   (2!), takes the lock,
       sends, receives, returns
    B: takes the lock, sends, receives, returns

Both are Get Sensor Reading (netfn 04h, cmd 2Dh): A for sensor 1, B for sensor
2.  The BMC answers both correctly; the network delivers A's reply twice.
max_retries=1, i.e. ONE unrelated frame before the matching reply must be
tolerated (and is, when the same two requests are made without the race).

Expected: two different rqSeq on the wire; B gets the reading of sensor 2.
Got: the same rqSeq twice; B gets the reading of sensor 1.
"""
import linecache
import socket
import sys
import threading

sys.path.insert(0, '.')
from pyipmi import Target                      # noqa: E402
from pyipmi.interfaces.rmcp import Rmcp        # noqa: E402

READING = {1: 0x11, 2: 0x22}       # sensor number -> raw reading


def csum(bs):
    return (-sum(bs)) & 0xff


def lan_reply(req_msg, data):
    rs_sa, netfn_lun, _, rq_sa, seq_lun, cmd = req_msg[:6]
    netfn, rs_lun = netfn_lun >> 2, netfn_lun & 3
    seq, rq_lun = seq_lun >> 2, seq_lun & 3
    h = [rq_sa, ((netfn | 1) << 2) | rq_lun]
    h.append(csum(h))
    p = [rs_sa, (seq << 2) | rs_lun, cmd] + list(data)
    p.append(csum(p))
    return bytes(h + p)


def rmcp_wrap(msg):
    return bytes([6, 0, 0xff, 7, 0]) + bytes(8) + bytes([len(msg)]) + msg


class FakeUdpSocket:
    def __init__(self):
        self.rx = []
        self.sent = []          # (rqSeq, sensor number)
        self.timeout = None

    def settimeout(self, t):
        self.timeout = t

    def gettimeout(self):
        return self.timeout

    def sendto(self, pdu, addr):
        msg = pdu[14:]
        assert msg[1] >> 2 == 0x04 and msg[5] == 0x2d
        sensor = msg[6]
        self.sent.append((msg[4] >> 2, sensor))
        # Get Sensor Reading response: cc, reading, flags (scanning enabled)
        reply = rmcp_wrap(lan_reply(msg, [0x00, READING[sensor], 0xc0]))
        self.rx.append(reply)
        if len(self.sent) == 1:
            self.rx.append(reply)        # the network duplicates this datagram

    def recvfrom(self, n):
        if not self.rx:
            if self.timeout == 0:
                raise BlockingIOError()
            raise socket.timeout()
        return (self.rx.pop(0), ('bmc', 623))


def new_interface():
    intf = Rmcp(max_retries=1)
    intf._sock = FakeUdpSocket()
    intf.host, intf.port = 'bmc', 623
    return intf


def get_sensor_reading(intf, sensor):
    return bytes(intf.send_and_receive_raw(Target(0x20), 0, 0x04,
                                           bytes([0x2d, sensor])))


# --- control: same requests, same network fault, no race --------------------
def sequential():
    intf = new_interface()
    a = get_sensor_reading(intf, 1)
    b = get_sensor_reading(intf, 2)
    return intf._sock.sent, a, b


# --- the schedule ------------------------------------------------------------
CODE = Rmcp._send_and_receive.__code__


def src(frame):
    return linecache.getline(frame.f_code.co_filename, frame.f_lineno).strip()


def raced():
    intf = new_interface()
    a_after_inc = threading.Event()
    b_at_lock = threading.Event()
    a_done = threading.Event()
    result = {}

    def tracer_for(name):
        seen = set()

        def local(frame, event, arg):
            if event != 'line':
                return local
            line = src(frame)
            if name == 'A' and line == 'header = IpmbHeaderReq()' \
                    and 'p' not in seen:
                seen.add('p')
                # A has executed _inc_sequence_number(); let B run now
                a_after_inc.set()
                b_at_lock.wait(2.0)
            if name == 'B' and line == 'with self.transaction_lock:' \
                    and 'p' not in seen:
                seen.add('p')
                # B stands in front of the lock; let A do its whole request
                b_at_lock.set()
                a_done.wait(2.0)
            return local

        def glob(frame, event, arg):
            if frame.f_code is CODE:
                return local
            return None
        return glob

    def run(name, sensor):
        if name == 'B':
            a_after_inc.wait(2.0)
        sys.settrace(tracer_for(name))
        try:
            result[name] = get_sensor_reading(intf, sensor)
        except Exception as e:      # noqa
            result[name] = 'error ' + type(e).__name__
        finally:
            sys.settrace(None)
            if name == 'A':
                a_done.set()

    ta = threading.Thread(target=run, args=('A', 1))
    tb = threading.Thread(target=run, args=('B', 2))
    ta.start()
    tb.start()
    ta.join()
    tb.join()
    return intf._sock.sent, result['A'], result['B']


def main():
    exp_a = bytes([0x00, READING[1], 0xc0])
    exp_b = bytes([0x00, READING[2], 0xc0])

    sent, a, b = sequential()
    print('control (no race): wire (rqSeq, sensor) = %r' % (sent,))
    print('   A -> %r   B -> %r' % (a, b))
    assert (a, b) == (exp_a, exp_b) and sent[0][0] != sent[1][0]

    sent, a, b = raced()
    print('raced schedule   : wire (rqSeq, sensor) = %r' % (sent,))
    print('   A (sensor 1): expected %r, got %r' % (exp_a, a))
    print('   B (sensor 2): expected %r, got %r' % (exp_b, b))

    bad = False
    if sent[0][0] == sent[1][0]:
        print('VIOLATION: consecutive requests carry the same sequence '
              'number %d' % sent[0][0])
        bad = True
    if b != exp_b:
        print('VIOLATION: the duplicated reply to A\'s request (sensor 1) was '
              'returned as the answer to B\'s request (sensor 2)')
        bad = True
    if a != exp_a:
        print('VIOLATION: A got %r' % (a,))
        bad = True
    sys.exit(1 if bad else 0)


if __name__ == '__main__':
    main()
