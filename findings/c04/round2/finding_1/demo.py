#!/usr/bin/env python
"""C04 / finding 1: IpmbDev and Aardvark have no transaction lock.

Two threads use ONE interface object (the situation that commit b0e0b42
repaired for Rmcp).  The sequence number is incremented and read back in two
separate steps and nothing serialises the transactions, so under the schedule

    A: _inc_sequence_number()        -> counter = 1
    B: _inc_sequence_number()        -> counter = 2
    A: header.rq_seq = counter       -> 2
    B: header.rq_seq = counter       -> 2

both requests go out with the SAME sequence number, and the reply of the one
responder is returned as the answer of the request to the other responder
(rx_filter does not look at the responder address).

Everything below the interface object is faked (os/select for ipmb-dev, the
pyaardvark adapter for Aardvark); the frames are built by hand from the IPMB
specification.  The schedule is forced only by *pausing* threads at points
where the interpreter may preempt them anyway (every pause has a time limit,
so that a serialising fix is not dead-locked by the demo).

exit status 1: property violated, 0: not violated.
"""
import os
import sys
import time
import types
import threading
import collections

sys.path.insert(0, os.getcwd())

fake_pa = types.ModuleType('pyaardvark')        # only so that Aardvark() can be built
sys.modules.setdefault('pyaardvark', fake_pa)

import pyipmi.interfaces.ipmbdev as ipmbdev_mod      # noqa: E402
import pyipmi.interfaces.aardvark as aardvark_mod    # noqa: E402
from pyipmi import Target                            # noqa: E402

OWN_SA = 0x20
NETFN_APP, CMD_GET_DEVICE_ID = 0x06, 0x01


def cks(b):
    return (-sum(b)) & 0xff


def ipmb_response(rq_sa, netfn_rsp, rs_sa, seq, rs_lun, cmd, data):
    """IPMB response frame (IPMI 2.0, figure 2-2 'IPMB message format')."""
    h = [rq_sa, (netfn_rsp << 2) | 0]
    h.append(cks(h))
    b = [rs_sa, (seq << 2) | rs_lun, cmd] + list(data)
    b.append(cks(b))
    return bytes(h + b)


def device_id_of(sa):
    """Get Device Id response data of the controller at address sa: the first
    data byte (Device ID) is the controller's own address, so that the answer
    tells who gave it."""
    return bytes([0x00, sa, 0x80, 0x01, 0x02, 0x51, 0xbf,
                  0x00, 0x00, 0x00, 0x00, 0x00])


class Bus(object):
    """The IPMB with two controllers (0x82, 0x84).  Each request is answered
    by the addressed controller.  The replies become readable when both
    requests are on the bus (or after 50 ms), 0x84 being the quicker one."""

    def __init__(self):
        self.cond = threading.Condition()
        self.requests = []          # (thread name, rs_sa, seq)
        self.pending = []           # replies not yet readable
        self.readable = collections.deque()
        self.reads = 0

    def master_write(self, frame):
        """frame = complete IPMB request, first byte rs_sa"""
        frame = bytes(frame)
        rs_sa, netfn, rq_sa = frame[0], frame[1] >> 2, frame[3]
        seq, rs_lun, cmd = frame[4] >> 2, frame[1] & 3, frame[5]
        with self.cond:
            self.requests.append((threading.current_thread().name, rs_sa, seq))
            self.pending.append(ipmb_response(rq_sa, netfn | 1, rs_sa, seq,
                                              rs_lun, cmd, device_id_of(rs_sa)))
            if len(self.pending) == 2:
                self._release()
            self.cond.notify_all()

    def _release(self):
        # the quicker controller (higher address) answers first
        for f in sorted(self.pending, key=lambda f: -f[3]):
            self.readable.append(f)
        self.pending = []

    def wait_readable(self, timeout):
        me = threading.current_thread().name
        with self.cond:
            # replies need 50 ms unless the second request is out earlier
            self.cond.wait_for(lambda: self.readable, timeout=0.05)
            if not self.readable and self.pending:
                self._release()
            # thread B gets the CPU after A has read (at most 50 ms later)
            if me == 'B':
                self.cond.wait_for(lambda: self.reads >= 1, timeout=0.05)
            return bool(self.readable)

    def slave_read(self):
        with self.cond:
            f = self.readable.popleft()
            self.reads += 1
            self.cond.notify_all()
            return f


def make_ipmbdev(bus):
    def write(fd, data):
        data = bytes(data)
        assert data[0] == len(data) - 1
        bus.master_write(data[1:])
        return len(data)

    def read(fd, n):
        f = bus.slave_read()
        return bytes([len(f)]) + f          # ipmb-dev-int: length byte first

    def select(r, w, e, timeout):
        return (list(r), [], []) if bus.wait_readable(timeout) else ([], [], [])

    ipmbdev_mod.os = types.SimpleNamespace(write=write, read=read)
    ipmbdev_mod.select = types.SimpleNamespace(select=select)
    dev = ipmbdev_mod.IpmbDev(slave_address=OWN_SA)
    dev._dev = 7
    return dev


class FakeAardvarkAdapter(object):
    def __init__(self, bus):
        self.bus = bus

    def i2c_master_write(self, i2c_addr, data):
        self.bus.master_write(bytes([i2c_addr << 1]) + bytes(data))

    def poll(self, timeout_ms):
        return [1] if self.bus.wait_readable(timeout_ms / 1000.0) else []

    def i2c_slave_read(self):
        f = self.bus.slave_read()
        return (f[0] >> 1, f[1:])


def make_aardvark(bus):
    dev = aardvark_mod.Aardvark(slave_address=OWN_SA)
    dev._dev = FakeAardvarkAdapter(bus)
    return dev


def pause_after_increment(dev):
    """Schedule control only: every thread is suspended right after its
    _inc_sequence_number() call until the other one has made that call too
    (at most 0.3 s).  The real method does the work."""
    real = dev._inc_sequence_number
    barrier = threading.Barrier(2)

    def inc():
        real()
        try:
            barrier.wait(timeout=0.3)
        except threading.BrokenBarrierError:
            pass
    dev._inc_sequence_number = inc


def run(name, make):
    bus = Bus()
    dev = make(bus)
    pause_after_increment(dev)
    results = {}

    def worker(sa):
        try:
            rsp = dev.send_and_receive_raw(Target(sa), 0, NETFN_APP,
                                           bytes([CMD_GET_DEVICE_ID]))
            results[sa] = bytes(rsp)
        except Exception as e:      # an error is allowed by the property
            results[sa] = e

    ta = threading.Thread(target=worker, args=(0x82,), name='A')
    tb = threading.Thread(target=worker, args=(0x84,), name='B')
    ta.start()
    tb.start()
    ta.join()
    tb.join()

    violated = False
    print('--- %s: threads A (Get Device Id -> 0x82) and B (-> 0x84) on one '
          'interface object' % name)
    for who, sa, seq in bus.requests:
        print('    thread %s sent  rs_sa=0x%02x rq_seq=%d' % (who, sa, seq))
    first = {}
    for who, sa, seq in bus.requests:
        first.setdefault(who, seq)
    if len(first) == 2 and first['A'] == first['B']:
        print('    VIOLATION: two different requests carry the same sequence '
              'number %d' % first['A'])
        violated = True
    for sa in (0x82, 0x84):
        r = results[sa]
        if isinstance(r, Exception):
            print('    request to 0x%02x: error %r (allowed)' % (sa, r))
            continue
        print('    request to 0x%02x: expected the reply of 0x%02x (device id '
              '%02x) or an error, got device id %02x'
              % (sa, sa, sa, r[1]))
        if r != device_id_of(sa):
            print('    VIOLATION: the reply of 0x%02x was returned as the '
                  'answer of the request to 0x%02x' % (r[1], sa))
            violated = True
    return violated


if __name__ == '__main__':
    v1 = run('IpmbDev', make_ipmbdev)
    v2 = run('Aardvark', make_aardvark)
    if v1 or v2:
        print('RESULT: property C04 violated')
        sys.exit(1)
    print('RESULT: no violation')
    sys.exit(0)
