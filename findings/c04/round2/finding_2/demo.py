#!/usr/bin/env python
"""C04 / finding 2: with a retry budget of 0 IpmbDev and Aardvark never send.

`max_retries = 0` ("do not retry") is the default of Rmcp and there it means
one attempt.  IpmbDev/Aardvark loop `while retries < self.max_retries`, so
with the same budget the loop body never runs: nothing is written to the
device, no frame is read, and the caller gets IpmiTimeoutError although the
responder would have answered at once - and every later request on that
object fails in the same way.

The device below answers every request immediately and correctly (frames are
built by hand from the IPMB specification).

exit status 1: property violated, 0: not violated.
"""
import os
import sys
import types
import collections

sys.path.insert(0, os.getcwd())
sys.modules.setdefault('pyaardvark', types.ModuleType('pyaardvark'))

import pyipmi.interfaces.ipmbdev as ipmbdev_mod      # noqa: E402
import pyipmi.interfaces.aardvark as aardvark_mod    # noqa: E402
from pyipmi import Target                            # noqa: E402

NETFN_APP, CMD_GET_DEVICE_ID = 0x06, 0x01
GOOD = bytes([0x00, 0x82, 0x80, 0x01, 0x02, 0x51, 0xbf, 0, 0, 0, 0, 0])


def cks(b):
    return (-sum(b)) & 0xff


class Responder(object):
    """A controller that answers each request at once."""

    def __init__(self):
        self.written = []
        self.replies = collections.deque()

    def master_write(self, frame):
        frame = bytes(frame)
        self.written.append(frame)
        rs_sa, netfn, rs_lun = frame[0], frame[1] >> 2, frame[1] & 3
        rq_sa, seq, cmd = frame[3], frame[4] >> 2, frame[5]
        h = [rq_sa, ((netfn | 1) << 2)]
        h.append(cks(h))
        b = [rs_sa, (seq << 2) | rs_lun, cmd] + list(GOOD)
        b.append(cks(b))
        self.replies.append(bytes(h + b))


def make_ipmbdev(rsp):
    def write(fd, data):
        rsp.master_write(bytes(data)[1:])
        return len(data)

    def read(fd, n):
        f = rsp.replies.popleft()
        return bytes([len(f)]) + f

    def select(r, w, e, timeout):
        return (list(r), [], []) if rsp.replies else ([], [], [])

    ipmbdev_mod.os = types.SimpleNamespace(write=write, read=read)
    ipmbdev_mod.select = types.SimpleNamespace(select=select)
    dev = ipmbdev_mod.IpmbDev()
    dev._dev = 7
    return dev


class Adapter(object):
    def __init__(self, rsp):
        self.rsp = rsp

    def i2c_master_write(self, addr, data):
        self.rsp.master_write(bytes([addr << 1]) + bytes(data))

    def poll(self, ms):
        return [1] if self.rsp.replies else []

    def i2c_slave_read(self):
        f = self.rsp.replies.popleft()
        return (f[0] >> 1, f[1:])


def make_aardvark(rsp):
    dev = aardvark_mod.Aardvark()
    dev._dev = Adapter(rsp)
    return dev


def run(name, make):
    violated = False
    for budget in (0, 1, 3):
        rsp = Responder()
        dev = make(rsp)
        dev.max_retries = budget
        outcomes = []
        for n in (1, 2):                       # two consecutive requests
            try:
                out = bytes(dev.send_and_receive_raw(
                    Target(0x82), 0, NETFN_APP, bytes([CMD_GET_DEVICE_ID])))
            except Exception as e:
                out = e
            outcomes.append(out)
        ok = all(o == GOOD for o in outcomes)
        print('%-8s max_retries=%d: frames written to the device: %d; '
              'request 1 -> %s; request 2 -> %s'
              % (name, budget, len(rsp.written),
                 *['reply data' if o == GOOD else repr(o) for o in outcomes]))
        if not ok:
            print('         VIOLATION: the responder answers every request '
                  'immediately with a matching reply (0 unrelated frames '
                  'before it); expected the reply data, got an error - the '
                  'request was never transmitted')
            violated = True
    return violated


if __name__ == '__main__':
    v = [run('IpmbDev', make_ipmbdev), run('Aardvark', make_aardvark)]
    if any(v):
        print('RESULT: property C04 violated')
        sys.exit(1)
    print('RESULT: no violation')
    sys.exit(0)
