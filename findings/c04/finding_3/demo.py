"""C04 finding 3 -- Rmcp: every received frame whose command byte is 34h is
treated as "the Send Message acknowledgement of this (bridged) request" BEFORE
any of the reply checks (checksums, netfn, sequence number, LUN) and whether
or not the request was bridged at all.

Run:  cd /tmp/hunt_c04 && /venv/bin/python -B _hunt/finding_3/demo.py

Consequences shown with the real, unmodified Rmcp over a fake UDP socket:

 (a) A request whose own command is 34h can never be answered: its matching
     reply (valid checksums; netfn|1, cmd, rqSeq, rsLUN all equal) is
     swallowed.  a1: Send Message sent as a raw request (manual bridging, the
     BMC acknowledges with completion code 00h) -> RetryError after the
     timeout instead of b'\\x00'.  a2: OEM netfn 30h cmd 34h with two bytes of
     response data -> IndexError from inside the receive loop.

 (b) The completion code of a Send Message acknowledgement that belongs to an
     EARLIER request (stale rqSeq) is raised as the error of the CURRENT,
     non-bridged request, although the current request's matching reply is
     the very next datagram and max_retries=1 allows one unrelated frame.
"""
import socket
import sys

sys.path.insert(0, '.')
from pyipmi import Target                      # noqa: E402
from pyipmi.interfaces.rmcp import Rmcp        # noqa: E402


def csum(bs):
    return (-sum(bs)) & 0xff


def lan_msg(addr1, netfn, lun1, addr2, seq, lun2, cmd, data):
    h = [addr1, (netfn << 2) | lun1]
    h.append(csum(h))
    p = [addr2, (seq << 2) | lun2, cmd] + list(data)
    p.append(csum(p))
    return bytes(h + p)


def lan_reply(req_msg, data):
    rs_sa, netfn_lun, _, rq_sa, seq_lun, cmd = req_msg[:6]
    return lan_msg(rq_sa, (netfn_lun >> 2) | 1, seq_lun & 3,
                   rs_sa, seq_lun >> 2, netfn_lun & 3, cmd, data)


def rmcp_wrap(msg):
    return bytes([6, 0, 0xff, 7, 0]) + bytes(8) + bytes([len(msg)]) + msg


class FakeUdpSocket:
    def __init__(self, bmc):
        self.rx = []
        self.bmc = bmc
        self.timeout = None
        self.sent = []

    def settimeout(self, t):
        self.timeout = t

    def gettimeout(self):
        return self.timeout

    def sendto(self, pdu, addr):
        msg = pdu[14:]
        self.sent.append(msg)
        self.rx.extend(rmcp_wrap(m) for m in self.bmc(msg, len(self.sent)))

    def recvfrom(self, n):
        if not self.rx:
            if self.timeout == 0:
                raise BlockingIOError()
            raise socket.timeout()
        return (self.rx.pop(0), ('bmc', 623))


def interface(bmc, max_retries):
    intf = Rmcp(max_retries=max_retries)
    intf._sock = FakeUdpSocket(bmc)
    intf.host, intf.port = 'bmc', 623
    return intf


def attempt(f):
    try:
        return ('ok', bytes(f()))
    except Exception as e:      # noqa
        return ('error', type(e).__name__ + ': ' + str(e)[:60])


def show(label, expected, got):
    ok = got == expected
    print('%s\n     expected %r\n     got      %r%s'
          % (label, expected, got, '' if ok else '   <-- VIOLATION'))
    return ok


def main():
    all_ok = True

    # ---- (a1) raw Send Message (App 06h / 34h), channel 0 with tracking,
    # encapsulating Get Device ID for IPMB address 82h.
    inner = lan_msg(0x82, 0x06, 0, 0x20, 0x05, 0, 0x01, [])
    raw = bytes([0x34, 0x40]) + inner

    def bmc_a1(msg, n):
        return [lan_reply(msg, [0x00])]            # acknowledged, cc = 00h
    for N in (0, 2):
        intf = interface(bmc_a1, N)
        got = attempt(lambda: intf.send_and_receive_raw(Target(0x20), 0, 6, raw))
        all_ok &= show('(a1) raw Send Message, max_retries=%d; the BMC returns '
                       'the matching reply (cc=00h)' % N, ('ok', b'\x00'), got)

    # ---- (a2) OEM request netfn 30h cmd 34h, reply carries 2 data bytes
    def bmc_a2(msg, n):
        return [lan_reply(msg, [0x00, 0xaa, 0xbb])]
    intf = interface(bmc_a2, 0)
    got = attempt(lambda: intf.send_and_receive_raw(Target(0x20), 0, 0x30,
                                                    b'\x34\x01'))
    all_ok &= show('(a2) OEM netfn 30h cmd 34h; the BMC returns the matching '
                   'reply', ('ok', b'\x00\xaa\xbb'), got)

    # ---- (b) stale acknowledgement with an error completion code
    state = {}

    def bmc_b(msg, n):
        if msg[5] == 0x34:
            # request #1 is a bridged request (Send Message); the BMC is slow:
            # nothing arrives before the requester's timeouts (1 + 1 retry)
            state['ack1'] = lan_reply(msg, [0x83])   # 83h: NAK on write
            return []
        # request #2: the late acknowledgement of request #1 arrives first,
        # then the correct reply to request #2
        return [state['ack1'], lan_reply(msg, [0x00, 0x42])]

    intf = interface(bmc_b, 1)
    bridged = Target(0x82, routing=[(0x81, 0x20, 0), (0x20, 0x82, None)])
    r1 = attempt(lambda: intf.send_and_receive_raw(bridged, 0, 6, b'\x01'))
    print('(b) request #1 (bridged to 82h, no answer in time): %r' % (r1,))
    r2 = attempt(lambda: intf.send_and_receive_raw(Target(0x20), 0, 6, b'\x01'))
    seqs = [m[4] >> 2 for m in intf._sock.sent]
    print('    rqSeq on the wire: %r; the late ack carries rqSeq %d'
          % (seqs, state['ack1'][4] >> 2))
    all_ok &= show('(b) request #2 (direct to 20h), max_retries=1, frames: '
                   '[ack of #1 with cc=83h, matching reply of #2]',
                   ('ok', b'\x00\x42'), r2)

    if not all_ok:
        print('\nC04 violated.')
        sys.exit(1)
    print('\nC04 holds on these histories.')
    sys.exit(0)


if __name__ == '__main__':
    main()
