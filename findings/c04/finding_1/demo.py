"""C04 finding 1 -- Rmcp: one surplus datagram received during a request makes
every later request on the interface fail (default max_retries=0).

Run:  cd /tmp/hunt_c04 && /venv/bin/python -B _hunt/finding_1/demo.py

The real, unmodified pyipmi.interfaces.rmcp.Rmcp is driven through a fake UDP
socket.  Behind the socket sits a well-behaved BMC that answers EVERY request
with a correct reply (valid checksums, same netfn|1, command, rqSeq, rsLUN).
The only fault: the network delivers the reply to request #1 twice (UDP may
duplicate datagrams).  Both copies are in the socket before request #1 returns.

Expected by C04: request #1 succeeds (it does) and "frames received during one
request never prevent a later request from succeeding": requests #2..#6 succeed.
Got: requests #2..#6 all fail with RetryError -- each one reads the (now stale)
reply of its predecessor and leaves its own reply behind for its successor.
"""
import socket
import sys

sys.path.insert(0, '.')
from pyipmi import Target                      # noqa: E402
from pyipmi.interfaces.rmcp import Rmcp        # noqa: E402


def csum(bs):
    return (-sum(bs)) & 0xff


def lan_reply(req_msg, data):
    """IPMI v1.5 LAN response (spec 13.8) to the LAN request `req_msg`."""
    rs_sa, netfn_lun, _, rq_sa, seq_lun, cmd = req_msg[:6]
    netfn, rs_lun = netfn_lun >> 2, netfn_lun & 3
    seq, rq_lun = seq_lun >> 2, seq_lun & 3
    h = [rq_sa, ((netfn | 1) << 2) | rq_lun]
    h.append(csum(h))
    p = [rs_sa, (seq << 2) | rs_lun, cmd] + list(data)
    p.append(csum(p))
    return bytes(h + p)


def rmcp_wrap(msg):
    # RMCP header (v6, seq ff, class IPMI) + session header (auth none) + len
    return bytes([6, 0, 0xff, 7, 0]) + bytes(8) + bytes([len(msg)]) + msg


class FakeUdpSocket:
    """Datagram socket with a BMC behind it."""

    def __init__(self):
        self.rx = []          # datagrams waiting in the receive buffer
        self.n_requests = 0
        self.timeout = None
        self.log = []

    def settimeout(self, t):
        self.timeout = t

    def gettimeout(self):
        return self.timeout

    def sendto(self, pdu, addr):
        assert pdu[:5] == bytes([6, 0, 0xff, 7, 0])
        msg = pdu[14:]
        self.n_requests += 1
        seq = msg[4] >> 2
        # completion code 00 + one data byte that identifies the request
        reply = rmcp_wrap(lan_reply(msg, [0x00, self.n_requests]))
        self.rx.append(reply)
        self.log.append('request #%d sent (rqSeq=%d); BMC answers it correctly'
                        % (self.n_requests, seq))
        if self.n_requests == 1:
            self.rx.append(reply)     # the network duplicates this datagram
            self.log.append('   ... network delivers that reply a second time')

    def recvfrom(self, n):
        if not self.rx:
            if self.timeout == 0:
                raise BlockingIOError()
            raise socket.timeout()
        return (self.rx.pop(0), ('bmc', 623))


def main():
    intf = Rmcp()                     # defaults: max_retries=0, no quirks
    sock = FakeUdpSocket()
    intf._sock = sock
    intf.host, intf.port = 'bmc', 623
    target = Target(0x20)

    outcomes = []
    for k in range(1, 7):
        try:
            # Get Device ID: netfn App (6), cmd 01
            data = intf.send_and_receive_raw(target, 0, 6, b'\x01')
            outcomes.append((k, 'ok', bytes(data)))
        except Exception as e:        # noqa
            outcomes.append((k, 'error', type(e).__name__))

    for line in sock.log:
        print(line)
    print()
    violated = False
    for k, kind, val in outcomes:
        expected = ('ok', bytes([0, k]))
        got = (kind, val)
        flag = '' if got == expected else '   <-- VIOLATION'
        if got != expected:
            violated = True
        print('request #%d: expected %r, got %r%s' % (k, expected, got, flag))
    print('datagrams still unread in the socket: %d' % len(sock.rx))

    if violated:
        print('\nC04 violated: a frame received during request #1 prevents all '
              'later requests from succeeding.')
        sys.exit(1)
    print('\nC04 holds on this history.')
    sys.exit(0)


if __name__ == '__main__':
    main()
