"""C04 finding 4 -- IpmbDev / Aardvark: is_ipmc_accessible() sends its Get
Device ID request WITHOUT advancing the sequence number, i.e. with the rqSeq
of the previous request (and all repeated accessibility polls share one
rqSeq).  A late reply to the previous request is therefore accepted as the
answer of the accessibility probe.

Run:  cd /tmp/hunt_c04 && /venv/bin/python -B _hunt/finding_4/demo.py

History (identical on both transports, real unmodified library code):

  1. send_and_receive_raw(Target(82h), Get Device ID).  The IPMC at 82h is
     slow once: its first reply comes 0.3 s after the request, i.e. after the
     library's 0.25 s timeout; the library retransmits (same rqSeq, that is
     fine), picks up the first reply and returns.  The reply to the
     retransmission arrives a moment later and stays unread.
  2. is_ipmc_accessible(Target(84h)).  Nothing lives at 84h; nobody answers.

Expected: the probe's request carries a new rqSeq; the left-over reply from
82h is rejected as stale; the probe ends with IpmiTimeoutError.
Got: the probe carries the SAME rqSeq as request 1 and returns True -- the
reply of 82h to request 1 is attributed to the request sent to 84h.

ipmbdev: the character device is replaced by one end of a SOCK_SEQPACKET
socketpair (a real file descriptor: os.write/os.read/select are the real
ones); frames use the ipmb-dev-int layout (length byte + IPMB message).
aardvark: a fake `pyaardvark` module supplies the adapter object.
"""
import os
import queue
import socket
import sys
import threading
import time
import types

sys.path.insert(0, '.')

_pa = types.ModuleType('pyaardvark')       # the adapter library is not needed
sys.modules['pyaardvark'] = _pa

from pyipmi import Target                                   # noqa: E402
from pyipmi.errors import IpmiTimeoutError                  # noqa: E402
from pyipmi.interfaces.ipmbdev import IpmbDev               # noqa: E402
from pyipmi.interfaces.aardvark import Aardvark             # noqa: E402

OWN_SA = 0x20


def csum(bs):
    return (-sum(bs)) & 0xff


def ipmb_reply(req, data):
    """IPMB response to the IPMB request `req` (rsSA first)."""
    rs_sa, netfn_lun, _, rq_sa, seq_lun, cmd = req[:6]
    h = [rq_sa, (((netfn_lun >> 2) | 1) << 2) | (seq_lun & 3)]
    h.append(csum(h))
    p = [rs_sa, (seq_lun & 0xfc) | (netfn_lun & 3), cmd] + list(data)
    p.append(csum(p))
    return bytes(h + p)


class Bus:
    """The IPMB with one IPMC at 82h (slow on its first reply)."""

    def __init__(self, deliver):
        self.deliver = deliver       # callable(frame bytes incl. rqSA)
        self.requests = []           # (rsSA, rqSeq)
        self.first = True
        self.timers = []

    def request(self, req):
        assert csum(req[:2]) == req[2] and sum(req[3:]) & 0xff == 0
        self.requests.append((req[0], req[4] >> 2))
        if req[0] != 0x82:
            return                   # nobody there
        # Get Device ID response (abridged): cc + device id 0x82
        rsp = ipmb_reply(req, [0x00, 0x82, 0x00, 0x01, 0x02, 0x51])
        delay = 0.3 if self.first else 0.01
        self.first = False
        t = threading.Timer(delay, self.deliver, (rsp,))
        t.daemon = True
        t.start()
        self.timers.append(t)


def run_history(intf, bus):
    r1 = bytes(intf.send_and_receive_raw(Target(0x82), 0, 0x06, b'\x01'))
    for t in bus.timers:
        t.join()                     # both replies of 82h have arrived
    try:
        acc = intf.is_ipmc_accessible(Target(0x84))
    except IpmiTimeoutError:
        acc = 'IpmiTimeoutError'
    return r1, acc


def ipmbdev_case():
    ours, theirs = socket.socketpair(socket.AF_UNIX, socket.SOCK_SEQPACKET)
    bus = Bus(lambda f: theirs.send(bytes([len(f)]) + f))

    def pump():
        while True:
            try:
                m = theirs.recv(300)
            except OSError:
                return
            if not m:
                return
            assert m[0] == len(m) - 1
            bus.request(m[1:])
    th = threading.Thread(target=pump, daemon=True)
    th.start()
    intf = IpmbDev(slave_address=OWN_SA)
    intf._dev = ours.fileno()        # instead of os.open('/dev/ipmb-0')
    try:
        return run_history(intf, bus), bus
    finally:
        theirs.close()
        ours.close()


def aardvark_case():
    rxq = queue.Queue()
    pending = []

    class Adapter:
        def i2c_master_write(self, addr, data):
            bus.request(bytes([addr << 1]) + bytes(data))

        def poll(self, timeout_ms):
            if pending:
                return [1]
            try:
                pending.append(rxq.get(timeout=max(timeout_ms, 0) / 1000.0))
                return [1]
            except queue.Empty:
                return []

        def i2c_slave_read(self):
            f = pending.pop(0)
            return (f[0] >> 1, f[1:])     # (own 7-bit address, bytes after it)

    bus = Bus(rxq.put)
    intf = Aardvark(slave_address=OWN_SA)
    intf._dev = Adapter()             # instead of pyaardvark.open()
    return run_history(intf, bus), bus


def main():
    bad = False
    for name, case in (('ipmbdev', ipmbdev_case), ('aardvark', aardvark_case)):
        (r1, acc), bus = case()
        print('[%s]' % name)
        print('  requests on the bus (rsSA, rqSeq): %s'
              % ', '.join('(%02xh, %d)' % r for r in bus.requests))
        print('  request 1 to 82h returned %r' % (r1,))
        print('  is_ipmc_accessible(84h): expected IpmiTimeoutError, got %r'
              % (acc,))
        seq_prev = bus.requests[-2][1]
        seq_probe = bus.requests[-1][1]
        if seq_probe == seq_prev:
            print('  VIOLATION: the probe to 84h carries rqSeq %d, the same as '
                  'the preceding request to 82h' % seq_probe)
            bad = True
        if acc is True:
            print('  VIOLATION: the late reply of 82h to request 1 was taken as '
                  'the answer of the request to 84h')
            bad = True
    sys.exit(1 if bad else 0)


if __name__ == '__main__':
    main()
