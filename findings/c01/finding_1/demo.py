#!/usr/bin/env python
"""C01 finding 1 -- a fixed-length String field emits more bytes than its
declared length when the (character-padded) value contains a non-ASCII
character; the resulting frame is rejected by the library's own decoder.

Run:  cd /tmp/hunt_c01 && /venv/bin/python -B _hunt/finding_1/demo.py
Exit status 1 = property violated, 0 = property holds.
"""
import sys
sys.path.insert(0, '.')

import pyipmi
import pyipmi.msgs
from pyipmi.errors import EncodingError, DecodingError
from pyipmi.msgs import (create_request_by_name, create_message,
                         encode_message, decode_message)
from pyipmi.messaging import Messaging

violations = []


def hexs(b):
    return ' '.join('%02x' % x for x in b)


# ---------------------------------------------------------------------------
# Part A: codec level.  IPMI v2.0 22.30 "Set User Password": request data =
# byte 1 user id, byte 2 operation, bytes 3..18 password (16 bytes, password
# size bit [7] of byte 1 = 0)  ->  exactly 18 bytes.
# The String field is declared String('password', 16).  The value below has
# exactly the declared length: 16 characters, built the same way the library
# builds it itself (str.ljust(16, '\x00')).
# ---------------------------------------------------------------------------
def round_trip(name, setter, spec_len, what):
    req = create_request_by_name(name)
    setter(req)
    try:
        wire = encode_message(req)
    except EncodingError as e:
        # acceptable: the encoder refuses a value that does not fit the field
        print('[A] %-20s encoder refused the value (%s) -- ok' % (name, e))
        return
    print('[A] %-20s %s' % (name, what))
    print('    wire (%d bytes): %s' % (len(wire), hexs(wire)))
    if len(wire) != spec_len:
        violations.append('%s: spec/declared layout = %d bytes, got %d'
                          % (name, spec_len, len(wire)))
        print('    EXPECTED %d bytes, GOT %d' % (spec_len, len(wire)))
    # decode the library's own output with the library's own decoder
    back = create_message(req.netfn, req.cmdid, req.group_extension)
    try:
        decode_message(back, wire)
    except DecodingError as e:
        violations.append('%s: own encoding not decodable: %s' % (name, e))
        print('    decoding the encoder\'s own output: DecodingError(%s)' % e)
        return
    again = encode_message(back)
    if again != wire:
        violations.append('%s: re-encoding differs' % name)
        print('    re-encoded: %s' % hexs(again))


pw = u'pässwörd'                 # 8 characters
assert len(pw.ljust(16, '\x00')) == 16


def set_pw(req):
    req.userid.userid = 2
    req.operation.operation = 2
    req.password = pw.ljust(16, '\x00')


def set_name(req):
    req.userid.userid = 2
    req.user_name = u'müller'.ljust(16, '\x00')


def set_challenge_name(req):
    req.authentication.type = 2
    req.user_name = u'müller'.ljust(16, '\x00')


def set_activate(req):
    req.authentication.type = 2
    req.privilege_level.maximum_requested = 4
    req.challenge_string = (u'é' + 'x' * 15)     # 16 characters
    req.initial_outbound_sequence_number = 0x11223344


round_trip('SetUserPassword', set_pw, 2 + 16,
           'password = %r.ljust(16, NUL)  (16 characters)' % pw)
round_trip('SetUserName', set_name, 1 + 16,
           'user_name = u"m\\xfcller".ljust(16, NUL)  (16 characters)')
round_trip('GetSessionChallenge', set_challenge_name, 1 + 16,
           'user_name = u"m\\xfcller".ljust(16, NUL)  (16 characters)')
round_trip('ActivateSession', set_activate, 1 + 1 + 16 + 4,
           'challenge_string = u"\\xe9" + 15*"x"  (16 characters)')


# ---------------------------------------------------------------------------
# Part B: the same thing through the public API, nothing hand-built:
# Messaging.set_user_password() -> what goes to the interface?
# ---------------------------------------------------------------------------
class FakeIpmi(Messaging):
    def __init__(self):
        self.sent = []

    def send_message(self, req):
        self.sent.append((type(req).__name__, encode_message(req)))
        rsp = create_message(req.netfn + 1, req.cmdid, req.group_extension)
        decode_message(rsp, b'\x00')
        return rsp


ipmi = FakeIpmi()
for call, args, spec_len in (
        (ipmi.set_user_password, (2, pw), 18),
        (ipmi.set_username, (2, u'müller'), 17)):
    try:
        call(*args)
    except EncodingError as e:
        print('[B] %s%r: EncodingError(%s) -- ok' % (call.__name__, args, e))
        continue
    name, wire = ipmi.sent[-1]
    print('[B] %s%r sent %s, %d bytes: %s'
          % (call.__name__, args, name, len(wire), hexs(wire)))
    if len(wire) != spec_len:
        violations.append('%s via API: %d bytes on the wire, IPMI spec says %d'
                          % (name, len(wire), spec_len))
        print('    EXPECTED %d bytes, GOT %d' % (spec_len, len(wire)))

print()
if violations:
    print('PROPERTY C01 VIOLATED:')
    for v in violations:
        print('  - ' + v)
    sys.exit(1)
print('property holds on these inputs')
sys.exit(0)
