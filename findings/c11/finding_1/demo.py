"""C11 finding 1: a record without body (record length 5, 'remaining bytes'
field = 0) makes the library issue a Get SDR request for ZERO bytes at
offset == record length.  A device that rejects a read starting behind the
last byte of the record (completion code C9h, parameter out of range)
makes get_*_sdr / get_*_sdr_list fail for a fault-free repository.

run: cd /tmp/hunt_c11 && /venv/bin/python -B _hunt/finding_1/demo.py
"""
import os
import sys
sys.path.insert(0, os.path.join(os.getcwd(), '_hunt'))
from refdev import (SdrDevice, connect, make_record, read_list,   # noqa: E402
                    hexs)

violations = 0
for store in ('repository', 'device'):
    records = [make_record(0x0001, 12), make_record(0x0002, 5),
               make_record(0x0003, 9)]
    dev = SdrDevice(records, store=store, limit=255, reject_empty_read=True)
    ipmi = connect(dev)
    print('--- store: %s; records held by the device (no faults, no limit):'
          % store)
    for r in records:
        print('    id=%04x len=%3d  [%s]' % (r[0] | r[1] << 8, len(r), hexs(r)))
    try:
        got = [list(s.data) for s in read_list(ipmi, store)]
        outcome = 'returned %d records' % len(got)
    except Exception as e:            # noqa
        got = None
        outcome = 'raised %s: %s' % (type(e).__name__, e)
    print('  expected: list of the 3 records, byte-exact, in order')
    print('  got     : %s' % outcome)
    print('  requests seen by the device:')
    for kind, d in dev.log:
        if kind == 'get':
            print('    Get SDR #%(i)d rid=%(rid)04x offset=%(off)d '
                  'bytes_to_read=%(n)d -> cc=%(cc)02x' % d)
        else:
            print('    %s %s' % (kind, d))
    if got != records:
        violations += 1

    # the same repository on a device that tolerates the empty read: the
    # request for 0 bytes is still sent (one wasted round trip per such record)
    dev2 = SdrDevice(records, store=store, limit=255, reject_empty_read=False)
    got2 = [list(s.data) for s in read_list(connect(dev2), store)]
    empty = [d for k, d in dev2.log if k == 'get' and d['n'] == 0]
    print('  tolerant device: data exact=%s, zero-length requests sent=%d'
          % (got2 == records, len(empty)))

print()
if violations:
    print('PROPERTY VIOLATED: a 5-byte record cannot be retrieved '
          '(%d of 2 stores)' % violations)
    sys.exit(1)
print('property holds')
sys.exit(0)
