"""Sdr.partial_add_sdr never sends the record data.

Partial Add SDR (NetFn Storage 0Ah, cmd 25h, IPMI v2.0 33.14) request:
reservation id (2), record id (2), offset (1), in-progress (1), SDR data (N).
pyipmi stores the caller's bytes in an attribute `data` that is not a field of
the message (the field is `record_data`), so the request goes out with N = 0.

Run: cd /tmp/hunt2_c11 && /venv/bin/python -B _hunt/out_of_scope_2/demo.py
"""
import sys
sys.path.insert(0, '/tmp/hunt2_c11')
import pyipmi
from pyipmi.msgs import encode_message, decode_message, create_message

seen = []


class Intf(object):
    def send_and_receive(self, req):
        seen.append((req.netfn, req.cmdid, bytes(encode_message(req))))
        rsp = create_message(req.netfn + 1, req.cmdid, req.group_extension)
        decode_message(rsp, bytes([0x00, 0x22, 0x22]))
        return rsp


ipmi = pyipmi.Ipmi(interface=Intf(), target=pyipmi.Target(0x20))
chunk = bytes([0x22, 0x22, 0x51, 0xc0, 0x04, 0x11, 0x22, 0x33])
ipmi.partial_add_sdr(reservation_id=0x1111, record_id=0x2222, offset=0,
                     progress=1, data=chunk)
netfn, cmd, wire = seen[0]
expected = bytes([0x11, 0x11, 0x22, 0x22, 0x00, 0x01]) + chunk
print('call     : partial_add_sdr(0x1111, 0x2222, offset 0, in progress 1, '
      'data=%s)' % chunk.hex())
print('expected : netfn 0ah cmd 25h data %s' % expected.hex())
print('got      : netfn %02xh cmd %02xh data %s' % (netfn, cmd, wire.hex()))
sys.exit(0 if wire == expected else 1)
