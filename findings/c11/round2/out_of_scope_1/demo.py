"""Sdr.delete_sdr reserves the WRONG store.

Delete SDR (NetFn Storage 0Ah, cmd 26h, IPMI v2.0 33.15) needs a reservation
obtained with Reserve SDR Repository (NetFn Storage 0Ah, cmd 22h, 33.11).
pyipmi sends Reserve Device SDR Repository (NetFn Sensor/Event 04h, cmd 22h,
35.4) instead and hands that id to Delete SDR.

Run: cd /tmp/hunt2_c11 && /venv/bin/python -B _hunt/out_of_scope_1/demo.py
"""
import sys
sys.path.insert(0, '/tmp/hunt2_c11')
import pyipmi
from pyipmi.msgs import encode_message, decode_message, create_message


class Bmc(object):
    """BMC with an SDR repository (storage netfn) and, separately, a device
    SDR store (sensor netfn); each store has its own reservation counter."""
    def __init__(self):
        self.repo_res = 0x0100      # last id handed out for the repository
        self.dev_res = 0x0200       # last id handed out for the device store
        self.repo_records = {0x0001, 0x0002}
        self.log = []

    def handle(self, netfn, cmd, data):
        self.log.append('netfn=%02xh cmd=%02xh data=%s'
                        % (netfn, cmd, bytes(data).hex()))
        if (netfn, cmd) == (0x0a, 0x22):         # Reserve SDR Repository
            self.repo_res += 1
            return bytes([0, self.repo_res & 0xff, self.repo_res >> 8])
        if (netfn, cmd) == (0x04, 0x22):         # Reserve Device SDR Repository
            self.dev_res += 1
            return bytes([0, self.dev_res & 0xff, self.dev_res >> 8])
        if (netfn, cmd) == (0x0a, 0x26):         # Delete SDR
            res = data[0] | data[1] << 8
            rec = data[2] | data[3] << 8
            if res != self.repo_res or self.repo_res == 0x0100:
                return bytes([0xc5])             # invalid reservation id
            self.repo_records.discard(rec)
            return bytes([0, rec & 0xff, rec >> 8])
        return bytes([0xc1])


class Intf(object):
    def __init__(self, bmc):
        self.bmc = bmc

    def send_and_receive(self, req):
        rx = self.bmc.handle(req.netfn, req.cmdid, encode_message(req))
        rsp = create_message(req.netfn + 1, req.cmdid, req.group_extension)
        decode_message(rsp, rx)
        return rsp


bmc = Bmc()
ipmi = pyipmi.Ipmi(interface=Intf(bmc), target=pyipmi.Target(0x20))
try:
    got = ipmi.delete_sdr(0x0002)
    outcome = 'returned 0x%04x' % got
except Exception as e:              # noqa
    outcome = 'raised %r' % (e,)

print('requests seen by the BMC:')
for line in bmc.log:
    print('   ', line)
print('expected: Reserve SDR Repository (netfn 0ah cmd 22h), then Delete SDR '
      'with that id; record 0x0002 deleted')
print('got     : delete_sdr %s; repository now %s'
      % (outcome, sorted(bmc.repo_records)))
ok = bmc.log[0].startswith('netfn=0ah cmd=22h') and 0x0002 not in bmc.repo_records
sys.exit(0 if ok else 1)
