"""C11 finding 3: get_sdr_data_helper's 'retry' counter (20) is decremented
on EVERY loop iteration - also for every chunk that was read successfully -
so it is not a retry budget but a hard cap of 19 Get requests per record
(refusals included).  With a fault-free device that simply has a small
per-read limit, long records can never be read: RetryError is raised although
nothing was ever retried.

    limit  5.. 7 -> chunk 4, 4 refusals, 15 reads -> records > 65 bytes fail
    limit  8..11 -> chunk 8, 3 refusals, 16 reads -> records > 133 bytes fail
    limit 12..15 -> chunk 12, 2 refusals, 17 reads -> records > 209 bytes fail

run: cd /tmp/hunt_c11 && /venv/bin/python -B _hunt/finding_3/demo.py
"""
import os
import sys
sys.path.insert(0, os.path.join(os.getcwd(), '_hunt'))
from refdev import (SdrDevice, connect, make_record, read_list)   # noqa: E402


def attempt(store, lengths, limit):
    records = [make_record(0x0100 + i, n, seed=i)
               for i, n in enumerate(lengths)]
    dev = SdrDevice(records, store=store, limit=limit,
                    reject_empty_read=False)
    try:
        got = [list(s.data) for s in read_list(connect(dev), store)]
        res = 'exact' if got == records else 'WRONG DATA'
    except Exception as e:            # noqa
        res = 'raised %s' % type(e).__name__
    gets = [d for k, d in dev.log if k == 'get']
    refused = len([d for d in gets if d['cc'] == 0xCA])
    faults = len([d for d in gets if d['cc'] not in (0x00, 0xCA)])
    return res, len(gets), refused, faults


violations = 0
print('no faults, no reservation loss; device only has a per-read limit')
for store in ('repository', 'device'):
    for limit, length in ((5, 65), (5, 66), (7, 66), (8, 133), (8, 134),
                          (12, 209), (12, 210), (15, 260), (16, 260)):
        res, n, refused, faults = attempt(store, [length], limit)
        bad = res != 'exact'
        print('  %-10s limit=%3d record length=%3d: expected exact, got %-18s'
              ' (%d Get requests, %d refused with CAh, %d transient faults)%s'
              % (store, limit, length, res, n, refused, faults,
                 '   <-- VIOLATION' if bad else ''))
        violations += bad

# one long record makes the whole listing fail
res, n, refused, faults = attempt('repository', [20, 100, 30], 6)
print('  listing of records [20, 100, 30] bytes with limit 6: %s' % res)
violations += res != 'exact'

# full picture
print('\nlargest record readable per limit (lengths 6..260 tried):')
for limit in (5, 8, 12, 16, 20):
    ok = [n for n in range(6, 261)
          if attempt('repository', [n], limit)[0] == 'exact']
    print('  limit %2d: %d' % (limit, max(ok)))

print()
if violations:
    print('PROPERTY VIOLATED: %d fault-free reads end in RetryError'
          % violations)
    sys.exit(1)
print('property holds')
sys.exit(0)
