"""C11 finding 2: a device whose per-read limit is 4 bytes (it answers CAh
'cannot return number of requested bytes' to any request for more) can not be
read at all: the initial 5-byte header read is refused and - unlike in the
chunk loop, which shrinks its request size 20,16,12,8,4 precisely for such
devices - the refusal is not handled there.

run: cd /tmp/hunt_c11 && /venv/bin/python -B _hunt/finding_2/demo.py
"""
import os
import sys
sys.path.insert(0, os.path.join(os.getcwd(), '_hunt'))
from refdev import (SdrDevice, connect, make_record, read_list,   # noqa: E402
                    read_one, hexs)

violations = 0
for store in ('repository', 'device'):
    # lengths chosen so that neither finding 1 (length 5) nor finding 3
    # (more than 19 loop iterations) is involved
    records = [make_record(0x0010, 16), make_record(0x0020, 40, seed=1),
               make_record(0x0030, 64, seed=2)]
    for limit in (5, 4):
        dev = SdrDevice(records, store=store, limit=limit,
                        reject_empty_read=False)
        ipmi = connect(dev)
        try:
            got = [list(s.data) for s in read_list(ipmi, store)]
            outcome = 'returned %d records, exact=%s' % (len(got),
                                                         got == records)
        except Exception as e:            # noqa
            got = None
            outcome = 'raised %s: %s' % (type(e).__name__, e)
        print('store=%-10s per-read limit=%d, records of %s bytes'
              % (store, limit, [len(r) for r in records]))
        print('   expected: the 3 records, byte-exact, in order')
        print('   got     : %s' % outcome)
        gets = [d for k, d in dev.log if k == 'get']
        print('   Get requests seen by the device: %d; first: offset=%d '
              'bytes_to_read=%d -> cc=%02x'
              % (len(gets), gets[0]['off'], gets[0]['n'], gets[0]['cc']))
        if got != records:
            violations += 1

    # single record read, same thing
    dev = SdrDevice(records, store=store, limit=4, reject_empty_read=False)
    try:
        s = read_one(connect(dev), store, 0x0020)
        print('   single read of 0x0020 with limit 4: exact=%s'
              % (list(s.data) == records[1]))
    except Exception as e:                # noqa
        print('   single read of 0x0020 with limit 4: raised %s: %s'
              % (type(e).__name__, e))
        violations += 1

print()
if violations:
    print('PROPERTY VIOLATED: per-read limit 4 (inside the quantifier 4..255) '
          'is not survived')
    sys.exit(1)
print('property holds')
sys.exit(0)
