"""C14 finding 1: the IPMB request sequence number (rq_seq) is taken outside the
transaction lock, so two threads can put the SAME rq_seq on two different
requests; rq_seq is the only thing that lets Rmcp._send_and_receive tell the
reply to its own request from the (late) reply to another caller's request of
the same command.  Result: a caller is handed the reply to another thread's
request.

Run:  cd /tmp/hunt_c14 && /venv/bin/python -B _hunt/finding_1/demo.py

Schedule (source-line granularity, ONE preemption, enforced with sys.settrace
on the unmodified Rmcp._send_and_receive):

    T1: self._inc_sequence_number()            # next_sequence_number = n+1
        -- preempted --
    T2: whole request "Get Sensor Reading(0x22)"  (rq_seq = n+2); the BMC
        answers later than the socket timeout -> T2 gets RetryError
    T1: header.rq_seq = self.next_sequence_number   # reads n+2  (T2's number!)
        sends "Get Sensor Reading(0x11)" with rq_seq = n+2
        the late answer to T2's request arrives, then the answer to T1's
        -> T1 returns the reading of sensor 0x22.

The fake BMC returns reading == sensor number, so a wrong reply is visible.
"""
import inspect
import os
import sys
import threading

HERE = os.path.dirname(os.path.abspath(__file__))
sys.path.insert(0, os.path.dirname(HERE))
sys.path.insert(0, os.getcwd())

from fakebmc import FakeSocket, Frame                       # noqa: E402
from pyipmi import Target                                    # noqa: E402
from pyipmi.interfaces.rmcp import Rmcp                      # noqa: E402
from pyipmi.session import Session                           # noqa: E402

NETFN_SENSOR = 0x04
CMD_GET_SENSOR_READING = 0x2d


def run(preempt):
    intf = Rmcp(keep_alive_interval=0)          # no keep-alive: two user threads
    sock = FakeSocket(timeout=0.3)
    intf._sock = sock
    sess = Session()
    sess.set_session_type_rmcp('bmc', 623)
    sess.interface = intf
    sess.establish()
    start = len(sock.log)

    # --- the BMC answers T2's request (sensor 0x22) late -------------------
    held = []

    def on_send(raw, s):
        f = Frame('TX', raw, '')
        if (f.netfn, f.cmd) == (NETFN_SENSOR, CMD_GET_SENSOR_READING) \
                and f.data[0] == 0x22:
            held.append(s.bmc.reply(raw))       # arrives after the timeout
            return []
        late, held[:] = list(held), []
        return late + [s.bmc.reply(raw)]
    sock.on_send = on_send

    # --- deterministic scheduler: pause T1 right after _inc_sequence_number --
    code = Rmcp._send_and_receive.__code__
    src, first = inspect.getsourcelines(Rmcp._send_and_receive)
    inc_line = [first + i for i, l in enumerate(src)
                if '_inc_sequence_number()' in l][0]
    t1_paused = threading.Event()
    t2_done = threading.Event()
    state = {'after_inc': False, 'done': False}

    def local_trace(frame, event, arg):
        if event == 'line' and not state['done']:
            if state['after_inc']:
                state['done'] = True
                t1_paused.set()
                t2_done.wait(3.0)               # T1 is preempted here
            elif frame.f_lineno == inc_line:
                state['after_inc'] = True
        return local_trace

    def global_trace(frame, event, arg):
        if frame.f_code is code:
            return local_trace
        return None

    results = {}

    def reader(name, sensor, trace):
        if trace:
            sys.settrace(global_trace)
        try:
            rsp = intf.send_and_receive_raw(Target(0x20), 0, NETFN_SENSOR,
                                            bytes([CMD_GET_SENSOR_READING, sensor]))
            results[name] = ('reply', bytes(rsp))
        except Exception as e:                  # noqa
            results[name] = ('error', '%s: %s' % (type(e).__name__, e))
        finally:
            sys.settrace(None)

    t1 = threading.Thread(target=reader, name='T1', args=('T1', 0x11, preempt))
    t2 = threading.Thread(target=reader, name='T2', args=('T2', 0x22, False))
    if preempt:
        t1.start()
        t1_paused.wait(3.0)
        t2.start()
        t2.join()
        t2_done.set()
        t1.join()
    else:                                       # same fault, no preemption
        t2.start()
        t2.join()
        t1.start()
        t1.join()
    return sock, start, results


def main():
    bad = False
    for preempt in (False, True):
        print('=' * 78)
        print('T2 reads sensor 0x22 (BMC answers after the timeout), '
              'T1 reads sensor 0x11;')
        print('T1 preempted between _inc_sequence_number() and the read of '
              'next_sequence_number: %s' % preempt)
        sock, start, results = run(preempt)
        print('wire log:')
        sock.dump(start)
        for name, sensor in (('T1', 0x11), ('T2', 0x22)):
            kind, val = results[name]
            if kind == 'reply':
                # reply = cc, reading, flags, ...
                got = val[1]
                ok = got == sensor
                print('%s: asked sensor 0x%02x  expected reading 0x%02x  got 0x%02x  %s'
                      % (name, sensor, sensor, got,
                         'ok' if ok else "<-- the reply to the OTHER thread's request"))
                bad |= not ok
            else:
                print('%s: asked sensor 0x%02x  -> %s' % (name, sensor, val))
        tx = [f for f in sock.log[start:] if f.direction == 'TX']
        seqs = [(f.thread, f.rq_seq) for f in tx]
        print('rq_seq on the wire:', seqs)
        if len(set(s for _, s in seqs)) != len(seqs):
            print('   two different requests carry the same rq_seq')

    print('=' * 78)
    if bad:
        print('PROPERTY VIOLATED: a caller received the reply to another '
              "caller's request")
        sys.exit(1)
    print('property holds on this schedule')
    sys.exit(0)


if __name__ == '__main__':
    main()
