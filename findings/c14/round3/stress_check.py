"""Sanity sweep (not a finding): 3 threads x 3 requests + live keep-alive,
tiny switch interval, many seeds; checks own-reply, no interleave, seq strictly
increasing.  Also: keep-alive after one lost reply."""
import os, sys, threading, time, random
sys.path.insert(0, os.getcwd())
sys.argv = ['x']
import importlib.util
spec = importlib.util.spec_from_file_location('demo', '_hunt/finding_1/demo.py')
src = open('_hunt/finding_1/demo.py').read().split("violations = []")[0]
ns = {}
exec(compile(src, 'demo_prefix', 'exec'), ns)
from pyipmi.msgs import create_request_by_name
from pyipmi import Target
sys.setswitchinterval(1e-6)
bad = 0
for seed in range(150):
    intf, sock, session = ns['new_interface'](0.001)
    intf.establish_session(session)
    start = len(sock.wire)
    res = []
    def worker(k):
        for i in range(3):
            lun = k  # reply echoes rs_lun: tells whose reply it is, with cmd
            raw = intf.send_and_receive_raw(Target(0x20), 0, 6, b'\x01')
            res.append(raw[1] == 0x20)
    ts = [threading.Thread(target=worker, args=(k,)) for k in range(3)]
    [t.start() for t in ts]; [t.join() for t in ts]
    intf._stop_keep_alive()
    w = sock.wire[start:]
    seqs = [e[3] for e in w if e[0] == 'TX' and e[3] is not None]
    ok = all(res) and len(res) == 9 and not ns['interleaved'](w) \
        and all(a < b for a, b in zip(seqs, seqs[1:])) \
        and all(w[i][1] == w[i+1][1] for i in range(0, len(w) - 1, 2))
    bad += not ok
print('stress: %d bad of 150' % bad)

# keep-alive after one lost reply
errs = []
threading.excepthook = lambda a: errs.append(a.exc_type.__name__)
intf, sock, session = ns['new_interface'](0.05)
intf.establish_session(session)
intf.set_timeout(0.1)
orig = sock._deliver
drop = [1]
def deliver(frame):
    if drop[0] and threading.current_thread().name != 'MainThread':
        drop[0] -= 1; return
    orig(frame)
sock._deliver = deliver
time.sleep(0.6)
n = len([e for e in sock.wire if e[0] == 'TX' and '(loop)' in e[1]])
print('keep-alive: one reply lost -> thread errors %s, keep-alive requests sent in 0.6 s: %d' % (errs, n))
