"""C14 finding 1: Rmcp.ping() does its send + receive on the shared socket
WITHOUT the per-interface transaction lock.

Run:  cd /tmp/h3_C14 && /venv/bin/python -B _hunt/finding_1/demo.py

Two deterministic schedules, both with the real, unmodified pyipmi code and a
substituted socket whose peer is a small spec-built BMC (RMCP/ASF 2.0 presence
pong, IPMI v1.5 LAN session with authentication type NONE):

  schedule A  the interface's own keep-alive thread is waiting for the reply
              to its Get Device ID while a user thread calls interface.ping()
  schedule B  a user thread has sent the ASF ping; before it reads the pong a
              second user thread runs one complete IPMI request

Exit status 1 = property violated, 0 = holds.
"""
import os
import socket
import sys
import threading
import time
from collections import deque

sys.path.insert(0, os.getcwd())

from pyipmi.interfaces.rmcp import Rmcp          # noqa: E402
from pyipmi.session import Session               # noqa: E402
from pyipmi.msgs import create_request_by_name   # noqa: E402
from pyipmi import Target                        # noqa: E402


def csum(bs):
    return (-sum(bs)) & 0xff


def le32(v):
    return [v & 0xff, (v >> 8) & 0xff, (v >> 16) & 0xff, (v >> 24) & 0xff]


class FakeBmcSocket(object):
    """UDP socket stand-in: ordered wire log + a BMC answering per the specs."""

    def __init__(self):
        self.cv = threading.Condition()
        self.rxq = deque()
        self.timeout = None
        self.wire = []              # (dir, thread name, description, session seq)
        self.in_recv = set()        # names of threads blocked in recvfrom
        self.held = None            # a reply the (slow) BMC has not sent yet
        self.hold_next_keepalive = False
        self.after_ping_sent = None  # schedule hook, runs in the pinging thread
        self.sid = 0x11223344

    # -- socket API used by pyipmi ------------------------------------------
    def settimeout(self, t):
        self.timeout = t

    def gettimeout(self):
        return self.timeout

    def sendto(self, pdu, addr):
        me = threading.current_thread().name
        pdu = bytearray(pdu)
        assert pdu[0] == 6 and pdu[1] == 0
        if pdu[3] == 0x06:                       # ASF
            assert pdu[8] == 0x80                # presence ping
            tag = pdu[9]
            with self.cv:
                self.wire.append(('TX', me, 'ASF ping', None))
            pong = bytearray([6, 0, 0xff, 0x06,
                              0x00, 0x00, 0x11, 0xbe, 0x40, tag, 0, 16,
                              0x00, 0x00, 0x11, 0xbe, 0, 0, 0, 0,
                              0x81, 0x00, 0, 0, 0, 0, 0, 0])
            self._deliver(bytes(pong))
            if self.after_ping_sent:
                hook, self.after_ping_sent = self.after_ping_sent, None
                hook()
            return len(pdu)

        assert pdu[3] == 0x07                    # IPMI
        authtype = pdu[4]
        seq = pdu[5] | pdu[6] << 8 | pdu[7] << 16 | pdu[8] << 24
        hdr = 4 + (10 if authtype == 0 else 26)
        msg = pdu[hdr:]
        rs_sa, netfn, rs_lun = msg[0], msg[1] >> 2, msg[1] & 3
        rq_sa, rq_seq, rq_lun, cmd = msg[3], msg[4] >> 2, msg[4] & 3, msg[5]
        with self.cv:
            self.wire.append(('TX', me, 'IPMI req netfn=%02x cmd=%02x rqseq=%d'
                              % (netfn, cmd, rq_seq), seq))
        data = {
            0x38: [0x01, 0x01, 0x00, 0x00, 0, 0, 0, 0],
            0x39: le32(0x0a0b0c0d) + list(range(16)),
            0x3a: [0x00] + le32(self.sid) + le32(0x10) + [0x04],
            0x3b: [0x04],
            0x3c: [],
            0x01: [0x20, 0x81, 0x01, 0x02, 0x02, 0xbf, 0x3a, 0x3d, 0x00,
                   0x34, 0x12],
        }[cmd]
        rsp = [rq_sa, ((netfn | 1) << 2) | rq_lun]
        rsp.append(csum(rsp))
        tail = [rs_sa, (rq_seq << 2) | rs_lun, cmd, 0x00] + data
        tail.append(csum(tail))
        rsp += tail
        frame = bytes(bytearray([6, 0, 0xff, 0x07, 0x00] + le32(seq)
                                + le32(self.sid) + [len(rsp)] + rsp))
        if self.hold_next_keepalive and cmd == 0x01 and me != 'MainThread':
            # a slow BMC: the reply comes 0.4 s later at the latest
            self.hold_next_keepalive = False
            with self.cv:
                self.held = frame
                self.cv.notify_all()
            t = threading.Timer(0.4, self.release_held)
            t.daemon = True
            t.start()
        else:
            self._deliver(frame)
        return len(pdu)

    def recvfrom(self, n):
        me = threading.current_thread().name
        with self.cv:
            if self.timeout == 0:
                if not self.rxq:
                    raise BlockingIOError(11, 'would block')
            else:
                self.in_recv.add(me)
                self.cv.notify_all()
                end = time.time() + (self.timeout or 3600)
                while not self.rxq:
                    left = end - time.time()
                    if left <= 0:
                        self.in_recv.discard(me)
                        raise socket.timeout('timed out')
                    self.cv.wait(left)
                self.in_recv.discard(me)
            frame = self.rxq.popleft()
            what = 'ASF pong' if bytearray(frame)[3] == 6 else 'IPMI rsp'
            if self.timeout == 0:
                what += ' (discarded by _drain_socket)'
            self.wire.append(('RX', me, what, None))
            self.cv.notify_all()
            return (frame, ('192.0.2.1', 623))

    # -- BMC side ---------------------------------------------------------------
    def _deliver(self, frame):
        with self.cv:
            self.rxq.append(frame)
            self.cv.notify_all()

    def release_held(self):
        with self.cv:
            if self.held is not None:
                self.rxq.append(self.held)
                self.held = None
                self.cv.notify_all()

    def wait_for(self, pred, timeout):
        with self.cv:
            return self.cv.wait_for(pred, timeout)


def interleaved(wire):
    """A second request transmitted while an earlier one is unanswered."""
    outstanding = 0
    for (d, _, what, _) in wire:
        if d == 'TX':
            outstanding += 1
            if outstanding > 1:
                return True
        elif 'discarded' not in what:
            outstanding = max(0, outstanding - 1)
    return False


def dump(wire, start=0):
    for e in wire[start:]:
        print('      %-2s %-12s %s%s' % (e[0], e[1], e[2],
              '' if e[3] is None else '  session_seq=0x%x' % e[3]))


def new_interface(keep_alive_interval):
    intf = Rmcp(keep_alive_interval=keep_alive_interval)
    sock = FakeBmcSocket()
    intf._sock = sock            # what open() would create
    intf.set_timeout(1.0)
    session = Session()
    session.set_session_type_rmcp('192.0.2.1', 623)
    return intf, sock, session


violations = []

# --------------------------------------------------------------------------
print('schedule A: keep-alive thread mid-transaction, user thread calls ping()')
thread_errors = []
threading.excepthook = lambda a: thread_errors.append(
    (a.thread.name, a.exc_type.__name__, str(a.exc_value)))

intf, sock, session = new_interface(keep_alive_interval=0.05)
sock.hold_next_keepalive = True
intf.establish_session(session)          # starts the real keep-alive thread
start = len(sock.wire)
# wait until the keep-alive has sent Get Device ID and blocks in recvfrom
assert sock.wait_for(lambda: sock.held is not None and sock.in_recv, 2.0)


def after_ping_a():
    # main thread is preempted right after its sendto: the pong (already
    # queued) is picked up by the thread that is blocked in recvfrom; then
    # the slow Get Device ID reply arrives.
    if sock.held is not None and sock.in_recv:
        sock.wait_for(lambda: not sock.rxq, 1.0)
        sock.release_held()


sock.after_ping_sent = after_ping_a
ping_result = 'returned normally (pong received)'
try:
    intf.ping()
except Exception as e:                                   # noqa
    ping_result = 'raised %s: %s' % (type(e).__name__, e)
time.sleep(0.2)
if intf._stop_keep_alive:
    intf._stop_keep_alive()
dump(sock.wire, start)
print('   expected: ping() returns normally; the keep-alive gets its own '
      'Get Device ID reply; one exchange at a time on the wire')
print('   got     : ping() %s' % ping_result)
print('   got     : keep-alive thread errors: %s' % (thread_errors or 'none'))
il = interleaved(sock.wire[start:start + 4])
print('   got     : two requests outstanding on the socket: %s' % il)
if 'raised' in ping_result:
    violations.append('A: ping() caller did not get its own reply')
if thread_errors:
    violations.append('A: keep-alive got the reply of another request')
if il:
    violations.append('A: exchanges interleaved on the socket')

# --------------------------------------------------------------------------
print()
print('schedule B: ping sent, then another thread runs one whole request, '
      'then the pinging thread reads')
intf, sock, session = new_interface(keep_alive_interval=0)
intf.establish_session(session)
start = len(sock.wire)
worker_result = []


def worker():
    req = create_request_by_name('GetDeviceId')
    req.target = Target(0x20)
    try:
        rsp = intf.send_and_receive(req)
        worker_result.append('device_id=0x%02x' % rsp.device_id)
    except Exception as e:                               # noqa
        worker_result.append('raised %s: %s' % (type(e).__name__, e))


w = threading.Thread(target=worker, name='worker')


def after_ping_b():
    w.start()
    w.join(0.4)     # with ping() under the lock the worker just waits


sock.after_ping_sent = after_ping_b
ping_result = 'returned normally (pong received)'
try:
    intf.ping()
except Exception as e:                                   # noqa
    ping_result = 'raised %s: %s' % (type(e).__name__, e)
w.join()
dump(sock.wire, start)
print('   expected: ping() returns normally (the BMC did answer with a pong)')
print('   got     : ping() %s' % ping_result)
print('   got     : worker %s' % worker_result)
il = interleaved(sock.wire[start:])
print('   got     : two requests outstanding on the socket: %s' % il)
if 'raised' in ping_result:
    violations.append('B: ping() caller did not get its reply (the pong was '
                      'discarded by the other thread\'s _drain_socket)')
if il:
    violations.append('B: exchanges interleaved on the socket')
if worker_result != ['device_id=0x20']:
    violations.append('B: worker did not get its reply')

print()
if violations:
    print('C14 VIOLATED:')
    for v in violations:
        print('  - ' + v)
    sys.exit(1)
print('C14 holds on both schedules')
sys.exit(0)
