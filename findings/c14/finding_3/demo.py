"""C14 finding 3: Rmcp.establish_session() starts a new keep-alive thread without
stopping the one of the previous session; the stop function of the old thread
is overwritten and lost.  After close_session() the orphaned keep-alive thread
goes on issuing Get Device ID requests through the interface for ever:

  * requests are transmitted after Close Session, and
  * because Session.activated is False by then, IpmiMsg.pack() no longer
    increments the session sequence number: the same number is put on the wire
    again and again - the session sequence numbers are NOT strictly increasing
    in transmission order.

Sequence: session.establish(); session.establish() (re-establish, e.g. after
the BMC dropped the session); session.close().

Run:  cd /tmp/hunt_c14 && /venv/bin/python -B _hunt/finding_3/demo.py
"""
import os
import sys
import threading
import time

HERE = os.path.dirname(os.path.abspath(__file__))
sys.path.insert(0, os.path.dirname(HERE))
sys.path.insert(0, os.getcwd())

from fakebmc import FakeSocket                               # noqa: E402
from pyipmi.interfaces.rmcp import Rmcp                      # noqa: E402
from pyipmi.session import Session                           # noqa: E402


def main():
    intf = Rmcp(keep_alive_interval=0.05)
    sock = FakeSocket(timeout=0.5)
    intf._sock = sock
    threads_before = threading.active_count()

    sess = Session()
    sess.set_session_type_rmcp('bmc', 623)
    sess.interface = intf

    sess.establish()
    time.sleep(0.12)
    sess.close()
    print('control  : establish(); close()')
    n = len(sock.log)
    time.sleep(0.3)
    print('           frames transmitted in 0.3 s after Close Session: %d'
          % (len(sock.log) - n))
    print('           keep-alive threads still alive: %d'
          % (threading.active_count() - threads_before))

    # ---- the failing sequence -------------------------------------------
    intf = Rmcp(keep_alive_interval=0.25)
    sock = FakeSocket(timeout=0.5)
    intf._sock = sock
    sess = Session()
    sess.set_session_type_rmcp('bmc', 623)
    sess.interface = intf
    threads_before = threading.active_count()

    sess.establish()
    sess.establish()        # well inside the first keep-alive interval
    sess.close()
    closed_at = len(sock.log)
    time.sleep(0.9)
    after = [f for f in sock.log[closed_at:] if f.direction == 'TX']

    print('failing  : establish(); establish(); close()')
    print('wire log (requests only) from Close Session on:')
    for f in sock.log[closed_at - 2:]:
        if f.direction == 'TX':
            print('   %s' % f)
    leaked = threading.active_count() - threads_before
    seqs = [f.session_seq for f in sock.log[closed_at - 2:] if f.direction == 'TX']
    increasing = all(a < b for a, b in zip(seqs, seqs[1:]))
    print('expected : 0 requests after Close Session, 0 keep-alive threads alive')
    print('got      : %d requests after Close Session, %d keep-alive thread(s) '
          'alive' % (len(after), leaked))
    print('           session sequence numbers from Close Session on: %s'
          % ['0x%08x' % s for s in seqs])
    print('           strictly increasing: %s' % increasing)
    if after or leaked or not increasing:
        print('PROPERTY VIOLATED')
        sys.exit(1)
    print('property holds')
    sys.exit(0)


if __name__ == '__main__':
    main()
