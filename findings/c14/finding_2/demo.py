"""C14 finding 2: Rmcp.ping() (ASF presence ping / pong) uses the socket WITHOUT
the per-interface transaction lock.  A ping issued by one thread while the
interface's own keep-alive thread (or any other caller) is inside its
send+receive exchange is interleaved with that exchange on the socket, and each
of the two threads can be handed the other's reply.

ping() is a public method of the interface and is also the first step of
Rmcp.establish_session() (re-establishing a session while the keep-alive of the
previous one is still running goes through exactly this path).

Run:  cd /tmp/hunt_c14 && /venv/bin/python -B _hunt/finding_2/demo.py

Schedule (socket/lock granularity, one preemption):

    keep-alive: acquire transaction_lock; sendto(Get Device ID)
                recvfrom() ... (reply is on its way, latency 0.2 s)
    main      : ping(): sendto(ASF ping)          <-- not blocked by the lock
                recvfrom() -> gets the Get Device ID reply -> DecodingError
    keep-alive: recvfrom() -> gets the ASF pong       -> DecodingError,
                the keep-alive thread dies
"""
import os
import sys
import threading

HERE = os.path.dirname(os.path.abspath(__file__))
sys.path.insert(0, os.path.dirname(HERE))
sys.path.insert(0, os.getcwd())

from fakebmc import FakeSocket, Frame                       # noqa: E402
from pyipmi.interfaces.rmcp import Rmcp                      # noqa: E402
from pyipmi.session import Session                           # noqa: E402


def main():
    intf = Rmcp(keep_alive_interval=0.05)
    sock = FakeSocket(timeout=1.0)
    intf._sock = sock

    ka_sent = threading.Event()
    main_received = threading.Event()
    armed = threading.Event()
    held = []
    held_lock = threading.Lock()
    thread_errors = []

    def release_held():
        with held_lock:
            frames, held[:] = list(held), []
        for r in frames:
            sock.deliver(r)

    def on_send(raw, s):
        me = threading.current_thread()
        if armed.is_set() and me is not threading.main_thread() \
                and not ka_sent.is_set():
            # first keep-alive request after arming: the reply takes 0.2 s
            with held_lock:
                held.append(s.bmc.reply(raw))
            threading.Timer(0.2, release_held).start()
            ka_sent.set()
            return []
        # the BMC answers in the order of the requests
        release_held()
        return [s.bmc.reply(raw)]

    def before_recv(s):
        # scheduler: once the keep-alive request is out, let the main thread
        # (if it gets that far) do its recvfrom first
        if armed.is_set() and threading.current_thread() is not threading.main_thread() \
                and ka_sent.is_set():
            main_received.wait(0.5)

    sock.on_send = on_send
    sock.before_recv = before_recv
    threading.excepthook = lambda a: thread_errors.append(
        '%s: %s' % (a.exc_type.__name__, a.exc_value))

    sess = Session()
    sess.set_session_type_rmcp('bmc', 623)
    sess.interface = intf
    sess.establish()                     # starts the keep-alive thread
    start = len(sock.log)
    armed.set()

    ka_sent.wait(2.0)                    # keep-alive exchange is in flight
    ping_error = None
    try:
        intf.ping()
    except Exception as e:               # noqa
        ping_error = '%s: %s' % (type(e).__name__, e)
    main_received.set()

    # let the keep-alive finish its exchange, then stop it
    import time
    time.sleep(0.4)
    try:
        sess.close()
    except Exception as e:               # noqa
        print('close_session:', type(e).__name__, e)

    log = sock.log[start:]
    print('wire log from the first keep-alive request on:')
    for i, f in enumerate(log):
        print('  %2d %s' % (i, f))

    # clause "request/reply exchanges are not interleaved on the socket":
    # between a TX and the RX that ends that exchange there must be no other TX
    interleaved = False
    outstanding = 0
    for f in log:
        if f.direction == 'TX':
            outstanding += 1
            if outstanding > 1:
                interleaved = True
        else:
            outstanding -= 1
    # clause "each caller receives the reply to its own request"
    crossed = [f for f in log if f.direction == 'RX'
               and ((f.is_asf and f.thread != 'MainThread')
                    or (not f.is_asf and f.cmd == 0x01 and f.thread == 'MainThread'))]

    print()
    print('expected: ping() returns None, keep-alive thread keeps running, '
          'one exchange at a time on the socket')
    print('got     : ping() -> %s' % (ping_error or 'None'))
    print('          keep-alive thread -> %s' % (thread_errors or 'alive'))
    print('          two requests outstanding on the socket at once: %s' % interleaved)
    print('          replies read by the wrong thread: %d' % len(crossed))
    if interleaved or crossed or ping_error or thread_errors:
        print('PROPERTY VIOLATED')
        sys.exit(1)
    print('property holds on this schedule')
    sys.exit(0)


if __name__ == '__main__':
    main()
