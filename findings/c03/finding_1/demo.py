#!/usr/bin/env python
"""C03 finding 1: over RMCP, the wrapper of a bridged reply is unwrapped and
consumed without any verification (pyipmi/interfaces/ipmb.py:decode_bridged_message,
called from Rmcp._send_and_receive for every received frame whose byte 5 is 0x34).

Run:  cd /tmp/hunt_c03 && /venv/bin/python -B _hunt/finding_1/demo.py
Exit status 1 = property violated, 0 = property holds.
"""
import os
import socket
import struct
import sys

sys.path.insert(0, os.getcwd())

from pyipmi import Target                       # noqa: E402
from pyipmi.errors import RetryError            # noqa: E402
from pyipmi.interfaces.rmcp import Rmcp         # noqa: E402
from pyipmi.session import Session              # noqa: E402


# --- stimuli built from the IPMI specification, not with library helpers ------
def csum(b):
    return (-sum(b)) & 0xff


def ipmb_frame(addr0, netfn, lun0, addr1, seq, lun1, cmd, data):
    """IPMI v2.0 figure 'IPMB/LAN message format':
    addr0 | netfn<<2|lun0 | chk1 | addr1 | seq<<2|lun1 | cmd | data.. | chk2"""
    head = [addr0, (netfn << 2) | lun0]
    head.append(csum(head))
    body = [addr1, (seq << 2) | lun1, cmd] + list(data)
    body.append(csum(body))
    return bytes(head + body)


RMCP_HDR = bytes([0x06, 0x00, 0xff, 0x07])      # version, reserved, seq, class IPMI


class FakeSocket(object):
    """UDP socket: records what is sent, hands out the queued reply frames
    (wrapped in RMCP + IPMI-1.5 session header, auth type none), then times out."""

    def __init__(self, replies):
        self.sent = []
        self.replies = list(replies)

    def settimeout(self, t):
        pass

    def sendto(self, pdu, addr):
        self.sent.append(pdu)

    def recvfrom(self, n):
        if not self.replies:
            raise socket.timeout()
        f = self.replies.pop(0)
        return (RMCP_HDR + struct.pack('!BIIB', 0, 0, 0, len(f)) + f, None)


def transact(target, lun, netfn, cmd, replies, seq):
    """One real Rmcp.send_and_receive_raw() transaction.  Returns
    ('ACCEPT', data) / ('REJECT', None) / ('RAISE', exception)."""
    intf = Rmcp(keep_alive_interval=0, max_retries=0)
    intf._sock = FakeSocket(replies)
    intf.host, intf.port = 'bmc', 623
    session = Session()
    session.auth_type = Session.AUTH_TYPE_NONE
    session.sid = 0
    intf._session = session
    intf.next_sequence_number = seq - 1         # the transaction uses `seq`
    try:
        return ('ACCEPT', intf.send_and_receive_raw(target, lun, netfn, bytes([cmd])))
    except RetryError:
        return ('REJECT', None)                 # nothing acceptable until the time-out
    except Exception as e:                      # noqa
        return ('RAISE', e)


violations = 0
SEQ = 5

# ------------------------------------------------------------------------------
print('== A. bridged request (ATCA: 0x81 -> ShMC 0x20, channel 0 -> blade 0x82) ==')
routing = [(0x81, 0x20, 0), (0x20, 0x82, None)]
NETFN, LUN, CMD = 0x06, 0, 0x01                 # Get Device ID
rsp_data = bytes([0x00] + list(range(1, 12)))   # cc=0 + 11 data bytes
inner = ipmb_frame(0x20, NETFN + 1, 0, 0x82, SEQ, LUN, CMD, rsp_data)
# Send Message response (netfn App+1 = 7, cmd 0x34), cc = 0, response data = inner frame
good = ipmb_frame(0x81, 0x07, 0, 0x20, SEQ, 0, 0x34, bytes([0x00]) + inner)
print('intact reply          :', good.hex())
out = transact(Target(routing=routing), LUN, NETFN, CMD, [good], SEQ)
print('intact reply          ->', out[0], out[1].hex() if out[0] == 'ACCEPT' else out[1])
assert out == ('ACCEPT', rsp_data), 'demo set-up is wrong: intact reply must be accepted'

accepted = {}
raised = {}
total = 0
for i in range(len(good)):
    for v in range(256):
        if v == good[i]:
            continue
        total += 1
        bad = bytearray(good)
        bad[i] = v
        out = transact(Target(routing=routing), LUN, NETFN, CMD, [bytes(bad)], SEQ)
        if out[0] == 'ACCEPT':
            accepted.setdefault(i, []).append(v)
        elif out[0] == 'RAISE':
            raised.setdefault(i, []).append((v, out[1]))
n_acc = sum(len(x) for x in accepted.values())
n_exc = sum(len(x) for x in raised.values())
print('single-byte corruptions tried: %d (255 x %d bytes)' % (total, len(good)))
print('expected: every one rejected (RetryError after the time-out)')
print('got     : %d ACCEPTED as the reply, %d made the transaction raise' % (n_acc, n_exc))
for i in sorted(accepted):
    bad = bytearray(good)
    bad[i] = accepted[i][0]
    print('   byte %2d (0x%02x): %3d corrupt values accepted, e.g. 0x%02x: %s'
          % (i, good[i], len(accepted[i]), accepted[i][0], bytes(bad).hex()))
    print('            header sum %% 256 = %d, body sum %% 256 = %d (both must be 0)'
          % (sum(bad[:3]) % 256, sum(bad[3:]) % 256))
for i in sorted(raised):
    v, e = raised[i][0]
    print('   byte %2d (0x%02x): %3d corrupt values raise, e.g. 0x%02x -> %r'
          % (i, good[i], len(raised[i]), v, e))
violations += n_acc + n_exc

# ------------------------------------------------------------------------------
print()
print('== B. direct (not bridged) request, reply with the command byte damaged to 0x34 ==')
# Get Device ID answered with completion code 0xC0 (node busy); the command byte
# 0x01 is damaged to 0x34 in transit, so the payload checksum no longer verifies.
good = ipmb_frame(0x81, 0x07, 0, 0x20, SEQ, 0, 0x01, bytes([0xc0]))
bad = bytearray(good)
bad[5] = 0x34
bad = bytes(bad)
print('intact reply   :', good.hex(), '->', transact(Target(0x20), 0, 6, 1, [good], SEQ)[0])
out = transact(Target(0x20), 0, 6, 1, [bad], SEQ)
print('corrupted reply:', bad.hex(), ' body sum %% 256 = %d' % (sum(bad[3:]) % 256))
print('expected: REJECT')
print('got     :', out[0], repr(out[1]))
if out[0] != 'REJECT':
    violations += 1

# PICMG Get Address Info style reply (netfn 0x2d) with 3 data bytes, command damaged to 0x34
good = ipmb_frame(0x81, 0x2d, 0, 0x20, SEQ, 0, 0x01, bytes([0x00, 0x00, 0x12, 0x34]))
bad = bytearray(good)
bad[5] = 0x34
bad = bytes(bad)
out = transact(Target(0x20), 0, 0x2c, 1, [bad], SEQ)
print('corrupted reply:', bad.hex(), ' body sum %% 256 = %d' % (sum(bad[3:]) % 256))
print('expected: REJECT')
print('got     :', out[0], repr(out[1]))
if out[0] != 'REJECT':
    violations += 1

print()
if violations:
    print('PROPERTY C03 VIOLATED: %d corrupted replies were not rejected' % violations)
    sys.exit(1)
print('property holds: all corrupted replies rejected')
sys.exit(0)
