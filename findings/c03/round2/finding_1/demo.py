#!/usr/bin/env python
"""C03 finding 1: the response frame the library builds for a request
(IpmbHeaderRsp.from_req_header + encode_ipmb_msg, the path its BMC emulation
transmits on) does not carry the network function, addresses and LUNs a
response to that request has to carry; the library's own reply filter
rejects it.

Run: cd /tmp/hunt2_c03 && /venv/bin/python -B _hunt/finding_1/demo.py
Exit status 1 = property violated, 0 = holds.
"""
import os
import socket
import sys
import types

sys.path.insert(0, os.getcwd())

from pyipmi.interfaces.ipmb import (IpmbHeaderReq, IpmbHeaderRsp,  # noqa: E402
                                    encode_ipmb_msg, rx_filter)


# --- independent encoders, straight from IPMI v2.0 figure 13-4 / IPMB v1.0 2.11
def csum(b):
    return (-sum(b)) & 0xff


def spec_request(rs_sa, netfn, rs_lun, rq_sa, rq_seq, rq_lun, cmd, data=b''):
    h = [rs_sa, netfn << 2 | rs_lun]
    h.append(csum(h))
    p = [rq_sa, rq_seq << 2 | rq_lun, cmd] + list(data)
    p.append(csum(p))
    return bytes(h + p)


def spec_response(rs_sa, netfn, rs_lun, rq_sa, rq_seq, rq_lun, cmd, data):
    """Response to the request with the given (request) field values:
    rqSA, (netFn+1)/rqLUN, chk1, rsSA, rqSeq/rsLUN, cmd, cc+data, chk2."""
    h = [rq_sa, (netfn + 1) << 2 | rq_lun]
    h.append(csum(h))
    p = [rs_sa, rq_seq << 2 | rs_lun, cmd] + list(data)
    p.append(csum(p))
    return bytes(h + p)


violations = 0

# ---------------------------------------------------------------- part 1
print('part 1: IpmbHeaderRsp.from_req_header + encode_ipmb_msg')
shown = 0
total = 0
for netfn in range(0, 64, 2):
    for rs_lun in range(4):
        for rq_lun in range(4):
            for rq_seq in (0, 1, 0x15, 63):
                for rs_sa, rq_sa, cmd in ((0x20, 0x81, 0x01), (0x82, 0x20, 0x34),
                                          (0xfe, 0x02, 0xff)):
                    total += 1
                    req_bytes = spec_request(rs_sa, netfn, rs_lun, rq_sa,
                                             rq_seq, rq_lun, cmd)
                    req_header = IpmbHeaderReq(data=req_bytes)
                    rsp_header = IpmbHeaderRsp()
                    rsp_header.from_req_header(req_header)
                    payload = b'\x00\xaa\xbb'     # cc=00 + 2 data bytes
                    got = encode_ipmb_msg(rsp_header, payload)
                    exp = spec_response(rs_sa, netfn, rs_lun, rq_sa, rq_seq,
                                        rq_lun, cmd, payload)
                    accepted = rx_filter(req_header, got)
                    if got != exp or not accepted:
                        violations += 1
                        if shown < 3:
                            shown += 1
                            print('  request  : %s' % req_bytes.hex(' '))
                            print('    (rsSA=%02xh netFn=%02xh rsLUN=%d rqSA=%02xh '
                                  'rqSeq=%d rqLUN=%d cmd=%02xh)'
                                  % (rs_sa, netfn, rs_lun, rq_sa, rq_seq,
                                     rq_lun, cmd))
                            print('  expected : %s' % exp.hex(' '))
                            print('  got      : %s' % got.hex(' '))
                            print('    got netFn=%02xh (expected %02xh), first '
                                  'byte %02xh (expected rqSA %02xh), 4th byte '
                                  '%02xh (expected rsSA %02xh)'
                                  % (got[1] >> 2, netfn + 1, got[0], rq_sa,
                                     got[3], rs_sa))
                            print('  the library\'s own rx_filter(request header, '
                                  'got) -> %s (expected True)' % accepted)
print('  %d of %d requests get a wrong response frame' % (violations, total))

# ---------------------------------------------------------------- part 2
print('part 2: pyipmi RMCP client <-> pyipmi BMC emulation (Get Device ID)')
# pyipmi.emulation imports yaml only to read an optional config file
sys.modules.setdefault('yaml', types.ModuleType('yaml'))
import pyipmi.emulation as emu                       # noqa: E402
from pyipmi import Target                            # noqa: E402
from pyipmi.interfaces.rmcp import Rmcp              # noqa: E402


class LoopbackSocket(object):
    """Datagrams the client sends are handed to the emulation's handler;
    what the emulation sends back is queued for the client."""
    def __init__(self):
        self.rxq = []
        self.timeout = 2.0
        self.context = emu.ConnectionContext(None, self, 'client')
        self.frames_from_emulation = []

    def settimeout(self, t):
        self.timeout = t

    def gettimeout(self):
        return self.timeout

    def sendto(self, pdu, addr):
        if addr == 'client':
            self.frames_from_emulation.append(pdu[14:])   # RMCP 4 + session 10
            self.rxq.append(pdu)
        else:
            emu.handle_thread(self.context, pdu)

    def recvfrom(self, n):
        if self.timeout == 0:
            raise BlockingIOError()
        if not self.rxq:
            raise socket.timeout()
        return (self.rxq.pop(0), None)


client = Rmcp(slave_address=0x81, max_retries=0)
client._sock = LoopbackSocket()
client.host, client.port, client._session = 'bmc', 623, None
try:
    rsp = client.send_and_receive_raw(Target(0x20), 0, 6, b'\x01')
    print('  Get Device ID answered: %s' % bytes(rsp).hex(' '))
except Exception as e:  # noqa
    violations += 1
    print('  emulation transmitted: %s'
          % ' | '.join(f.hex(' ') for f in client._sock.frames_from_emulation))
    print('  expected header      : 81 1c 63 20 04 01 ...')
    print('  client raised %r (expected: the Get Device ID response)' % e)

if violations:
    print('RESULT: property C03 violated')
    sys.exit(1)
print('RESULT: ok')
sys.exit(0)
