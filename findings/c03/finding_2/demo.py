#!/usr/bin/env python
"""C03 finding 2: the IPMB frames transmitted by the library's BMC emulation
(pyipmi/emulation.py) for a command it does not know carry two invalid
checksums (and, for a request without data, no completion code at all).

Run:  cd /tmp/hunt_c03 && /venv/bin/python -B _hunt/finding_2/demo.py
Exit status 1 = property violated, 0 = property holds.
"""
import os
import struct
import sys
import types

sys.path.insert(0, os.getcwd())
# pyipmi/emulation.py imports yaml for its config file only (not installed here,
# not used by the code under test)
sys.modules.setdefault('yaml', types.ModuleType('yaml'))

from pyipmi import emulation                                 # noqa: E402
from pyipmi.interfaces.ipmb import IpmbHeaderReq, rx_filter  # noqa: E402


def csum(b):
    return (-sum(b)) & 0xff


def ipmb_frame(addr0, netfn, lun0, addr1, seq, lun1, cmd, data):
    """IPMI v2.0 'IPMB/LAN message format', built from the specification."""
    head = [addr0, (netfn << 2) | lun0]
    head.append(csum(head))
    body = [addr1, (seq << 2) | lun1, cmd] + list(data)
    body.append(csum(body))
    return bytes(head + body)


def ask_emulator(req_frame):
    """Hand one IPMI-over-LAN request (IPMI 1.5 session header, auth none) to the
    emulator's real request handler; return the IPMB frame it transmits."""
    ctx = emulation.ConnectionContext(None, None, None)
    sdu = struct.pack('!BIIB', 0, 0, 0, len(req_frame)) + req_frame
    pdu = emulation.handle_rmcp_ipmi_msg(ctx, sdu)
    assert pdu[0] == 0 and pdu[9] == len(pdu) - 10
    return pdu[10:]


RS_SA, RQ_SA = 0x20, 0x81
cases = [
    # (text, netfn, rs_lun, rq_lun, seq, cmd, request data)
    ('unknown App command 0xfe, no data', 0x06, 0, 0, 5, 0xfe, b''),
    ('unknown OEM command 0x30/0x77, 2 data bytes', 0x30, 0, 0, 9, 0x77, b'\x01\x02'),
    ('unknown command, LUNs 2/1', 0x06, 2, 1, 63, 0xfd, b'\xaa'),
]

violations = 0
for text, netfn, rs_lun, rq_lun, seq, cmd, data in cases:
    req = ipmb_frame(RS_SA, netfn, rs_lun, RQ_SA, seq, rq_lun, cmd, data)
    rsp = ask_emulator(req)
    # what a responder has to send (IPMI v2.0 table 5-2, cc 0xC1 = invalid command)
    exp = ipmb_frame(RQ_SA, netfn + 1, rq_lun, RS_SA, seq, rs_lun, cmd, b'\xc1')
    hs, bs = sum(rsp[:3]) % 256, sum(rsp[3:]) % 256
    print(text)
    print('  request             :', req.hex())
    print('  expected reply      :', exp.hex(), '(header sum 0, body sum 0)')
    print('  emulator transmitted:', rsp.hex(), '(header sum %d, body sum %d)' % (hs, bs))
    print('  the library\'s own rx_filter accepts it:',
          rx_filter(IpmbHeaderReq(data=req), rsp))
    if hs != 0 or bs != 0:
        print('  -> VIOLATION: checksum(s) invalid')
        violations += 1
    elif rsp != exp:
        print('  -> VIOLATION: frame does not carry what it has to carry')
        violations += 1

print()
print('for comparison, a command the emulator knows (Get Device ID):')
req = ipmb_frame(RS_SA, 0x06, 2, RQ_SA, 5, 1, 0x01, b'')
rsp = ask_emulator(req)
print('  request             :', req.hex())
print('  emulator transmitted:', rsp.hex(), '(header sum %d, body sum %d)'
      % (sum(rsp[:3]) % 256, sum(rsp[3:]) % 256))
print('  expected header     :', ipmb_frame(RQ_SA, 0x07, 1, RS_SA, 5, 2, 0x01, b'')[:6].hex())
print('  the library\'s own rx_filter accepts it:',
      rx_filter(IpmbHeaderReq(data=req), rsp))

print()
if violations:
    print('PROPERTY C03 VIOLATED: %d transmitted frames with invalid checksums' % violations)
    sys.exit(1)
print('property holds for the emulator\'s error replies')
sys.exit(0)
