#!/usr/bin/env python
"""C12 finding 1: reading the SEL from a device that serves only partial reads
is aborted with CompletionCodeError(0xC5) as soon as the reservation taken by
sel_entries() is cancelled; the reservation is never renewed (the SDR sibling
was repaired for exactly this in 91e28cb / 60cb668, the SEL reader was not).

Run:  cd /tmp/hunt2_c12 && /venv/bin/python -B _hunt/finding_1/demo.py
Exit status 1 = property violated, 0 = holds.
"""
import os
import sys

sys.path.insert(0, os.path.join(os.path.dirname(os.path.abspath(__file__)),
                                '..', '..'))

import pyipmi                                                    # noqa: E402
from pyipmi import create_connection                             # noqa: E402
from pyipmi.msgs import create_message, encode_message, decode_message  # noqa: E402


class SelDevice(object):
    """Byte-level SEL device after IPMI 2.0 ch. 31 (Storage netfn 0Ah).

    limit=None : serves whole records (bytes-to-read FFh)
    limit=1..16: serves at most `limit` bytes per Get SEL Entry, answers CAh
                 to anything longer.
    Reservation rules (31.4): Reserve SEL issues a new id and cancels the old
    one; adding or deleting an entry cancels the reservation; the reservation
    is checked by Get SEL Entry only for offset != 0 (31.5: 'only required for
    partial Get') and always by Delete SEL Entry.
    """

    def __init__(self, log, limit):
        self.log = [bytes(bytearray(r)) for r in log]
        self.limit = limit
        self.res = 0x1000
        self.res_valid = False
        self.deleted = []
        self.count = 0          # number of commands seen
        self.before = {}        # command number -> callable(device)
        self.trace = []

    @staticmethod
    def rid(rec):
        return bytearray(rec)[0] | bytearray(rec)[1] << 8

    def add(self, rec):         # another party logs an event
        self.log.append(bytes(bytearray(rec)))
        self.res_valid = False

    def _index(self, rid):
        if not self.log:
            return None
        if rid == 0x0000:
            return 0
        if rid == 0xffff:
            return len(self.log) - 1
        for i, r in enumerate(self.log):
            if self.rid(r) == rid:
                return i
        return None

    def handle(self, netfn, cmd, data):
        data = bytearray(data)
        self.count += 1
        if self.count in self.before:
            self.before[self.count](self)
        rsp = bytearray(self._handle(netfn, cmd, data))
        self.trace.append('#%-2d cmd %02Xh req [%s] -> [%s]' % (
            self.count, cmd, ' '.join('%02x' % b for b in data),
            ' '.join('%02x' % b for b in rsp)))
        return bytes(rsp)

    def _handle(self, netfn, cmd, data):
        assert netfn == 0x0a
        if cmd == 0x40:                                  # Get SEL Info
            n = len(self.log)
            return [0, 0x51, n & 0xff, n >> 8, 0xff, 0xff,
                    0, 0, 0, 0, 0, 0, 0, 0, 0x0a]
        if cmd == 0x42:                                  # Reserve SEL
            self.res = (self.res + 1) & 0xffff
            self.res_valid = True
            return [0, self.res & 0xff, self.res >> 8]
        if cmd == 0x43:                                  # Get SEL Entry
            res = data[0] | data[1] << 8
            rid = data[2] | data[3] << 8
            off, ln = data[4], data[5]
            idx = self._index(rid)
            if idx is None:
                return [0xcb]
            if off != 0 and not (self.res_valid and res == self.res):
                return [0xc5]
            if off > 15:
                return [0xc9]
            if ln == 0xff:
                ln = 16 - off
            if off + ln > 16:
                return [0xc9]
            if self.limit is not None and ln > self.limit:
                return [0xca]
            nxt = (0xffff if idx == len(self.log) - 1
                   else self.rid(self.log[idx + 1]))
            return [0, nxt & 0xff, nxt >> 8] + list(
                bytearray(self.log[idx][off:off + ln]))
        if cmd == 0x46:                                  # Delete SEL Entry
            res = data[0] | data[1] << 8
            rid = data[2] | data[3] << 8
            if not (self.res_valid and res == self.res):
                return [0xc5]
            idx = self._index(rid)
            if idx is None:
                return [0xcb]
            rec = self.log.pop(idx)
            self.deleted.append(rec)
            self.res_valid = False
            return [0, bytearray(rec)[0], bytearray(rec)[1]]
        return [0xc1]


class FakeInterface(object):
    """What every pyipmi interface does: encode req, transport, decode rsp."""

    def __init__(self, dev):
        self.dev = dev

    def send_and_receive(self, req):
        rx = self.dev.handle(req.netfn, req.cmdid, encode_message(req))
        rsp = create_message(req.netfn + 1, req.cmdid, None)
        decode_message(rsp, rx)
        return rsp


def connect(dev):
    ipmi = create_connection(FakeInterface(dev))
    ipmi.target = pyipmi.Target(0x20)
    return ipmi


def raw(entry):
    return bytes(bytearray(entry.data[i] for i in range(len(entry.data))))


def hexs(rec):
    return ' '.join('%02x' % b for b in bytearray(rec))


# record id (LS, MS), type, timestamp(4), generator(2), EvMRev, sensor type,
# sensor number, dir|event type, event data 1..3      (IPMI 2.0 table 32-1)
REC_A = [0x01, 0x00, 0x02, 0x10, 0x20, 0x30, 0x40, 0x20, 0x00, 0x04,
         0x01, 0x11, 0x01, 0x57, 0x00, 0x00]
# OEM timestamped record C5h: timestamp, manufacturer id (3), OEM data (6)
REC_B = [0x02, 0x00, 0xc5, 0x11, 0x21, 0x31, 0x41, 0x3a, 0x3a, 0x00,
         0xde, 0xad, 0xbe, 0xef, 0x00, 0x01]
REC_C = [0x03, 0x00, 0x02, 0x12, 0x22, 0x32, 0x42, 0x20, 0x00, 0x04,
         0x02, 0x22, 0x81, 0x01, 0xff, 0xff]
# the event another party logs while we are reading
REC_NEW = [0x04, 0x00, 0x02, 0x13, 0x23, 0x33, 0x43, 0x20, 0x00, 0x04,
           0x07, 0x33, 0x6f, 0x00, 0xff, 0xff]

violations = 0


def scenario_concurrent_add(limit, when):
    """get_sel_entries() while another party adds one event before the
    `when`-th command the device sees."""
    global violations
    start = [REC_A, REC_B, REC_C]
    dev = SelDevice(start, limit)
    dev.before[when] = lambda d: d.add(REC_NEW)
    ipmi = connect(dev)
    name = 'whole records' if limit is None else 'partial reads <= %d' % limit
    print('--- get_sel_entries(), device serves %s; a new event is logged '
          'before command #%d' % (name, when))
    expected = [bytes(bytearray(r)) for r in start]
    try:
        got = [raw(e) for e in ipmi.get_sel_entries()]
    except Exception as e:                       # noqa
        print('\n'.join('    ' + t for t in dev.trace[-4:]))
        print('  expected: the 3 entries stored before the read began '
              '(optionally followed by the new one), each once, in order')
        print('  got     : %s: %s' % (type(e).__name__, e))
        print('  VIOLATION')
        violations += 1
        return
    ok = got[:3] == expected and got[3:] in ([], [bytes(bytearray(REC_NEW))])
    for g in got:
        print('    ' + hexs(g))
    print('  OK' if ok else '  VIOLATION (wrong entries)')
    if not ok:
        violations += 1


def scenario_iterate_and_clear(limit):
    """One object, one client, nobody else: for every entry the generator
    yields, get_and_clear_sel_entry(entry.record_id)."""
    global violations
    start = [REC_A, REC_B, REC_C]
    dev = SelDevice(start, limit)
    ipmi = connect(dev)
    name = 'whole records' if limit is None else 'partial reads <= %d' % limit
    print('--- for e in sel_entries(): get_and_clear_sel_entry(e.record_id);'
          ' device serves %s' % name)
    expected = [bytes(bytearray(r)) for r in start]
    seen, cleared = [], []
    try:
        for e in ipmi.sel_entries():
            seen.append(raw(e))
            cleared.append(raw(ipmi.get_and_clear_sel_entry(e.record_id)))
    except Exception as e:                       # noqa
        print('\n'.join('    ' + t for t in dev.trace[-4:]))
        print('  expected: 3 entries read, 3 entries cleared')
        print('  got     : %d read, %d cleared, then %s: %s'
              % (len(seen), len(cleared), type(e).__name__, e))
        print('  VIOLATION')
        violations += 1
        return
    ok = seen == expected and cleared == expected and dev.deleted == expected
    print('  read %d, cleared %d, device log now %d entries: %s'
          % (len(seen), len(cleared), len(dev.log), 'OK' if ok else 'VIOLATION'))
    if not ok:
        violations += 1


# Control: the same schedules on a device that serves whole records.
scenario_concurrent_add(None, 4)
scenario_iterate_and_clear(None)

# A device limited to 8 bytes per read. Commands: #1 Get SEL Info,
# #2 Reserve SEL, #3 FFh refused, #4 16 refused ... #12 offset 0 length 8,
# #13 offset 8 length 8. The event is logged between the two halves of the
# first record.
scenario_concurrent_add(8, 13)
# ... or between two records (the first chunk of the next record is served
# without reservation check, its second chunk is refused):
scenario_concurrent_add(8, 14)
# every limit below 16 is affected
for lim in (1, 5, 15):
    # first served chunk is command #(20 - lim), the second #(21 - lim)
    scenario_concurrent_add(lim, 21 - lim)
scenario_iterate_and_clear(8)

print('')
print('%d violation(s)' % violations)
sys.exit(1 if violations else 0)
