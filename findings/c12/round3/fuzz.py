import sys, random, itertools
sys.path.insert(0, '/tmp/h3_C12/_hunt')
from refdev import RefSel, connect, WHOLE
from pyipmi.errors import CompletionCodeError, RetryError, DecodingError

rnd = random.Random(12)
TYPES = [0x02] + list(range(0xc0, 0x100))


def mkrec(rid, t=None):
    t = rnd.choice(TYPES) if t is None else t
    return bytes([rid & 0xff, rid >> 8, t] + [rnd.randrange(256) for _ in range(13)])


def mklog(n):
    ids = rnd.sample([1, 2, 3, 0x00ff, 0x0100, 0x7fff, 0x8000, 0xff00, 0xfffe, 0xfffd, 0x1234], n)
    if rnd.random() < .5:
        ids.sort()
    return [mkrec(i) for i in ids]


bad = 0
LIMITS = [WHOLE] + list(range(1, 17))

# ---- 1. full read
for n in range(0, 6):
    for lim in LIMITS:
        for check0 in (True, False):
            for first_res in (1, 0xffff, 0x00ff, 0x0100):
                log = mklog(n)
                dev = RefSel(log, lim, check0, first_res)
                ipmi = connect(dev)
                try:
                    got = ipmi.get_sel_entries()
                    gotb = [bytes(bytearray(e.data[i] for i in range(len(e.data)))) for e in got]
                    ok = gotb == log
                    for e, r in zip(got, log):
                        ok = ok and e.record_id == (r[0] | r[1] << 8) and e.type == r[2]
                        ok = ok and e.timestamp == int.from_bytes(r[3:7], 'little')
                        ok = ok and e.generator_id == int.from_bytes(r[7:9], 'little')
                        ok = ok and e.evm_rev == r[9] and e.sensor_type == r[10] and e.sensor_number == r[11]
                        ok = ok and e.event_direction == r[12] >> 7 and e.event_type == r[12] & 0x7f
                        ok = ok and list(e.event_data) == list(r[13:16])
                        str(e)
                except Exception as ex:
                    ok = False
                    got = repr(ex)
                if not ok:
                    bad += 1
                    print('READ MISMATCH', n, lim, check0, first_res, got)
print('full read done, bad =', bad)

# ---- 2. get and clear with a change at every point
changes = ['touch', 'add', 'del_other', 'del_same', 'del_before']
cnt = 0
for n in range(1, 5):
    for lim in [WHOLE, 16, 15, 8, 7, 5, 3, 1]:
        for check0 in (True, False):
            base = mklog(n)
            for ti in range(n):
                for rid_mode in ('id', 'first', 'last'):
                    if rid_mode == 'id':
                        rid = base[ti][0] | base[ti][1] << 8
                    elif rid_mode == 'first':
                        rid = 0
                    else:
                        rid = 0xffff
                    # find number of commands in the undisturbed run
                    dev = RefSel(base, lim, check0)
                    ipmi = connect(dev)
                    ipmi.get_and_clear_sel_entry(rid)
                    ncmd = dev.count
                    for ks in list(itertools.combinations(range(ncmd + 3), 1)) + \
                            [(a, b) for a in range(ncmd + 2) for b in range(a + 1, min(a + 2 * ncmd, 3 * ncmd))][:60]:
                        for ch in changes:
                            dev = RefSel(base, lim, check0)
                            ipmi = connect(dev)

                            def mk(ch):
                                def f(d):
                                    if ch == 'touch':
                                        d.change_touch()
                                    elif ch == 'add':
                                        d.change_add(mkrec(0x4242))
                                    elif ch == 'del_other':
                                        idx = [i for i in range(len(d.log)) if i != ti]
                                        if idx and len(d.log) == len(base):
                                            d.change_delete(idx[-1])
                                        else:
                                            d.change_touch()
                                    elif ch == 'del_same':
                                        if len(d.log) == len(base):
                                            d.change_delete(ti)
                                        else:
                                            d.change_touch()
                                    elif ch == 'del_before':
                                        if len(d.log) == len(base) and len(d.log) > 1:
                                            d.change_delete(0)
                                        else:
                                            d.change_touch()
                                return f
                            for k in ks:
                                dev.hooks[k] = mk(ch)
                            cnt += 1
                            try:
                                e = ipmi.get_and_clear_sel_entry(rid)
                            except CompletionCodeError as ex:
                                # only legitimate if the record is gone
                                if ex.cc == 0xcb and ch in ('del_same', 'del_before', 'del_other'):
                                    if not dev.deleted:
                                        continue
                                bad += 1
                                print('CC', hex(ex.cc), n, lim, check0, rid_mode, ti, ks, ch)
                                continue
                            except RetryError:
                                bad += 1
                                print('RETRY', n, lim, check0, rid_mode, ti, ks, ch)
                                continue
                            eb = bytes(bytearray(e.data[i] for i in range(16)))
                            if len(dev.deleted) != 1 or dev.deleted[0][0] != eb:
                                bad += 1
                                print('WRONG ENTRY', n, lim, check0, rid_mode, ti, ks, ch, eb.hex(), [d[0].hex() for d in dev.deleted])
                                continue
                            # same reservation: the reads that fed the entry
                            delres = dev.deleted[0][1]
                            # find last Reserve in trace; all following gets and the delete use it
                            lastres = max(i for i, t in enumerate(dev.trace) if t[0] == 0x42)
                            for t in dev.trace[lastres + 1:]:
                                if t[0] in (0x43, 0x46):
                                    r = t[1][0] | t[1][1] << 8
                                    if r != delres:
                                        bad += 1
                                        print('RES MISMATCH', n, lim, rid_mode, ks, ch)
print('get_and_clear runs', cnt, 'bad', bad)
sys.exit(1 if bad else 0)
