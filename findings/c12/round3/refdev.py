"""Reference SEL device (IPMI v2.0 ch. 31) working on raw bytes, and a fake
interface that plugs it under the real pyipmi.Ipmi object."""
import sys
sys.path.insert(0, '/tmp/h3_C12')
from array import array

import pyipmi
from pyipmi.msgs import create_message, encode_message, decode_message

WHOLE = None


class RefSel(object):
    def __init__(self, records, limit=WHOLE, check_res_at_offset0=True,
                 first_res=1):
        self.log = [bytes(r) for r in records]
        self.limit = limit
        self.check0 = check_res_at_offset0
        self.res = None         # current valid reservation id or None
        self.next_res = first_res
        self.trace = []         # (name, req bytes, rsp bytes)
        self.deleted = []       # (record bytes, reservation used)
        self.hooks = {}         # command counter -> fn(dev), run BEFORE cmd
        self.count = 0

    # ---- concurrent changes
    def change_add(self, rec):
        self.log.append(bytes(rec))
        self.res = None

    def change_delete(self, idx):
        del self.log[idx]
        self.res = None

    def change_touch(self):
        self.res = None

    # ----
    def _rid(self, r):
        return r[0] | (r[1] << 8)

    def _find(self, rid):
        if not self.log:
            return None
        if rid == 0:
            return 0
        if rid == 0xffff:
            return len(self.log) - 1
        for i, r in enumerate(self.log):
            if self._rid(r) == rid:
                return i
        return None

    def handle(self, netfn, cmd, data):
        n = self.count
        self.count += 1
        if n in self.hooks:
            self.hooks[n](self)
        rsp = self._handle(netfn, cmd, bytes(data))
        self.trace.append((cmd, bytes(data), bytes(rsp)))
        return rsp

    def _handle(self, netfn, cmd, d):
        assert netfn == 0x0a, netfn
        if cmd == 0x40:
            assert len(d) == 0
            n = len(self.log)
            free = 0xffff
            return bytes([0, 0x51, n & 0xff, n >> 8, free & 0xff, free >> 8,
                          0xff, 0xff, 0xff, 0xff, 0xff, 0xff, 0xff, 0xff,
                          0x0a])
        if cmd == 0x42:
            assert len(d) == 0
            self.res = self.next_res
            self.next_res = (self.next_res + 1) & 0xffff
            if self.next_res == 0:
                self.next_res = 1
            return bytes([0, self.res & 0xff, self.res >> 8])
        if cmd == 0x43:
            if len(d) != 6:
                return bytes([0xc7])
            res = d[0] | d[1] << 8
            rid = d[2] | d[3] << 8
            off, ln = d[4], d[5]
            if off != 0 or (self.check0 and res != 0):
                if res != self.res:
                    return bytes([0xc5])
            i = self._find(rid)
            if i is None:
                return bytes([0xcb])
            if off > 15:
                return bytes([0xc9])
            if ln == 0xff:
                if self.limit is not WHOLE:
                    return bytes([0xca])
                if off != 0:
                    return bytes([0xc9])
                chunk = self.log[i]
            else:
                if ln == 0 or off + ln > 16:
                    return bytes([0xc9])
                if self.limit is not WHOLE and ln > self.limit:
                    return bytes([0xca])
                chunk = self.log[i][off:off + ln]
            nxt = 0xffff if i == len(self.log) - 1 \
                else self._rid(self.log[i + 1])
            return bytes([0, nxt & 0xff, nxt >> 8]) + chunk
        if cmd == 0x46:
            if len(d) != 4:
                return bytes([0xc7])
            res = d[0] | d[1] << 8
            rid = d[2] | d[3] << 8
            if res != self.res or self.res is None:
                return bytes([0xc5])
            i = self._find(rid)
            if i is None:
                return bytes([0xcb])
            rec = self.log.pop(i)
            self.deleted.append((rec, res))
            self.res = None
            r = self._rid(rec)
            return bytes([0, r & 0xff, r >> 8])
        return bytes([0xc1])


class FakeInterface(object):
    def __init__(self, dev):
        self.dev = dev

    def establish_session(self, session):
        pass

    def close_session(self):
        pass

    def is_ipmc_accessible(self, target):
        return True

    def send_and_receive_raw(self, target, lun, netfn, raw_bytes):
        raw = array('B', raw_bytes)
        return self.dev.handle(netfn, raw[0], raw[1:].tobytes())

    def send_and_receive(self, req):
        data = encode_message(req)
        rsp_data = self.dev.handle(req.netfn, req.cmdid, data)
        rsp = create_message(req.netfn + 1, req.cmdid, None)
        decode_message(rsp, rsp_data)
        return rsp


def connect(dev):
    ipmi = pyipmi.create_connection(FakeInterface(dev))
    ipmi.target = pyipmi.Target(0x20)
    return ipmi
