import sys
sys.path.insert(0, '/tmp/h3_C12/_hunt')
from refdev import RefSel, connect, WHOLE
import random
rnd = random.Random(3)
def rec(rid, t): return bytes([rid & 0xff, rid >> 8, t] + [rnd.randrange(256) for _ in range(13)])

class Trunc(RefSel):
    """device that never answers CAh but silently shortens to its limit"""
    def _handle(self, netfn, cmd, d):
        if cmd == 0x43 and len(d) == 6:
            off, ln = d[4], d[5]
            lim = self.limit
            want = 16 - off if ln == 0xff else ln
            want = max(1, min(want, lim, 16 - off))
            save = self.limit; self.limit = WHOLE
            try:
                return RefSel._handle(self, netfn, cmd, d[:5] + bytes([want]))
            finally:
                self.limit = save
        return RefSel._handle(self, netfn, cmd, d)

bad = 0
for lim in range(1, 17):
    log = [rec(i, t) for i, t in ((1, 2), (0x100, 0xc0), (0xfffe, 0xff), (7, 0xdf), (9, 0xe0))]
    dev = Trunc(log, lim); ipmi = connect(dev)
    got = [bytes(bytearray(e.data[i] for i in range(16))) for e in ipmi.get_sel_entries()]
    if got != log: bad += 1; print('TRUNC mismatch', lim)

# history: drain a log with get_and_clear(first) / (last) / by id, reading in between, re-using one Ipmi object
for lim in [WHOLE] + list(range(1, 17)):
    log = [rec(i, t) for i, t in ((1, 2), (0x100, 0xc0), (0xfffe, 0xff), (7, 0xdf), (9, 0xe0), (0x8000, 2))]
    dev = RefSel(log, lim); ipmi = connect(dev)
    model = list(log)
    for how in (0, 0xffff, 7, 0, 0xffff, 0):
        e = ipmi.get_and_clear_sel_entry(how)
        eb = bytes(bytearray(e.data[i] for i in range(16)))
        exp = model.pop(0 if how == 0 else len(model) - 1 if how == 0xffff else [i for i, r in enumerate(model) if r[0] | r[1] << 8 == how][0])
        if eb != exp or dev.deleted[-1][0] != eb: bad += 1; print('HIST wrong', lim, how)
        got = [bytes(bytearray(x.data[i] for i in range(16))) for x in ipmi.get_sel_entries()]
        if got != model or got != dev.log: bad += 1; print('HIST read wrong', lim, how)
    assert model == [] and ipmi.get_sel_entries() == []
    # interleaved generators on one object
    dev.log = list(log)
    g1 = ipmi.sel_entries(); g2 = ipmi.sel_entries(); out1 = []; out2 = []
    try:
        for _ in range(len(log)):
            out1.append(next(g1)); out2.append(next(g2))
    except Exception as ex:
        print('interleaved generators (two reservations, expected to conflict on partial devices):', lim, repr(ex))
# big log
log = [rec(i, 2) for i in range(1, 3001)]
dev = RefSel(log, 3); ipmi = connect(dev)
got = [bytes(bytearray(e.data[i] for i in range(16))) for e in ipmi.get_sel_entries()]
if got != log: bad += 1; print('BIG mismatch')
print('bad', bad)
