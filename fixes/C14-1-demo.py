import sys, threading, struct, socket
sys.path.insert(0, sys.argv[1] if len(sys.argv) > 1 else '/repo')   # tree under test
import pyipmi.interfaces.rmcp as R
from pyipmi.session import Session

# deterministic: the keep-alive loop's wait() reports "interval elapsed" once, then we let close_session run
# completely before the keep-alive call proceeds.
gate_tick = threading.Event(); gate_go = threading.Event()
class Ev(object):
    def __init__(self): self._s = False
    def wait(self, t):
        gate_tick.wait()            # first tick happens when the test says so
        if self._n == 0:
            self._n = 1
            gate_go.wait(0.5)       # ... and the call itself is delayed until close_session is done (or 0.5 s:
                                    # with the joining stopper close_session waits for this call instead)
            return False
        return True
    _n = 0
    def set(self): self._s = True
    def is_set(self): return self._s
import types
_shim = types.SimpleNamespace(Event=Ev, Thread=threading.Thread, Lock=threading.Lock, current_thread=threading.current_thread)
R.threading = _shim

sent = []
class Sock(object):
    def __init__(self): self.q = []
    def settimeout(self, t): pass
    def sendto(self, pdu, addr):
        pdu = bytes(pdu)
        auth = pdu[4]; seq = struct.unpack('<I', pdu[5:9])[0]; sid = struct.unpack('<I', pdu[9:13])[0]
        off = 13 + (16 if auth else 0)
        ln = pdu[off]; msg = pdu[off+1:off+1+ln]
        sent.append((seq, sid, msg[5], threading.current_thread().name))
        # reply: echo header
        rs_sa, netfn_lun, _, rq_sa, seq_lun, cmd = msg[0], msg[1], msg[2], msg[3], msg[4], msg[5]
        netfn = (netfn_lun >> 2) + 1
        hdr = bytes([rq_sa, (netfn << 2) | (seq_lun & 3)]); hdr += bytes([(-sum(hdr)) & 0xff])
        data = {0x01: bytes(15), 0x3c: b''}.get(cmd, b'')
        body = bytes([rs_sa, (seq_lun & 0xfc) | (netfn_lun & 3), cmd, 0]) + data
        body += bytes([(-sum(body)) & 0xff])
        m = hdr + body
        self.q.append(bytes([6, 0, 0xff, 7, 0]) + struct.pack('<II', 0, sid) + bytes([len(m)]) + m)
    def recvfrom(self, n):
        if not self.q: raise socket.timeout()
        return self.q.pop(0), ('bmc', 623)
    def close(self): pass

i = R.Rmcp(keep_alive_interval=1)
i._sock = Sock(); i.host, i.port = 'bmc', 623
s = Session(); s.set_session_type_rmcp('bmc'); s.set_auth_type_user('a', 'b')
s.auth_type = 0; s.sid = 0x11223344; s.sequence_number = 100; s.activated = True
i._session = s
i._stop_keep_alive = R.call_repeatedly(1, i._get_device_id)
gate_tick.set()                      # the interval elapses: keep-alive decides to make a call ...
import time; time.sleep(0.2)
i.close_session()                    # ... but close_session runs first
gate_go.set(); time.sleep(0.3)
print(sent)
seqs = [x[0] for x in sent]
ok = all(a < b for a, b in zip(seqs, seqs[1:]))
print('session sequence numbers strictly increasing:', ok)
sys.exit(0 if ok else 1)
