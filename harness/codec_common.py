"""Shared by C01/C02: moving field values between real message objects, the canonical
value notation of the line protocol, and `Fits` assignment generators."""
from array import array

from .lib import lean


# ---- canonical values: ('int', v) ('arr', bytes) ('bits', [..]) ('none',) -------------

def show(v):
    if v[0] == 'int':
        return 'i%d' % v[1]
    if v[0] == 'arr':
        return 'a' + lean.hexs(v[1])
    if v[0] == 'bits':
        return 'b' + (','.join(str(x) for x in v[1]) if v[1] else '-')
    return 'n'


def parse(tok):
    if tok == 'n':
        return ('none',)
    if tok[0] == 'i':
        return ('int', int(tok[1:]))
    if tok[0] == 'a':
        return ('arr', lean.unhex(tok[1:]))
    if tok[0] == 'b':
        return ('bits', [] if tok[1:] == '-' else [int(x) for x in tok[1:].split(',')])
    raise ValueError(tok)


def set_values(obj, fields, vals):
    for f, v in zip(fields, vals):
        if f.prim[0] == 'bits':
            w = getattr(obj, f.name)
            if v[0] == 'none':
                setattr(obj, f.name, None)
                continue
            for bn, bv in zip(f.prim[3], v[1]):
                setattr(w, bn, bv)
        elif v[0] == 'none':
            setattr(obj, f.name, None)
        elif v[0] == 'int':
            setattr(obj, f.name, v[1])
        elif f.prim[0] == 'str':
            setattr(obj, f.name, bytes(v[1]))
        else:
            setattr(obj, f.name, array('B', v[1]))


def get_values(obj, fields):
    from .translate.registry import observe
    return observe(obj, fields)


def eval_cond(c, env):
    if c[0] == 'bitEq':
        return env[c[1]][1][c[2]] == c[3]
    if c[0] == 'intEq':
        return env[c[1]][1] == c[2]
    if c[0] == 'or':
        return eval_cond(c[1], env) or eval_cond(c[2], env)
    return eval_cond(c[1], env) and eval_cond(c[2], env)


def canon_dflt(d):
    return ('arr', bytes(bytearray(d[1]))) if d[0] == 'arr' else tuple(d) if d[0] != 'bits' else ('bits', list(d[1]))


# ---- Fits assignments ------------------------------------------------------------------

def _prim_value(f, env, pick, rng, optional):
    """A value that `Fits` primitive f.prim; pick(bits, role) chooses integers."""
    p = f.prim
    if p[0] == 'cc':
        return ('int', 0)
    if p[0] == 'uint':
        return ('int', pick(8 * p[1]))
    if p[0] == 'bytes':
        return ('arr', bytes(pick(8) for _ in range(p[1])))
    if p[0] == 'str':
        return ('arr', bytes(pick(8) for _ in range(p[1])))
    if p[0] == 'varBytes':
        n = env[p[1]][1]
        return ('arr', bytes(pick(8) for _ in range(n)))
    if p[0] == 'remaining':
        n = rng.choice([0, 1, 2, 3, 8, 16, 17, 40]) if rng.random() < 0.7 else rng.randrange(0, 64)
        if optional and n == 0:
            n = 1
        return ('arr', bytes(pick(8) for _ in range(n)))
    if p[0] == 'bits':
        return ('bits', [pick(w) if w else 0 for w in p[2]])
    raise ValueError(p)


def assignment(fields, rng, mode, n_optional=None, override=None):
    """One Fits assignment.  mode: 'zero' | 'max' | 'alt0' | 'alt1' | 'top' | 'random' | 'boundary'.
    override: {field index: wire byte pattern (bytes, little-endian for integers) or callable(n) -> bytes} - the
    value of that field when it is on the wire (optional present / condition true), see `value_of_wire`."""
    counter = [0]
    override = override or {}

    def prim_value(i, f, optional):
        if i in override:
            v = value_of_wire(f, env, override[i])
            if v is not None:
                return v
        return _prim_value(f, env, pick, rng, optional)

    def pick(bits):
        counter[0] += 1
        if bits == 0:
            return 0
        top = (1 << bits) - 1
        if mode == 'zero':
            return 0
        if mode == 'max':
            return top
        if mode == 'alt0':
            return top if counter[0] % 2 == 0 else 0
        if mode == 'alt1':
            return top if counter[0] % 2 == 1 else 0
        if mode == 'top':
            return 1 << (bits - 1)
        if mode == 'boundary':
            return rng.choice([0, 1, top, top - 1 if top else 0, 1 << (bits - 1), (1 << (bits - 1)) - 1])
        return rng.randrange(top + 1)

    n_opt_fields = sum(1 for f in fields if f.wrap == 'optional')
    if n_optional is None:
        n_optional = rng.randrange(n_opt_fields + 1)
    env, seen_opt = [], 0
    for i, f in enumerate(fields):
        if f.wrap == 'optional':
            seen_opt += 1
            if seen_opt > n_optional:
                env.append(('none',))
                continue
            env.append(prim_value(i, f, True))
        elif f.wrap == 'cond':
            if eval_cond(f.cond, env):
                env.append(prim_value(i, f, False))
            else:
                env.append(canon_dflt(f.dflt))
        else:
            env.append(prim_value(i, f, False))
    return env


# ---- the wire format written down from the LAYOUT (independent of the library's encoder) ------------

def wire_len(f, env):
    """Number of wire bytes of primitive f.prim (None: free, `remaining`)."""
    p = f.prim
    if p[0] == 'cc':
        return 1
    if p[0] in ('uint', 'bytes', 'str', 'bits'):
        return int(p[1])
    if p[0] == 'varBytes':
        v = env[p[1]]
        return int(v[1]) if v[0] == 'int' else 0
    return None


def value_of_wire(f, env, pattern):
    """The canonical value whose wire image is `pattern` (bytes, or callable(n) -> n bytes); None when the
    primitive cannot carry it (completion code, zero length)."""
    p = f.prim
    if p[0] == 'cc':
        return None
    n = wire_len(f, env)
    raw = pattern(n if n is not None else 4) if callable(pattern) else bytes(pattern)
    if n is not None and len(raw) != n:
        return None
    if p[0] == 'uint':
        return ('int', int.from_bytes(raw, 'little'))
    if p[0] == 'bits':
        v, out, off = int.from_bytes(raw, 'little'), [], 0
        for w in p[2]:
            out.append((v >> off) & ((1 << w) - 1))
            off += w
        return ('bits', out)
    if not raw and p[0] == 'remaining':
        return None
    return ('arr', raw)


def encode_layout(fields, vals):
    """Wire bytes of an assignment from the layout alone: fields in declared order, integers little-endian,
    bit members packed LSB first in declared order, arrays as they are; an absent optional and a conditional
    whose predicate is false contribute nothing."""
    out = bytearray()
    for i, (f, v) in enumerate(zip(fields, vals)):
        if f.wrap == 'optional' and v[0] == 'none':
            continue
        if f.wrap == 'cond' and not eval_cond(f.cond, vals[:i]):
            continue
        p = f.prim
        if p[0] == 'cc':
            out.append(v[1] & 0xff)
        elif p[0] == 'uint':
            out += int(v[1]).to_bytes(p[1], 'little')
        elif p[0] == 'bits':
            x, off = 0, 0
            for w, b in zip(p[2], v[1]):
                x |= (b & ((1 << w) - 1)) << off
                off += w
            out += x.to_bytes(p[1], 'little')
        else:
            out += bytes(v[1])
    return bytes(out)


def boundary_patterns(n):
    """Wire images of an n-byte field at its boundaries: 00.., FF.., 80 00.., 00..80, 7F FF.., FF..7F, 01 00..,
    00..01, FE FF.. and FF..FE (little- and big-endian reading of top bit / largest positive / one / largest-1)."""
    if n <= 0:
        return []
    z, o = b'\x00' * (n - 1), b'\xff' * (n - 1)
    pats = [b'\x00' * n, b'\xff' * n, b'\x80' + z, z + b'\x80', b'\x7f' + o, o + b'\x7f', b'\x01' + z, z + b'\x01',
            b'\xfe' + o, o + b'\xfe']
    seen, out = set(), []
    for q in pats:
        if q not in seen:
            seen.add(q)
            out.append(q)
    return out


def boundary_encodings(fields, rng):
    """[(label, vals, wire bytes)]: for every field of the layout and every boundary pattern of its width, a VALID
    encoding (completion code 00h) in which that field carries the pattern - with every optional tail present
    and, if the field is itself optional, also with it as the last one present - the other fields all-zero and
    all-ones.  Built with `encode_layout`, never with the library's encoder: a defect that needs one exact value
    (all-ones in an optional 4-byte field has chance 2^-32 in a random string) is reached by construction."""
    n_opt = sum(1 for f in fields if f.wrap == 'optional')
    out, seen = [], set()
    opt_no = 0
    for i, f in enumerate(fields):
        if f.wrap == 'optional':
            opt_no += 1
        if f.prim[0] == 'cc':
            continue
        ks = [n_opt] if f.wrap != 'optional' or opt_no == n_opt else [n_opt, opt_no]
        if f.prim[0] == 'remaining':
            widths = [1, 2, 4, 16]
        elif f.prim[0] == 'varBytes':
            widths = [None]
        else:
            widths = [int(f.prim[1])]
        for base in ('zero', 'max'):
            for k in ks:
                for w in widths:
                    if w is None:
                        probe = assignment(fields, rng, base, k)
                        w = wire_len(f, probe[:i]) if len(probe) > i else 0
                    for pat in boundary_patterns(w or 0):
                        vals = assignment(fields, rng, base, k, override={i: pat})
                        if f.prim[0] != 'remaining' and value_of_wire(f, vals[:i], pat) != vals[i]:
                            continue        # not on the wire in this assignment (condition false)
                        data = encode_layout(fields, vals)
                        if data in seen:
                            continue
                        seen.add(data)
                        out.append(('%s=%s/%s/opt%d' % (f.name, lean.hexs(pat), base, k), vals, data))
    return out


def encode_real(cls, fields, vals):
    """('ok', bytes) | (exception class name,) from the real encoder."""
    from pyipmi.msgs.message import encode_message
    try:
        obj = cls()
        set_values(obj, fields, vals)
        return ('ok', bytes(bytearray(encode_message(obj))))
    except Exception as e:  # noqa
        return (type(e).__name__,)


def decode_real(cls, fields, data):
    """('ok', vals, obj) | (exception class name,) from the real decoder."""
    from pyipmi.msgs.message import decode_message
    try:
        obj = cls()
        decode_message(obj, bytes(data))
        return ('ok', get_values(obj, fields), obj)
    except Exception as e:  # noqa
        return (type(e).__name__,)


PY_TAG = {'DecodingError': 'DecodingError', 'EncodingError': 'EncodingError'}


def model_tag(name):
    """Map a Python exception class name to the driver's tag."""
    return PY_TAG.get(name, 'py:' + name)


# ---- the layouts when the translator fails closed --------------------------------------------------

def structural_snapshot():
    """registry.snapshot() for a tree on which the translator raises TieBroken (a field class left its
    vocabulary / overrides encode, decode or create): the LAYOUT of such a field is still what its base class
    and declared length say, only its behaviour is no longer the modelled one.  The real code is then judged on
    inputs built from that layout (no model comparison: the caller must not ask the driver about these classes).
    A class whose layout cannot be read at all is returned as malformed (skipped by the callers).
    Returns (snapshot, [reasons])."""
    from .translate import registry as R
    from .lib.lean import TieBroken
    reasons = []
    orig_prim, orig_fields = R._prim, R.class_fields

    def prim(M, f, names, bitnames):
        try:
            return orig_prim(M, f, names, bitnames)
        except TieBroken as e:
            reasons.append(str(e))
            if isinstance(f, M.CompletionCode):
                return ('cc',), ('int', 0)
            if isinstance(f, M.UnsignedInt) and isinstance(f.length, int):
                return ('uint', int(f.length)), ('int', 0 if f.default is None else int(f.default))
            if isinstance(f, M.RemainingBytes):
                return ('remaining',), ('arr', [])
            if isinstance(f, M.String) and isinstance(f.length, int):
                return ('str', int(f.length)), ('arr', [])
            if isinstance(f, M.Bitfield):
                ws = [int(b._width) for b in f._bits]
                ds = [0 if b.default is None else int(b.default) for b in f._bits]
                return ('bits', int(f.length), ws, [b.name for b in f._bits], ds), ('bits', ds)
            if isinstance(f, M.ByteArray) and isinstance(f.length, int):
                return ('bytes', int(f.length)), ('arr', [0] * f.length)
            raise

    def class_fields(cls):
        try:
            return orig_fields(cls)
        except TieBroken as e:
            reasons.append('%s: %s' % (cls.__name__, e))
            raise ValueError(mark + str(e))

    mark = 'malformed: layout outside the translator grammar: '
    R._prim, R.class_fields = prim, class_fields
    try:
        snap = R.snapshot()
    finally:
        R._prim, R.class_fields = orig_prim, orig_fields
    for _cls, info in snap:
        if info['malformed'] and info['malformed'].startswith(mark):
            # not a construction failure of the class: only unreadable for us -> no cases for it
            info['untranslatable'] = info['malformed'][len(mark):]
            info['malformed'], info['fields'] = None, []
    return snap, sorted(set(reasons))
