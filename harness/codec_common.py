"""Shared by C01/C02: moving field values between real message objects, the canonical
value notation of the line protocol, and `Fits` assignment generators."""
from array import array

from .lib import lean


# ---- canonical values: ('int', v) ('arr', bytes) ('bits', [..]) ('none',) -------------

def show(v):
    if v[0] == 'int':
        return 'i%d' % v[1]
    if v[0] == 'arr':
        return 'a' + lean.hexs(v[1])
    if v[0] == 'bits':
        return 'b' + (','.join(str(x) for x in v[1]) if v[1] else '-')
    return 'n'


def parse(tok):
    if tok == 'n':
        return ('none',)
    if tok[0] == 'i':
        return ('int', int(tok[1:]))
    if tok[0] == 'a':
        return ('arr', lean.unhex(tok[1:]))
    if tok[0] == 'b':
        return ('bits', [] if tok[1:] == '-' else [int(x) for x in tok[1:].split(',')])
    raise ValueError(tok)


def set_values(obj, fields, vals):
    for f, v in zip(fields, vals):
        if f.prim[0] == 'bits':
            w = getattr(obj, f.name)
            if v[0] == 'none':
                setattr(obj, f.name, None)
                continue
            for bn, bv in zip(f.prim[3], v[1]):
                setattr(w, bn, bv)
        elif v[0] == 'none':
            setattr(obj, f.name, None)
        elif v[0] == 'int':
            setattr(obj, f.name, v[1])
        elif f.prim[0] == 'str':
            setattr(obj, f.name, bytes(v[1]))
        else:
            setattr(obj, f.name, array('B', v[1]))


def get_values(obj, fields):
    from .translate.registry import observe
    return observe(obj, fields)


def eval_cond(c, env):
    if c[0] == 'bitEq':
        return env[c[1]][1][c[2]] == c[3]
    if c[0] == 'intEq':
        return env[c[1]][1] == c[2]
    if c[0] == 'or':
        return eval_cond(c[1], env) or eval_cond(c[2], env)
    return eval_cond(c[1], env) and eval_cond(c[2], env)


def canon_dflt(d):
    return ('arr', bytes(bytearray(d[1]))) if d[0] == 'arr' else tuple(d) if d[0] != 'bits' else ('bits', list(d[1]))


# ---- Fits assignments ------------------------------------------------------------------

def _prim_value(f, env, pick, rng, optional):
    """A value that `Fits` primitive f.prim; pick(bits, role) chooses integers."""
    p = f.prim
    if p[0] == 'cc':
        return ('int', 0)
    if p[0] == 'uint':
        return ('int', pick(8 * p[1]))
    if p[0] == 'bytes':
        return ('arr', bytes(pick(8) for _ in range(p[1])))
    if p[0] == 'str':
        return ('arr', bytes(pick(8) for _ in range(p[1])))
    if p[0] == 'varBytes':
        n = env[p[1]][1]
        return ('arr', bytes(pick(8) for _ in range(n)))
    if p[0] == 'remaining':
        n = rng.choice([0, 1, 2, 3, 8, 16, 17, 40]) if rng.random() < 0.7 else rng.randrange(0, 64)
        if optional and n == 0:
            n = 1
        return ('arr', bytes(pick(8) for _ in range(n)))
    if p[0] == 'bits':
        return ('bits', [pick(w) if w else 0 for w in p[2]])
    raise ValueError(p)


def assignment(fields, rng, mode, n_optional=None):
    """One Fits assignment.  mode: 'zero' | 'max' | 'alt0' | 'alt1' | 'top' | 'random' | 'boundary'."""
    counter = [0]

    def pick(bits):
        counter[0] += 1
        if bits == 0:
            return 0
        top = (1 << bits) - 1
        if mode == 'zero':
            return 0
        if mode == 'max':
            return top
        if mode == 'alt0':
            return top if counter[0] % 2 == 0 else 0
        if mode == 'alt1':
            return top if counter[0] % 2 == 1 else 0
        if mode == 'top':
            return 1 << (bits - 1)
        if mode == 'boundary':
            return rng.choice([0, 1, top, top - 1 if top else 0, 1 << (bits - 1), (1 << (bits - 1)) - 1])
        return rng.randrange(top + 1)

    n_opt_fields = sum(1 for f in fields if f.wrap == 'optional')
    if n_optional is None:
        n_optional = rng.randrange(n_opt_fields + 1)
    env, seen_opt = [], 0
    for f in fields:
        if f.wrap == 'optional':
            seen_opt += 1
            if seen_opt > n_optional:
                env.append(('none',))
                continue
            env.append(_prim_value(f, env, pick, rng, True))
        elif f.wrap == 'cond':
            if eval_cond(f.cond, env):
                env.append(_prim_value(f, env, pick, rng, False))
            else:
                env.append(canon_dflt(f.dflt))
        else:
            env.append(_prim_value(f, env, pick, rng, False))
    return env


def encode_real(cls, fields, vals):
    """('ok', bytes) | (exception class name,) from the real encoder."""
    from pyipmi.msgs.message import encode_message
    try:
        obj = cls()
        set_values(obj, fields, vals)
        return ('ok', bytes(bytearray(encode_message(obj))))
    except Exception as e:  # noqa
        return (type(e).__name__,)


def decode_real(cls, fields, data):
    """('ok', vals, obj) | (exception class name,) from the real decoder."""
    from pyipmi.msgs.message import decode_message
    try:
        obj = cls()
        decode_message(obj, bytes(data))
        return ('ok', get_values(obj, fields), obj)
    except Exception as e:  # noqa
        return (type(e).__name__,)


PY_TAG = {'DecodingError': 'DecodingError', 'EncodingError': 'EncodingError'}


def model_tag(name):
    """Map a Python exception class name to the driver's tag."""
    return PY_TAG.get(name, 'py:' + name)
