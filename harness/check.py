"""Single entry point:  ./check C07 [--tier quick|thorough] [--replay FILE]

Flow (DESIGN §1): translators -> lake build -> axiom audit -> correspondence + spec run ->
(if anything broke) failing-input search -> verdict, evidence, replay.

Exit codes: 0 property held on everything explored; 1 violation (VIOLATION line printed);
2 infrastructure failure (never used to hide a violation).
"""
import argparse
import hashlib
import importlib
import json
import os
import sys
import time
import traceback

HERE = os.path.dirname(os.path.abspath(__file__))
sys.path.insert(0, os.path.dirname(HERE))

from harness.lib import repo, lean, evidence, findings, rng  # noqa: E402


TieBroken = lean.TieBroken


class Ctx(object):
    def __init__(self, prop_id, tier, seed):
        self.prop_id = prop_id
        self.tier = tier
        self.seed = seed
        self.t0 = time.time()
        self.budget = float(os.environ.get('VERIF_BUDGET_S', 0) or (150 if tier == 'quick' else 1200))
        self.evaluations = 0
        self._distinct = set()
        self.samples = []
        self.dist = {}
        self.rule = ''
        self.disagreements = []      # code vs Model (broken correspondence)
        self.violations = []         # code vs Spec / property oracle (has a concrete replay)
        self.broken = []             # (kind, detail): translator / build / audit / correspondence
        self.notes = []
        self.extra = {}              # extra coverage keys
        self._drivers = {}
        self.theorems = {}
        self.lean_ok = False

    # ---- bookkeeping used by property modules -------------------------------------
    def rng(self, tag=''):
        return rng.make('%s/%s' % (self.prop_id, tag))

    def time_left(self):
        return self.budget - (time.time() - self.t0)

    def case(self, key, nontrivial=True):
        """Count one evaluated case; `key` identifies it for the distinct count."""
        self.evaluations += 1
        if nontrivial:
            h = hashlib.blake2b(repr(key).encode('utf-8', 'replace'), digest_size=8).digest()
            self._distinct.add(h)

    def count(self, key, n=1):
        self.dist[key] = self.dist.get(key, 0) + n

    def sample(self, obj, limit=6):
        if len(self.samples) < limit:
            self.samples.append(obj)

    def driver(self, exe):
        d = self._drivers.get(exe)
        if d is None:
            d = lean.Driver(exe)
            self._drivers[exe] = d
        return d

    def disagree(self, what, case, model, code):
        """Real code and executable Lean model differ on `case`."""
        self.disagreements.append({'what': what, 'case': case, 'model': model, 'code': code})

    def violate(self, signature, what, case, expected=None, observed=None):
        """Real code breaks the property (judged by the Spec oracle) on a concrete `case`."""
        self.violations.append({'signature': signature, 'what': what, 'case': case,
                                'expected': expected, 'observed': observed})

    def close(self):
        for d in self._drivers.values():
            d.close()


def _write_replay(ctx, n, doc):
    d = os.path.join(repo.VERIF, 'replays')
    os.makedirs(d, exist_ok=True)
    rel = os.path.join('replays', '%s-%d-%d.json' % (ctx.prop_id, ctx.seed, n))
    doc = dict(doc)
    doc['property'] = ctx.prop_id
    doc['seed'] = ctx.seed
    doc['tier'] = ctx.tier
    doc['replay_cmd'] = './check %s --replay %s' % (ctx.prop_id, rel)
    with open(os.path.join(repo.VERIF, rel), 'w') as f:
        json.dump(doc, f, indent=1, sort_keys=True, default=str)
        f.write('\n')
    return rel


def _lean_phase(ctx, mod):
    targets = list(getattr(mod, 'TARGETS', []))
    if not targets:
        return
    ok, out = lean.build(targets)
    if not ok:
        errs = [l for l in out.split('\n') if 'error' in l.lower()][:12]
        ctx.broken.append(('build', 'lake build %s failed: %s' % (' '.join(targets), ' | '.join(errs) or out[-800:])))
        # try to keep the executable model alive for the correspondence / search
        drv = [t for t in targets if t.startswith('drv_')]
        if drv:
            ok2, out2 = lean.build(drv)
            if not ok2:
                ctx.broken.append(('build', 'driver %s does not build' % drv))
        return
    try:
        ax = lean.audit(ctx.prop_id)
    except lean.LeanError as e:
        ctx.broken.append(('audit', '%s: %s' % (e.what, e.output[-600:])))
        return
    declared = set(lean.theorem_sources(ctx.prop_id))
    for name, axioms in ax.items():
        bad = [a for a in axioms if a not in lean.ALLOWED_AXIOMS]
        if bad:
            ctx.broken.append(('audit', 'theorem %s depends on non-standard axioms %s' % (name, bad)))
        if name not in declared:
            ctx.broken.append(('audit', 'audited name %s is not a theorem of Props/%s.lean' % (name, ctx.prop_id)))
    unaudited = sorted(declared - set(ax))
    if unaudited:
        ctx.broken.append(('audit', 'theorems without axiom audit: %s' % unaudited))
    mods = lean.imports_closure('PyIpmi.Props.' + ctx.prop_id)
    hits = lean.grep_forbidden(mods)
    if hits:
        ctx.broken.append(('audit', 'forbidden tokens: %s' % hits[:5]))
    ctx.theorems = ax
    ctx.extra['lean_modules'] = sorted(mods)
    if ctx.tier == 'thorough' and not ctx.broken:
        t = time.time()
        ok, out = lean.leanchecker(mods)
        ctx.extra['leanchecker'] = {'ok': ok, 'modules': len(mods), 'wall_s': round(time.time() - t, 1)}
        if not ok:
            ctx.broken.append(('audit', 'leanchecker rejected: %s' % out[-600:]))
    ctx.lean_ok = not any(k in ('build', 'audit') for k, _ in ctx.broken)


def run_check(prop_id, tier):
    seed = rng.seed()
    ctx = Ctx(prop_id, tier, seed)
    mod = importlib.import_module('harness.props.' + prop_id.lower())
    repo.activate()
    infra_error = None
    try:
        with lean.Lock():
            # 1. translators
            try:
                if hasattr(mod, 'translate'):
                    mod.translate(ctx)
            except TieBroken as e:
                ctx.broken.append(('translator', str(e)))
            # 2./3. build + audit
            _lean_phase(ctx, mod)
            # start the drivers while the generated files are still ours
            for t in getattr(mod, 'TARGETS', []):
                if t.startswith('drv_'):
                    try:
                        ctx.driver(t)
                    except lean.LeanError as e:
                        ctx.broken.append(('driver', e.what))
        # 4./5. correspondence and always-on spec run
        try:
            mod.run(ctx)
        except lean.LeanError as e:
            ctx.broken.append(('driver', '%s %s' % (e.what, e.output[-300:])))
        if ctx.disagreements:
            d = ctx.disagreements[0]
            ctx.broken.append(('correspondence', '%d code/model disagreements; first: %s' % (
                len(ctx.disagreements), json.dumps(d, default=str)[:600])))
        # 6. failing-input search when a tie broke and no concrete violation is in hand yet
        if ctx.broken and not ctx.violations and hasattr(mod, 'search'):
            try:
                mod.search(ctx)
            except lean.LeanError as e:
                ctx.notes.append('search could not use the driver: %s' % e.what)
    except Exception:
        infra_error = traceback.format_exc()
    finally:
        ctx.close()

    # ---- verdict -------------------------------------------------------------------
    known = findings.known_for(prop_id)
    reported, seen_known = [], {}
    for v in ctx.violations:
        if v['signature'] in known:
            seen_known[v['signature']] = known[v['signature']]
        elif v['signature'] not in [r['signature'] for r in reported]:
            reported.append(v)
    lines = []
    for sig, k in sorted(seen_known.items()):
        lines.append('KNOWN-FINDING: property=%s %s' % (prop_id, k.get('what', sig)))
    n = 0
    for v in reported[:8]:
        n += 1
        rel = _write_replay(ctx, n, {'kind': 'failing-input', 'violation': v})
        lines.append('VIOLATION property=%s replay=%s' % (prop_id, rel))
    if ctx.broken and not reported and not seen_known:
        n += 1
        rel = _write_replay(ctx, n, {
            'kind': 'no-failing-input-found',
            'no_longer_checks': [{'kind': k, 'detail': d} for k, d in ctx.broken],
            'disagreements': ctx.disagreements[:5],
            'notes': ctx.notes,
        })
        lines.append('VIOLATION property=%s replay=%s no-failing-input-found' % (prop_id, rel))
    elif ctx.broken and not reported and seen_known:
        # the tie is broken only in ways explained by known findings?  Only if every
        # disagreement was turned into a known violation by the search; otherwise report.
        unexplained = [b for b in ctx.broken if b[0] != 'correspondence'] or \
            [d for d in ctx.disagreements if not d.get('explained_by')]
        if unexplained:
            n += 1
            rel = _write_replay(ctx, n, {
                'kind': 'no-failing-input-found',
                'no_longer_checks': [{'kind': k, 'detail': d} for k, d in ctx.broken],
                'disagreements': ctx.disagreements[:5], 'notes': ctx.notes})
            lines.append('VIOLATION property=%s replay=%s no-failing-input-found' % (prop_id, rel))
    nviol = sum(1 for l in lines if l.startswith('VIOLATION'))

    # ---- evidence -------------------------------------------------------------------
    obligations = len(ctx.theorems)
    discharged = obligations if ctx.lean_ok else 0
    coverage = {
        'obligations': obligations,
        'discharged': discharged,
        'checker_cmd': 'cd lean && lake build %s && lake env lean Audit/%s.lean' % (
            ' '.join(getattr(mod, 'TARGETS', [])), prop_id),
        'trusted_base': evidence.TRUSTED_BASE + list(getattr(mod, 'TRUSTED', [])),
        'theorems': dict((k, v) for k, v in sorted(ctx.theorems.items())),
        'evaluations': ctx.evaluations,
        'distinct_nontrivial': len(ctx._distinct),
        'rule': ctx.rule or getattr(mod, 'RULE', ''),
        'samples': ctx.samples or ['(no case was generated: %s)' % (ctx.broken[:1] or 'n/a',)],
        'distribution': dict(sorted(ctx.dist.items(), key=lambda kv: str(kv[0]))),
        'traces_validated_against_impl': ctx.evaluations,
        'disagreements_checked': len(ctx.disagreements),
        'broken_ties': [{'kind': k, 'detail': d[:400]} for k, d in ctx.broken],
        'known_findings_seen': sorted(seen_known),
        'repo': repo.REPO,
        'notes': ctx.notes,
    }
    coverage.update(ctx.extra)
    wall = time.time() - ctx.t0
    if obligations == 0 or discharged == 0:
        # schema: a proof-level file needs >=1 discharged obligation; say what happened instead
        coverage['explanation'] = 'no proof obligation was discharged on this run: %s' % (ctx.broken[:2],)
    level = getattr(mod, 'LEVEL', 'proof') if discharged >= 1 else 'other'
    evidence.write(prop_id, tier, seed, level, coverage,
                   list(getattr(mod, 'ASSUMPTIONS', [])), wall, nviol)

    for l in lines:
        print(l)
    print('%s tier=%s seed=%d theorems=%d/%d evaluations=%d distinct=%d disagreements=%d violations=%d wall=%.1fs' % (
        prop_id, tier, seed, discharged, obligations, ctx.evaluations, len(ctx._distinct),
        len(ctx.disagreements), nviol, wall))
    if infra_error:
        sys.stderr.write(infra_error)
        return 1 if nviol else 2
    return 1 if nviol else 0


def run_replay(prop_id, path):
    mod = importlib.import_module('harness.props.' + prop_id.lower())
    repo.activate()
    with open(path if os.path.isabs(path) else os.path.join(repo.VERIF, path)) as f:
        doc = json.load(f)
    ctx = Ctx(prop_id, 'quick', doc.get('seed', 0))
    try:
        if doc.get('kind') != 'failing-input':
            print('replay names broken obligations only (no failing input was found):')
            print(json.dumps(doc.get('no_longer_checks'), indent=1))
            return 1
        still = mod.replay(ctx, doc['violation'])
    finally:
        ctx.close()
    print('replay %s: property %s on the current tree' % (path, 'VIOLATED' if still else 'holds'))
    return 1 if still else 0


def main():
    ap = argparse.ArgumentParser()
    ap.add_argument('prop')
    ap.add_argument('--tier', default=os.environ.get('VERIF_TIER', 'quick'), choices=['quick', 'thorough'])
    ap.add_argument('--replay')
    a = ap.parse_args()
    pid = a.prop.upper()
    if a.replay:
        sys.exit(run_replay(pid, a.replay))
    sys.exit(run_check(pid, a.tier))


if __name__ == '__main__':
    main()
