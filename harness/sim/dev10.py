"""Substituted interface for C10 / C12: a fake `interface` object for `pyipmi.Ipmi` whose other
end is the byte-level Lean reference device running in the compiled driver.

The real code is exercised from `Ipmi.read_fru_data(...)` / `Ipmi.get_sel_entries()` down to and
including the real message codec: `send_and_receive(req)` does what every native interface of
the library does (cf. interfaces/ipmitool.py) - `encode_message(req)`, one raw exchange,
`create_message(netfn+1, cmd)` + `decode_message` - and the raw exchange is answered by the
device (`x <cmd> <hex>` on the driver).  Every exchange is recorded with the name of the
library function that issued it (found on the Python stack; used for violation signatures).
"""
import sys

from ..lib import lean

NETFN_STORAGE = 0x0A


class Hang(BaseException):
    """The code under test issued more requests than any terminating run can need."""


class LeanDevice(object):
    """The reference device inside a driver process (`dev …`, `x …`, `dump`/`state`)."""

    def __init__(self, drv):
        self.drv = drv

    def load(self, dev_line):
        r = self.drv.ask(dev_line)
        if r != 'ok':
            raise lean.LeanError('driver rejected device line: %s -> %s' % (dev_line[:120], r))

    def faults(self, plan):
        """Install a fault plan on the current device: [(k, 'c', code) | (k, 's', n) | (k, 'a', n)], k counts
        the requests from now on (`c`: request k is answered with the bare completion code, unprocessed;
        `s`: write request k stores and acknowledges only its first n data bytes; `a`: write request k is
        stored as sent and acknowledged with count n).  A plan may name several requests of one write."""
        spec = ' '.join('%d:%s:%d' % (int(k), t, int(v)) for k, t, v in plan) or '-'
        r = self.drv.ask('faults ' + spec)
        if r != 'ok':
            raise lean.LeanError('driver rejected fault plan: %s -> %s' % (spec, r))

    def snap(self):
        """The model's `run` starts from the device as it is now (one step of a history)."""
        if self.drv.ask('snap') != 'ok':
            raise lean.LeanError('driver rejected snap')

    def dump(self):
        return self.drv.ask('dump')

    def request(self, netfn, cmd, payload):
        if netfn != NETFN_STORAGE:
            return b'\xc1'
        r = self.drv.ask('x %d %s' % (cmd, lean.hexs(payload)))
        if r == 'bad-op':
            raise lean.LeanError('driver rejected request %d %s' % (cmd, lean.hexs(payload)))
        return lean.unhex(r)


def _issuer(files, leaf_names):
    """Name of the library function that asked for this exchange: the caller of the innermost
    frame named in `leaf_names` (e.g. the caller of read_fru_data), else the innermost library
    frame in `files`."""
    f = sys._getframe(2)
    chain = []
    while f is not None:
        fn = f.f_code.co_filename.replace('\\', '/')
        if any(fn.endswith(x) for x in files):
            chain.append(f.f_code.co_name)
        f = f.f_back
    # chain is innermost first
    for i, name in enumerate(chain):
        if name in leaf_names:
            return chain[i + 1] if i + 1 < len(chain) else name
    return chain[0] if chain else '?'


class FakeInterface(object):
    def __init__(self, device, cap=400000, files=('pyipmi/fru.py', 'pyipmi/sel.py'),
                 leaves=('read_fru_data',)):
        self.device = device
        self.trace = []          # (cmd, payload bytes, response bytes, issuer)
        self.cap = cap
        self.files = files
        self.leaves = leaves

    # -- what Ipmi / Session may call on an interface
    def open(self):
        pass

    def close(self):
        pass

    def establish_session(self, session):
        pass

    def close_session(self):
        pass

    def is_ipmc_accessible(self, target):
        return True

    def send_and_receive_raw(self, target, lun, netfn, raw_bytes):
        raw = bytes(bytearray(raw_bytes))
        if len(self.trace) >= self.cap:
            raise Hang()
        rsp = self.device.request(netfn, raw[0], raw[1:])
        self.trace.append((raw[0], raw[1:], rsp, _issuer(self.files, self.leaves)))
        return rsp

    def send_and_receive(self, req):
        from pyipmi.msgs import encode_message, decode_message, create_message
        payload = bytes(bytearray(encode_message(req)))
        rsp_data = self.send_and_receive_raw(req.target, req.lun, req.netfn,
                                             bytes(bytearray([req.cmdid])) + payload)
        rsp = create_message(req.netfn + 1, req.cmdid, req.group_extension)
        decode_message(rsp, rsp_data)
        return rsp


def make_ipmi(iface):
    import pyipmi
    return pyipmi.create_connection(iface)


def show_trace(trace):
    if not trace:
        return '-'
    return ','.join('%d:%s>%s' % (t[0], lean.hexs(t[1]), lean.hexs(t[2])) for t in trace)


def outcome_tag(e):
    """Exception -> the driver's outcome tag."""
    name = type(e).__name__
    if isinstance(e, Hang):
        return 'py:nontermination'
    if name == 'CompletionCodeError':
        return 'CompletionCodeError:%d' % e.cc
    if name in ('DecodingError', 'EncodingError', 'RetryError', 'IpmiTimeoutError', 'NotSupportedError', 'HpmError'):
        return name
    return 'py:' + name
