"""Histories in a pristine process (used by C18, C19, C20).

A seeded change can hide state anywhere a process keeps it: on an object, on a class, in a
module global, in a default argument.  A check that evaluates thousands of cases in one process
cannot tell "this call is wrong" from "this call is wrong because of something an earlier,
unrelated case left behind" - and a replay (a new process) then says "holds".  So histories are
evaluated where the replay will evaluate them: in a process that has imported the code under
test but has not yet used it.

`Pristine(funcs)` forks a server at a moment when the calling process is still in that state.
`call(name, *args)` makes the server fork once more; that grandchild runs `funcs[name](*args)`
on its private copy of the pristine state, sends the (picklable) result back and exits.
Nothing the grandchild does can reach the caller or the next grandchild.  The server closes
every inherited descriptor except its two pipes, so drivers and files of the caller are not
held open by it; a function that needs a Lean driver starts its own.
"""
import os
import pickle
import select
import signal
import struct
import sys
import time
import traceback


class PristineError(Exception):
    pass


def _read_exact(fd, n, deadline=None):
    buf = b''
    while len(buf) < n:
        if deadline is not None:
            left = deadline - time.time()
            if left <= 0 or not select.select([fd], [], [], left)[0]:
                return None
        chunk = os.read(fd, n - len(buf))
        if not chunk:
            return None if not buf else buf
        buf += chunk
    return buf


def _send(fd, obj):
    data = pickle.dumps(obj, protocol=2)
    data = struct.pack('<I', len(data)) + data
    while data:
        n = os.write(fd, data)
        data = data[n:]


def _recv(fd, deadline=None):
    head = _read_exact(fd, 4, deadline)
    if head is None or len(head) < 4:
        return None
    body = _read_exact(fd, struct.unpack('<I', head)[0], deadline)
    if body is None:
        return None
    return pickle.loads(body)


class Pristine(object):
    def __init__(self, funcs, preload=None):
        """`preload()` runs once in the server (imports of the code under test, so that the children do
        not import it again each); it must not call into that code."""
        self.funcs = dict(funcs)
        self.calls = 0
        r1, w1 = os.pipe()      # caller -> server
        r2, w2 = os.pipe()      # server -> caller
        sys.stdout.flush()
        sys.stderr.flush()
        pid = os.fork()
        if pid == 0:
            try:
                keep = (r1, w2)
                null = os.open(os.devnull, os.O_RDWR)
                for fd in (0, 1, 2):
                    os.dup2(null, fd)
                try:
                    top = max(int(x) for x in os.listdir('/proc/self/fd'))
                except Exception:  # noqa
                    top = 1024
                for fd in range(3, top + 1):
                    if fd not in keep:
                        try:
                            os.close(fd)
                        except OSError:
                            pass
                if preload is not None:
                    preload()
                self._serve(r1, w2)
            except BaseException:  # noqa
                pass
            finally:
                os._exit(0)
        os.close(r1)
        os.close(w2)
        self.pid, self.w, self.r = pid, w1, r2

    # ---- server side ---------------------------------------------------------------------
    def _serve(self, rfd, wfd):
        while True:
            req = _recv(rfd)
            if req is None:
                return
            name, args, timeout = req
            cr, cw = os.pipe()
            pid = os.fork()
            if pid == 0:
                try:
                    os.close(cr)
                    try:
                        res = ('ok', self.funcs[name](*args))
                        _send(cw, res)
                    except BaseException:  # noqa
                        _send(cw, ('error', traceback.format_exc()[-1500:]))
                finally:
                    os._exit(0)
            os.close(cw)
            res = _recv(cr, time.time() + timeout)
            if res is None:
                try:
                    os.kill(pid, signal.SIGKILL)
                except OSError:
                    pass
                res = ('error', 'no result from the child within %d s' % timeout)
            os.close(cr)
            try:
                os.waitpid(pid, 0)
            except OSError:
                pass
            _send(wfd, res)

    # ---- caller side ---------------------------------------------------------------------
    def call(self, name, *args, **kw):
        timeout = kw.get('timeout', 120)
        if self.w is None:
            raise PristineError('server closed')
        self.calls += 1
        _send(self.w, (name, args, timeout))
        res = _recv(self.r, time.time() + timeout + 10)
        if res is None:
            raise PristineError('the pristine server died')
        if res[0] != 'ok':
            raise PristineError(res[1])
        return res[1]

    def close(self):
        if self.w is None:
            return
        for fd in (self.w, self.r):
            try:
                os.close(fd)
            except OSError:
                pass
        self.w = self.r = None
        try:
            os.waitpid(self.pid, 0)
        except OSError:
            pass
