"""Deterministic scheduler for REAL `threading` threads (C14).

Exactly one managed thread runs at any time (it "holds the baton").  At every *yield point*
the running thread asks the policy which thread runs next; if it is another one, it hands the
baton over through that thread's semaphore and sleeps on its own.  Yield points are

  * the scheduler-aware primitives below (`SchedLock.acquire/release`, `SchedEvent.wait/set`,
    `SchedThread.join`),
  * whatever the harness wraps (socket send/receive, shared attribute accesses, call entry),
  * in `line` granularity, every source line of the files named in `trace_files`
    (`sys.settrace` 'line' events).

Nothing here depends on wall-clock time: a blocked operation is a pending operation with an
`enabled()` predicate, a timer is a counter.  The only real time-out is the watchdog of
`run()`, which fires only if some thread blocks on a primitive the scheduler does not control
(reported as status 'stuck', never as a property violation).

A run is identified by its list of choices (thread id per decision); `ReplayPolicy` follows
such a list again and falls back to "keep running, else lowest id" when the list ends or names
a thread that is not enabled — that is how a replay recorded on one tree is re-executed on
another.
"""
import sys
import threading as _threading


class SchedAbort(BaseException):
    """Raised inside managed threads to unwind them when a run is aborted."""


class _T(object):
    __slots__ = ('tid', 'target', 'sem', 'thread', 'done', 'kind', 'info', 'enabled', 'exc', 'started', 'since')

    def __init__(self, tid, target):
        self.tid = tid
        self.target = target
        self.sem = _threading.Semaphore(0)
        self.thread = None
        self.done = False
        self.kind = 'start'
        self.info = None
        self.enabled = None      # None = always enabled
        self.exc = None
        self.started = False
        self.since = 0           # step number at which the pending operation was asked for (FIFO order of waiters)


class Scheduler(object):
    def __init__(self, policy, granularity='sync', trace_files=(), max_steps=400000, watchdog=30.0):
        self.policy = policy
        self.gran = granularity
        self.trace_files = frozenset(trace_files)
        self.max_steps = max_steps
        self.watchdog = watchdog
        self.threads = []
        self.cur = None              # tid holding the baton
        self.running = False
        self.aborted = None          # reason
        self.status = 'new'
        self.steps = 0               # yield points passed
        self.choices = []            # chosen tid per decision
        self.record = None           # optional list of (enabled tuple, chosen, prev) per decision
        self.log = []                # (tid, event tuple): shared accesses in execution order
        self.on_idle = None          # called when nothing is enabled; returns True if it changed that
        self.mute = False            # set by the harness' own clean-up: what follows is not part of the run
        self._main = _threading.Semaphore(0)
        self._idents = {}

    # ------------------------------------------------------------------ set-up
    def spawn(self, target):
        t = _T(len(self.threads), target)
        self.threads.append(t)
        if self.running:
            self._start_real(t)
        return t.tid

    def _start_real(self, t):
        th = _threading.Thread(target=self._body, args=(t,), name='c14-%d' % t.tid)
        th.daemon = True
        t.thread = th
        t.started = True
        th.start()

    def active(self):
        """True when called from the managed thread that holds the baton."""
        return self.running and self.cur is not None and \
            self._idents.get(_threading.get_ident()) == self.cur

    def tid(self):
        return self.cur

    # ------------------------------------------------------------------ thread body
    def _body(self, t):
        self._idents[_threading.get_ident()] = t.tid
        t.sem.acquire()
        if self.aborted:
            t.done = True
            return
        try:
            if self.gran == 'line':
                sys.settrace(self._gtrace)
            try:
                t.target()
            finally:
                sys.settrace(None)
        except SchedAbort:
            t.done = True
            return
        except BaseException as e:  # noqa  (a thread that dies is an observation, not a crash)
            t.exc = e
        t.done = True
        try:
            self._dispatch(t, finishing=True)
        except SchedAbort:
            pass

    def _gtrace(self, frame, event, arg):
        if frame.f_code.co_filename in self.trace_files:
            return self._ltrace
        return None

    def _ltrace(self, frame, event, arg):
        if event == 'line':
            self.yield_point('line')
        return self._ltrace

    # ------------------------------------------------------------------ the core
    def emit(self, *ev):
        if not self.mute:
            self.log.append((self.cur, ev))

    def yield_point(self, kind, info=None, enabled=None):
        """Called by the baton holder before it performs the operation `kind`."""
        t = self.threads[self.cur]
        t.kind, t.info, t.enabled = kind, info, enabled
        t.since = self.steps
        self._dispatch(t, finishing=False)
        t.kind, t.info, t.enabled = 'run', None, None

    def _enabled(self):
        return [t.tid for t in self.threads if not t.done and (t.enabled is None or t.enabled())]

    def _abort(self, reason):
        if not self.aborted:
            self.aborted = reason
        self.cur = None
        for t in self.threads:
            t.sem.release()
        self._main.release()

    def _dispatch(self, me, finishing):
        if self.aborted:
            raise SchedAbort()
        self.steps += 1
        if self.steps > self.max_steps:
            self._abort('step-budget')
            raise SchedAbort()
        en = self._enabled()
        if not en:
            if all(t.done for t in self.threads):
                self.status = 'complete'
                self.cur = None
                self._main.release()
                return
            if self.on_idle is not None and self.on_idle():
                en = self._enabled()
            if not en:
                self._abort('deadlock')
                raise SchedAbort()
        prev = me.tid if (not finishing and me.tid in en) else None
        if len(en) == 1:
            choice = en[0]
        else:
            try:
                choice = self.policy.choose(len(self.choices), en, prev, self)
            except Exception as e:  # noqa
                self._abort('policy-error: %r' % (e,))
                raise SchedAbort()
            if choice not in en:
                self._abort('policy chose a thread that is not enabled')
                raise SchedAbort()
            self.choices.append(choice)
            if self.record is not None:
                self.record.append((tuple(en), choice, prev))
        if choice == me.tid and not finishing:
            return
        nxt = self.threads[choice]
        self.cur = choice
        nxt.sem.release()
        if finishing:
            return
        me.sem.acquire()
        if self.aborted:
            raise SchedAbort()

    # ------------------------------------------------------------------ running
    def run(self):
        """Start the threads, run them to completion under the policy, clean up.
        Returns the status: complete | deadlock | step-budget | stuck | policy…"""
        self.running = True
        for t in self.threads:
            if not t.started:
                self._start_real(t)
        en = self._enabled()
        if not en:
            self.status = 'complete'
        else:
            if len(en) == 1:
                first = en[0]
            else:
                first = self.policy.choose(0, en, None, self)
                self.choices.append(first)
                if self.record is not None:
                    self.record.append((tuple(en), first, None))
            self.cur = first
            self.threads[first].sem.release()
            if not self._main.acquire(timeout=self.watchdog):
                self._abort('stuck')
            if self.aborted:
                self.status = self.aborted
        self.running = False
        leaked = 0
        for t in self.threads:
            if t.thread is not None:
                t.thread.join(2.0 if self.status != 'stuck' else 0.2)
                if t.thread.is_alive():
                    leaked += 1
        if leaked and self.status == 'complete':
            self.status = 'stuck'
        self.leaked = leaked
        self.cur = None
        return self.status


# ---------------------------------------------------------------------- primitives
class SchedLock(object):
    """Replacement for `threading.Lock` whose blocking is a scheduling decision."""
    _count = [0]

    def __init__(self, sched, reentrant=False):
        self.sched = sched
        self.owner = None
        self.depth = 0
        self.reentrant = reentrant
        self.idx = sched._lock_count = getattr(sched, '_lock_count', -1) + 1
        if not hasattr(sched, '_locks'):
            sched._locks = []
        sched._locks.append(self)       # (read by HandOffPolicy: who holds a lock right now)

    def _name(self, what):
        return what if self.idx == 0 else '%s#%d' % (what, self.idx)

    def acquire(self, blocking=True, timeout=-1):
        s = self.sched
        if not s.active():
            if self.owner is not None and not (self.reentrant and self.owner == 'main'):
                if not blocking:
                    return False
                raise RuntimeError('lock held while the scheduler is not running')
            self.owner = 'main'
            self.depth += 1
            return True
        me = s.tid()
        if self.reentrant and self.owner == me:
            self.depth += 1
            return True
        if not blocking or (timeout is not None and timeout >= 0):
            s.yield_point('tryacq', self)
            if self.owner is not None:
                return False
        else:
            s.yield_point('acq', self, enabled=lambda: self.owner is None)
        self.owner = me
        self.depth = 1
        s.emit(self._name('acq'))
        return True

    def release(self):
        s = self.sched
        if s.active() and not s.aborted:
            if self.reentrant and self.depth > 1:
                self.depth -= 1
                return
            s.yield_point('rel', self)
            if self.owner is None:
                raise RuntimeError('release unlocked lock')
            self.owner = None
            self.depth = 0
            s.emit(self._name('rel'))
            return
        if self.owner is None and not s.aborted:
            raise RuntimeError('release unlocked lock')
        self.depth = max(0, self.depth - 1)
        if self.depth == 0:
            self.owner = None

    def locked(self):
        return self.owner is not None

    def __enter__(self):
        self.acquire()
        return self

    def __exit__(self, *a):
        self.release()
        return False


class SchedEvent(object):
    """Replacement for `threading.Event`.  `wait(timeout)` with a time-out is a virtual timer: each time
    the waiting thread is scheduled, the wait ends — with True if the flag is set by then, else the
    interval has elapsed (False; at most `budget` times, after that it blocks until `set()`).  WHEN the
    interval elapses relative to the other threads is therefore a scheduling decision like any other
    ('tick' / 'kaExit' in the log); `set()` is a scheduling point too ('stopSet')."""

    def __init__(self, sched, budget=0):
        self.sched = sched
        self.flag = False
        self.budget = budget

    def set(self):
        s = self.sched
        if s.active() and not s.aborted:
            s.yield_point('set', self)
            self.flag = True
            s.emit('stopSet')
            return
        self.flag = True

    def clear(self):
        self.flag = False

    def is_set(self):
        return self.flag

    isSet = is_set

    def wait(self, timeout=None):
        s = self.sched
        if not s.active():
            return self.flag
        if timeout is None:
            s.yield_point('wait', self, enabled=lambda: self.flag)
            return True
        s.yield_point('timer', self, enabled=lambda: self.flag or self.budget > 0)
        if self.flag:
            s.emit('kaExit')
            return True
        self.budget -= 1
        s.emit('tick')
        return False


class SchedThread(object):
    """Replacement for `threading.Thread`: `start()` registers the target with the scheduler."""

    def __init__(self, sched, group=None, target=None, name=None, args=(), kwargs=None, daemon=None):
        self.sched = sched
        self._target = target
        self._args = tuple(args)
        self._kwargs = dict(kwargs or {})
        self.daemon = daemon
        self.name = name
        self.tid = None

    def start(self):
        self.tid = self.sched.spawn(lambda: self._target(*self._args, **self._kwargs))

    def is_alive(self):
        return self.tid is not None and not self.sched.threads[self.tid].done

    def join(self, timeout=None):
        """A blocking join is enabled once the target has terminated ('join' in the log); a join with a
        time-out is a scheduling point that does not wait."""
        s = self.sched
        if self.tid is None or not s.active() or s.aborted:
            return None
        if timeout is not None:
            s.yield_point('join-timeout', self)
            return None
        target = s.threads[self.tid]
        s.yield_point('join', self, enabled=lambda: target.done)
        s.emit('join')
        return None


class ThreadingShim(object):
    """Stands in for the `threading` module inside the module under test."""

    def __init__(self, sched, timer_budget=0):
        self.sched = sched
        self.timer_budget = timer_budget
        self.events = []
        self.spawned = []

    def Lock(self):
        return SchedLock(self.sched)

    def RLock(self):
        return SchedLock(self.sched, reentrant=True)

    def Event(self):
        e = SchedEvent(self.sched, self.timer_budget)
        self.events.append(e)
        return e

    def Thread(self, *a, **kw):
        t = SchedThread(self.sched, *a, **kw)
        self.spawned.append(t)
        return t

    def current_thread(self):
        """The shim's Thread object when called from a thread it started, else the real one."""
        if self.sched.active():
            for t in self.spawned:
                if t.tid is not None and t.tid == self.sched.cur:
                    return t
        return _threading.current_thread()

    currentThread = current_thread

    def __getattr__(self, name):
        return getattr(_threading, name)


# ---------------------------------------------------------------------- policies
class ReplayPolicy(object):
    """Follow a recorded list of choices; afterwards (or when the recorded thread is not
    enabled) keep the running thread, else take the lowest enabled id."""

    def __init__(self, choices):
        self.choices = list(choices)
        self.diverged = None

    def choose(self, i, enabled, prev, sched):
        if i < len(self.choices):
            c = self.choices[i]
            if c in enabled:
                return c
            if self.diverged is None:
                self.diverged = i
        return prev if prev is not None else enabled[0]


class RandomPolicy(object):
    """Keep the running thread with probability 1-p, else pick uniformly among the enabled."""

    def __init__(self, rng, p):
        self.rng = rng
        self.p = p

    def choose(self, i, enabled, prev, sched):
        if prev is not None and self.rng.random() >= self.p:
            return prev
        return enabled[self.rng.randrange(len(enabled))]


class HandOffPolicy(object):
    """What a lock does for its waiters at a release, as a deterministic schedule (the choices are recorded, a replay
    follows them with `ReplayPolicy`).

    mode 'fair'    - a FIFO (ticket) lock: while some thread holds a lock, every other thread that can move runs first
                     (lowest id after `first`), until it is queued on the lock or asleep; whenever the lock is free and
                     threads are queued on it, the one that has waited longest gets it - in particular NOT the thread
                     that has just released it and asks for it again at once.
    mode 'preempt' - no queueing in advance: the running thread keeps running, but right after it has released a lock
                     the scheduler switches to another thread that can move (round robin from `first`) - the
                     preemption between `release()` and whatever the releasing thread does next.
    `skip` hand-offs are passed over before the first one is taken (0: every release hands off)."""

    def __init__(self, mode='fair', first=0, skip=0):
        self.mode = mode
        self.first = first
        self.skip = skip
        self.n = 0

    def _rot(self, tids):
        return sorted(tids, key=lambda t: ((t - self.first) % 64, t))

    def choose(self, i, enabled, prev, sched):
        self.n += 1
        if i == 0 and prev is None:
            return self._rot(enabled)[0]
        owners = set(l.owner for l in getattr(sched, '_locks', []) if l.owner is not None and l.owner != 'main')
        if self.mode == 'fair':
            # threads that are neither holding a lock nor queued on one: let them arrive first
            free = [t for t in enabled if t not in owners and sched.threads[t].kind != 'acq' and t != prev]
            if owners and prev in owners and free:
                return self._rot(free)[0]
            queued = [t for t in enabled if sched.threads[t].kind == 'acq']
            if queued and (prev is None or sched.threads[prev].kind == 'acq'):
                if self.skip > 0 and prev in queued and len(queued) > 1:
                    self.skip -= 1
                    return prev
                return min(queued, key=lambda t: (sched.threads[t].since, t))
            return prev if prev is not None else self._rot(enabled)[0]
        # 'preempt': switch right after a release
        if prev is not None and sched.log and sched.log[-1][0] == prev and \
                str(sched.log[-1][1][0]).split('#')[0] == 'rel':
            others = [t for t in enabled if t != prev]
            if others:
                if self.skip > 0:
                    self.skip -= 1
                    return prev
                return self._rot(others)[0]
        return prev if prev is not None else self._rot(enabled)[0]


def rle(choices):
    out = []
    for c in choices:
        if out and out[-1][0] == c:
            out[-1][1] += 1
        else:
            out.append([c, 1])
    return out


def unrle(pairs):
    out = []
    for c, n in pairs:
        out.extend([c] * n)
    return out


def explore(execute, bound, limit=None, should_stop=None):
    """Systematic exploration of all schedules with at most `bound` preemptions.

    `execute(prefix)` runs one schedule that follows `prefix` and then never preempts
    (ReplayPolicy fallback) and returns the scheduler's `record`: per decision
    (enabled, chosen, prev).  A preemption is a decision that leaves a thread that could have
    continued.  Every schedule within the bound is executed exactly once.  Yields nothing;
    returns (executions, truncated)."""
    stack = [[]]
    n = 0
    while stack:
        if (limit is not None and n >= limit) or (should_stop is not None and should_stop()):
            return n, True
        prefix = stack.pop()
        rec = execute(prefix)
        n += 1
        if rec is None:
            continue
        pre = 0
        chosen = []
        for i, (en, ch, prev) in enumerate(rec):
            if i >= len(prefix):
                for alt in en:
                    if alt == ch:
                        continue
                    cost = pre + (1 if (prev is not None and alt != prev) else 0)
                    if cost <= bound:
                        stack.append(chosen + [alt])
            if prev is not None and ch != prev:
                pre += 1
            chosen.append(ch)
    return n, False
