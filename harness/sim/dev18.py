"""C18 simulation: reference IPM controller for the HPM.1 upload phase, a fake interface that
hands the library's encoded requests to it, and a virtual clock for `pyipmi.hpm.time`.

Written from PICMG HPM.1 R1.0 §3 (Upload firmware block 32h, Get upgrade status 34h, long
duration commands) and IPMI (PICMG group extension netfn 2Ch, identifier 00h); it parses the
*bytes* the library produced and builds reply *bytes* itself — it never uses the library's
message classes to decide what a request means.  Python twin of lean/PyIpmi/Spec/HpmDevice.lean
(the two are compared on every run through the model).
"""
import contextlib

NETFN_GROUP_EXT = 0x2C
PICMG_ID = 0x00
CMD_UPLOAD_BLOCK = 0x32
CMD_GET_UPGRADE_STATUS = 0x34
CC_OK = 0x00
CC_IN_PROGRESS = 0x80


class VirtualClock(object):
    """Stands in for the `time` module inside pyipmi.hpm: integer ticks, advanced by sleep()."""

    def __init__(self):
        self.now = 0
        self.sleeps = 0

    def time(self):
        return self.now

    def sleep(self, dt):
        from . import realsleep
        realsleep.duration(dt)          # raises as the real time.sleep does for a negative / NaN / non-number duration
        self.sleeps += 1
        self.now += dt


class HpmDevice(object):
    """plan[i] = answer to the i-th Upload-firmware-block request received:
    ('o',) accept | ('p', k) accept as long duration command, the next k status requests still
    say 80h, then 00h | ('f', k, cc) the same, but the command then ends with the FINAL completion
    code cc: HPM.1 reports the outcome of a long duration command in the "last completion code" of
    Get upgrade status (00h success, anything else failure) | ('e', cc) reject with completion
    code | ('t',) no answer.  Beyond the list: accept."""

    def __init__(self, plan, clock=None, lat=0):
        self.plan = list(plan)
        self.clock = clock
        self.lat = lat
        self.idx = 0
        self.pending = 0
        self.final = CC_OK       # what the status reports once the long duration command has ended
        self.trace = []          # ('B', num, bytes) | ('S',) | ('X', netfn, cmd, bytes)
        self.answers = []        # completion code given to each block (None = silent)

    def handle(self, netfn, cmd, data):
        data = bytes(bytearray(data))
        if self.clock is not None:
            self.clock.now += self.lat
        if netfn == NETFN_GROUP_EXT and cmd == CMD_UPLOAD_BLOCK and len(data) >= 2 and data[0] == PICMG_ID:
            item = self.plan[self.idx] if self.idx < len(self.plan) else ('o',)
            self.idx += 1
            self.trace.append(('B', data[1], data[2:]))
            self.pending = item[1] if item[0] in ('p', 'f') else 0
            self.final = item[2] if item[0] == 'f' else CC_OK
            if item[0] == 't':
                self.answers.append(None)
                return None
            cc = {'o': CC_OK, 'p': CC_IN_PROGRESS, 'f': CC_IN_PROGRESS}.get(item[0], item[1] if len(item) > 1 else 0)
            self.answers.append(cc)
            return bytes([cc, PICMG_ID])
        if netfn == NETFN_GROUP_EXT and cmd == CMD_GET_UPGRADE_STATUS and data == bytes([PICMG_ID]):
            self.trace.append(('S',))
            last = CC_IN_PROGRESS if self.pending > 0 else self.final
            self.pending = max(0, self.pending - 1)
            return bytes([CC_OK, PICMG_ID, CMD_UPLOAD_BLOCK, last])
        self.trace.append(('X', netfn, cmd, data))
        return bytes([0xC1])     # invalid command


class FakeInterface(object):
    """Same shape as interfaces/rmcp.py:send_and_receive: encode, transport, decode."""

    def __init__(self, device):
        self.device = device

    def send_and_receive(self, req):
        from pyipmi.msgs import create_message, encode_message, decode_message
        from pyipmi.errors import IpmiTimeoutError
        rx = self.device.handle(req.netfn, req.cmdid, encode_message(req))
        if rx is None:
            raise IpmiTimeoutError()
        rsp = create_message(req.netfn + 1, req.cmdid, req.group_extension)
        decode_message(rsp, rx)
        return rsp


def make_ipmi(device):
    import pyipmi
    ipmi = pyipmi.create_connection(FakeInterface(device))
    ipmi.target = pyipmi.Target(0x20)
    return ipmi


@contextlib.contextmanager
def virtual_time(clock):
    """Substitute the `time` module seen by pyipmi/hpm.py (time.time / time.sleep)."""
    import pyipmi.hpm as H
    saved = H.time
    H.time = clock
    try:
        yield clock
    finally:
        H.time = saved


# the argument forms a caller can hand a firmware binary (or one block of it) in: the byte VALUES are the same in
# all of them; 'str' is the legacy one-character-per-byte text form (chr(b) for every byte b, 00h..FFh) that
# Hpm.upload_firmware_block has its isinstance(data, str) branch for
FORMS = ('bytes', 'bytearray', 'list', 'array', 'str')


def to_form(binary, form):
    """the binary (bytes) as the argument object of the given form"""
    from array import array
    binary = bytes(bytearray(binary))
    if form == 'bytes':
        return binary
    if form == 'bytearray':
        return bytearray(binary)
    if form == 'list':
        return list(binary)
    if form == 'array':
        return array('B', binary)
    if form == 'str':
        return ''.join(chr(b) for b in binary)
    raise ValueError(form)


def plan_token(item):
    if item[0] == 'f':
        return 'f%d.%d' % (item[1], item[2])
    return {'o': 'o', 't': 't'}.get(item[0]) or ('%s%d' % (item[0], item[1]))


def plan_str(plan):
    return ','.join(plan_token(p) for p in plan) if plan else '-'


def trace_tokens(trace):
    out = []
    for ev in trace:
        if ev[0] == 'B':
            out.append('B%d:%s' % (ev[1], ev[2].hex() or '-'))
        elif ev[0] == 'S':
            out.append('S')
        else:
            out.append('X%02x.%02x:%s' % (ev[1], ev[2], ev[3].hex() or '-'))
    return out
