"""C04 — substituted outside world for the three native transports.

Nothing in /repo is edited: every effect is replaced from here through attributes that are
reachable from outside (`Rmcp._sock`, and the module globals `os` / `select` / `time` /
`pyaardvark` of `pyipmi.interfaces.ipmbdev` / `aardvark`, restored afterwards).

Event scripts (JSON-able lists):

  RMCP      ['F', hex]      a well-formed RMCP/IPMI-session datagram carrying the IPMB frame `hex`
            ['L', hex]      same, but the session header's payload-length byte is one too large
            ['M']           a datagram whose RMCP version byte is not 6
            ['T']           socket.timeout
            ['P']           an RMCP presence pong (queued by the fake socket itself when a presence ping is sent)
  ipmb-dev  ['F', dt, hex]  select() says readable after dt ticks; os.read returns len-byte + frame
  Aardvark  ['L', dt, hex]  (ipmb-dev only) the length byte is wrong
            ['E', dt]       readable after dt ticks, the read raises OSError
            ['I']           nothing arrives: select()/poll() waits the whole timeout, returns empty

RMCP session operations (`run_rmcp_op`): establish_session / close_session run on the real object; every
`_send_and_receive` call inside them is observed like a plain request of `run_rmcp` and gets its own script.

A script that runs out behaves like an endless sequence of ['T'] / ['I'].
RMCP: the datagrams of a script that a request did not read STAY in the socket (`FakeSock.arrived`) and
are what the next request on the same interface object reads first (a UDP socket queues what it receives);
a non-blocking read (`settimeout(0)`) sees only those.
Time is virtual and counted in ticks of 1/64 s so that every value the code computes
(`0.25 - (now - start)`) is exact in binary floating point.

Frames used as stimuli are built by `rsp_frame` from the figure in IPMI v1.5 §7.3
(rqSA, netFn/rqLUN, chk1, rsSA, rqSeq/rsLUN, cmd, completion code, data, chk2) — never
with the library's own helpers.
"""
import socket

TICKS_PER_S = 64


# ------------------------------------------------------------------ frames from the figure
def chk(bs):
    return (-sum(bs)) & 0xff


def rsp_frame(rq_sa, netfn, rq_lun, rs_sa, seq, rs_lun, cmd, data, bad1=0, bad2=0):
    """IPMB/LAN response message; `data` starts with the completion code.  bad1/bad2 are
    added to the first / second checksum (0 = valid)."""
    h = [rq_sa & 0xff, ((netfn & 0x3f) << 2) | (rq_lun & 3)]
    h.append((chk(h) + bad1) & 0xff)
    b = [rs_sa & 0xff, ((seq & 0x3f) << 2) | (rs_lun & 3), cmd & 0xff] + list(data)
    b.append((chk(b) + bad2) & 0xff)
    return bytes(h + b)


def send_msg_envelope(inner, rq_sa=0x81, rs_sa=0x20, seq=0, cc=0):
    """Send Message response (netFn App+1 = 7, cmd 34h) that carries `inner` after its
    completion code; `inner == b''` is the bare acknowledgement."""
    return rsp_frame(rq_sa, 7, 0, rs_sa, seq, 0, 0x34, bytes([cc]) + bytes(inner))


def damage_cancelling(frame, d, where=-1):
    """`frame` with TWO damaged bytes whose errors cancel modulo 256: the header checksum (byte 2) +d and byte
    `where` of the payload part (offset >= 3, or negative from the end; -1 = the payload checksum) -d.  Neither
    checksum verifies (IPMI v1.5 7.3: chk1 covers bytes 0..1, chk2 bytes 3..end), the message as a whole still
    adds up to zero."""
    f = bytearray(frame)
    d %= 256
    assert d != 0 and (where >= 3 or where < 0) and len(f) >= 7
    f[2] = (f[2] + d) % 256
    f[where] = (f[where] - d) % 256
    assert sum(f[0:3]) % 256 != 0 and sum(f[3:]) % 256 != 0 and sum(f) % 256 == sum(bytearray(frame)) % 256
    return bytes(f)


def rmcp_wrap(frame, len_delta=0, version=6):
    """RMCP header (ASF 2.0 §3.2.2) + IPMI v1.5 session header with authentication type
    none (§6.11.7), session sequence and id zero."""
    frame = bytes(frame)
    return bytes([version, 0, 0xff, 0x07, 0x00, 0, 0, 0, 0, 0, 0, 0, 0,
                  (len(frame) + len_delta) & 0xff]) + frame


def rmcp_payload(pdu):
    """IPMB frame of a datagram sent by the client (no session: auth type none)."""
    pdu = bytes(pdu)
    if len(pdu) < 14 or pdu[0] != 6 or pdu[3] != 7:
        return None
    if pdu[4] != 0:
        # inside a session with an authentication type other than none (v1.5 6.11.7: 16 bytes of
        # authentication code between session id and payload length)
        if len(pdu) < 30 or pdu[29] != len(pdu) - 30:
            return None
        return pdu[30:]
    if pdu[13] != len(pdu) - 14:
        return None
    return pdu[14:]


def asf_pong(tag=0xff):
    """RMCP Presence Pong (ASF 2.0 3.2.4.3): RMCP header class ASF; IANA 4542, message type 40h, tag, reserved,
    data length 16; IANA 4542, OEM-defined 0, supported entities 81h (IPMI supported, ASF 1.0), supported
    interactions 0, six reserved bytes."""
    return bytes([6, 0, 0xff, 0x06]) + (4542).to_bytes(4, 'big') + bytes([0x40, tag, 0, 16]) + \
        (4542).to_bytes(4, 'big') + bytes(4) + bytes([0x81, 0]) + bytes(6)


# ------------------------------------------------------------------ RMCP
class FakeSock(object):
    """UDP socket of `Rmcp`.  `arrived` is the socket's receive queue: datagrams that were delivered
    but not read yet (they stay there from one request to the next); `script` is what the network
    delivers from now on.  A blocking `recvfrom` takes the oldest arrived datagram, else the next
    script event; a NON-blocking one (`settimeout(0)`: the repaired transport discards stale datagrams
    that way before it sends a request) sees only what has already arrived and raises BlockingIOError
    when there is nothing."""

    def __init__(self):
        self.arrived = []
        self.script = []
        self.sent = []
        self.consumed = 0          # events taken from `script`
        self.taken = 0             # datagrams taken from `arrived` by blocking reads
        self.drained = 0           # datagrams taken from `arrived` by non-blocking reads
        self.timeout = 2.0
        self.ping_mode = 'pong'    # what happens to an RMCP presence ping: 'pong' (answered) | 'lost'
        self.pings = []            # ASF datagrams sent (they are not requests: not in `sent`)

    def settimeout(self, t):
        self.timeout = t

    def gettimeout(self):
        return self.timeout

    def sendto(self, pdu, addr):
        pdu = bytes(pdu)
        if len(pdu) > 3 and pdu[0] == 6 and pdu[3] == 0x06:
            # RMCP class ASF: the presence ping of establish_session; the pong is queued behind whatever
            # is still unread in the socket (event ['P'])
            self.pings.append(pdu)
            if self.ping_mode == 'pong':
                self.arrived.append(['P'])
            return
        self.sent.append(pdu)

    def _deliver(self, ev):
        k = ev[0]
        if k == 'P':
            return (asf_pong(), ('bmc', 623))
        if k == 'M':
            return (rmcp_wrap(b'\x20\x1c\xc4\x81\x00\x01\x00\x7e', version=5), ('bmc', 623))
        if k == 'F':
            return (rmcp_wrap(bytes.fromhex(ev[1])), ('bmc', 623))
        if k == 'L':
            return (rmcp_wrap(bytes.fromhex(ev[1]), len_delta=1), ('bmc', 623))
        raise ValueError('bad rmcp event %r' % (ev,))

    def recvfrom(self, n):
        if self.timeout == 0:
            if not self.arrived:
                raise BlockingIOError(11, 'Resource temporarily unavailable')
            self.drained += 1
            return self._deliver(self.arrived.pop(0))
        if self.arrived:
            self.taken += 1
            return self._deliver(self.arrived.pop(0))
        if not self.script:
            raise socket.timeout()
        ev = self.script.pop(0)
        self.consumed += 1
        if ev[0] == 'T':
            raise socket.timeout()
        return self._deliver(ev)


def make_rmcp(max_retries=0, ignore_rq_seq=False, ignore_sdu_length=False, slave_address=0x81):
    from pyipmi.interfaces.rmcp import Rmcp
    q = {}
    if ignore_rq_seq:
        q['rmcp_ignore_rq_seq'] = True
    if ignore_sdu_length:
        q['rmcp_ignore_sdu_length'] = True
    r = Rmcp(slave_address=slave_address, max_retries=max_retries, quirks_cfg=q, keep_alive_interval=0)
    r._sock = FakeSock()
    r.host, r.port = 'bmc', 623
    return r


def make_target(rs_sa, routing=None):
    from pyipmi import Target
    t = Target(rs_sa)
    if routing:
        t.set_routing([tuple(h) for h in routing])
    return t


def _outcome(fn):
    """Run fn(); -> ('ok', bytes) | (exception tag,) in the vocabulary of Outcome.tag."""
    from pyipmi import errors
    try:
        return ('ok', bytes(bytearray(fn())))
    except errors.CompletionCodeError as e:
        return ('CompletionCodeError:%d' % e.cc,)
    except errors.RetryError:
        return ('RetryError',)
    except errors.IpmiTimeoutError:
        return ('IpmiTimeoutError',)
    except errors.DecodingError:
        return ('DecodingError',)
    except errors.EncodingError:
        return ('EncodingError',)
    except errors.NotSupportedError:
        return ('NotSupportedError',)
    except Exception as e:  # noqa
        return ('py:' + type(e).__name__,)


def rmcp_queue(iface):
    return [bytes(bytearray(x)) for x in list(iface._q.queue)]


def sock_events(evs):
    """the datagrams among `evs` (a period of silence leaves nothing in a socket)"""
    return [list(e) for e in evs if e[0] != 'T']


def run_rmcp(iface, req, events):
    """One request on a (possibly used) Rmcp object.  req = dict(rs_sa, netfn, lun, cmd,
    payload(hex), routing).  `events` is what the network delivers from the moment the request is
    sent; what EARLIER requests on this object did not read is still in the socket's receive queue
    (`arrived`) and is what a read sees first.  Returns what the property observes."""
    sock = iface._sock
    sock.arrived = sock.arrived + sock_events(sock.script)
    pre_sock = [list(e) for e in sock.arrived]
    sock.script = [list(e) for e in events]
    sock.sent = []
    sock.consumed = sock.taken = sock.drained = 0
    tgt = make_target(req['rs_sa'], req.get('routing'))
    raw = bytes([req['cmd']]) + bytes.fromhex(req.get('payload', ''))
    out = _outcome(lambda: iface.send_and_receive_raw(tgt, req['lun'], req['netfn'], raw))
    # what the blocking reads of this request were given, in order: (rest of) the old socket content, then arrivals
    seen = pre_sock[sock.drained:sock.drained + sock.taken] + [list(e) for e in events[:sock.consumed]]
    return {'out': out, 'tx': [rmcp_payload(p) for p in sock.sent], 'consumed': sock.taken + sock.consumed,
            'seq': iface.next_sequence_number, 'queue': rmcp_queue(iface), 'pre_sock': pre_sock,
            'drained': sock.drained, 'seen': seen, 'left': [list(e) for e in sock.arrived] + sock_events(sock.script),
            'timeout_after': sock.timeout}


# ------------------------------------------------------------------ RMCP: session operations as request sequences
def make_session(user='admin', password='secret'):
    """the application's Session object (one per interface object, as `Ipmi.session`)"""
    from pyipmi.session import Session
    s = Session()
    s.set_session_type_rmcp('bmc', 623)
    s.set_auth_type_user(user, password)
    return s


def _tag_of(e):
    def r():
        raise e
    return _outcome(r)


def run_rmcp_op(iface, session, step):
    """`establish_session(session)` / `close_session()` on a (possibly used) Rmcp object.  The requests such an
    operation makes are requests on the interface like any other: every call of `_send_and_receive` inside it is
    observed exactly as `run_rmcp` observes a plain request (state before, script of arrivals for THIS request =
    step['scripts'][k], bytes written, what was read, state after) - nothing is changed in what the code does.
    -> {'out': outcome of the operation, 'inner': [observation of request k, with 'req' = the request as made]}"""
    sock = iface._sock
    scripts = step.get('scripts') or []
    inner = []
    real = iface._send_and_receive            # the class's method, bound

    def observed(target, lun, netfn, cmdid, payload):
        k = len(inner)
        events = scripts[k] if k < len(scripts) else []
        sock.arrived = sock.arrived + sock_events(sock.script)
        pre_sock = [list(e) for e in sock.arrived]
        sock.script = [list(e) for e in events]
        sock.sent = []
        sock.consumed = sock.taken = sock.drained = 0
        req = {'rs_sa': target.ipmb_address, 'netfn': netfn, 'lun': lun, 'cmd': cmdid,
               'payload': bytes(bytearray(payload)).hex()}
        if target.routing:
            req['routing'] = [[h.rq_sa, h.rs_sa, h.channel] for h in target.routing]
        r = {'req': req, 'pre_seq': iface.next_sequence_number, 'pre_q': rmcp_queue(iface), 'pre_sock': pre_sock,
             'events': [list(e) for e in events]}
        inner.append(r)
        err = None
        try:
            v = real(target, lun, netfn, cmdid, payload)
            r['out'] = ('ok', bytes(bytearray(v)))
        except Exception as e:  # noqa
            err = e
            r['out'] = _tag_of(e)
        r.update({'tx': [rmcp_payload(p) for p in sock.sent], 'consumed': sock.taken + sock.consumed,
                  'seq': iface.next_sequence_number, 'queue': rmcp_queue(iface), 'drained': sock.drained,
                  'seen': pre_sock[sock.drained:sock.drained + sock.taken] + [list(e) for e in events[:sock.consumed]],
                  'left': [list(e) for e in sock.arrived] + sock_events(sock.script), 'timeout_after': sock.timeout})
        if err is not None:
            raise err
        return v

    import pyipmi.interfaces.rmcp as R
    saved = R.random.randrange
    # what has been delivered since the last request is in the socket when the operation starts
    sock.arrived = sock.arrived + sock_events(sock.script)
    sock.script = []
    sock.ping_mode = step.get('ping', 'pong')
    sock.pings = []
    iface._send_and_receive = observed
    R.random.randrange = lambda a, z: 0x01020304
    try:
        if 'establish' in step:
            e = step['establish']
            session._priv_level = e.get('priv', 4)

            def op():
                iface.establish_session(session)
                return b''
        else:
            def op():
                iface.close_session()
                return b''
        out = _outcome(op)
    finally:
        del iface._send_and_receive
        R.random.randrange = saved
        sock.ping_mode = 'pong'
    return {'out': out, 'inner': inner, 'pings': len(sock.pings)}


# ------------------------------------------------------------------ virtual time
class Clock(object):
    """time.time()/time.sleep() in ticks of 1/64 s."""

    def __init__(self):
        self.t = 0
        self.sleeps = []

    def time(self):
        return self.t / float(TICKS_PER_S)

    def sleep(self, s):
        self.sleeps.append(s)
        self.t += int(round(s * TICKS_PER_S))

    def wait(self, seconds):
        """A blocking call that waits its whole timeout."""
        n = int(round(seconds * TICKS_PER_S))
        self.t += max(n, 1)


class I2cScript(object):
    def __init__(self, clock):
        self.clock = clock
        self.script = []
        self.sent = []
        self.consumed = 0
        self.pending = None

    def poll(self, timeout_s):
        """-> True when a read will succeed/raise next; False = nothing arrived."""
        if not self.script:
            self.clock.wait(timeout_s)
            return False
        ev = self.script.pop(0)
        self.consumed += 1
        if ev[0] == 'I':
            self.clock.wait(timeout_s)
            return False
        self.clock.t += int(ev[1])
        self.pending = ev
        return True


# ------------------------------------------------------------------ ipmb-dev
class _FakeOs(object):
    O_RDWR = 2

    def __init__(self, s):
        self.s = s

    def open(self, path, flags):
        return 7

    def close(self, fd):
        pass

    def write(self, fd, data):
        self.s.sent.append(bytes(data))
        return len(data)

    def read(self, fd, n):
        ev, self.s.pending = self.s.pending, None
        if ev is None:
            raise BlockingIOError('read without readable fd')
        if ev[0] == 'E':
            raise OSError(5, 'Input/output error')
        f = bytes.fromhex(ev[2])
        if ev[0] == 'L':
            return bytes([(len(f) + 1) & 0xff]) + f
        return bytes([len(f) & 0xff]) + f


class _FakeSelect(object):
    def __init__(self, s):
        self.s = s

    def select(self, r, w, e, timeout=None):
        if self.s.poll(timeout):
            return (list(r), [], [])
        return ([], [], [])


class IpmbDevRig(object):
    """Real IpmbDev with os/select/time of its module substituted."""

    def __init__(self):
        import pyipmi.interfaces.ipmbdev as m
        self.m = m
        self.clock = Clock()
        self.s = I2cScript(self.clock)
        self.saved = (m.os, m.select, m.time)
        m.os, m.select, m.time = _FakeOs(self.s), _FakeSelect(self.s), self.clock
        self.iface = m.IpmbDev(slave_address=0x20)
        self.iface.open()

    def close(self):
        self.m.os, self.m.select, self.m.time = self.saved

    def tx_frames(self):
        out = []
        for d in self.s.sent:
            out.append(d[1:] if d and d[0] == len(d) - 1 else None)
        return out


# ------------------------------------------------------------------ Aardvark
class _FakeAardvarkDev(object):
    def __init__(self, s):
        self.s = s
        self.i2c_pullups = None
        self.target_power = None
        self.i2c_bitrate = None
        self.slave = None

    def enable_i2c_slave(self, addr):
        self.slave = addr

    def close(self):
        pass

    def i2c_master_write(self, addr, data):
        # what goes over the wire: address byte, then data
        self.s.sent.append(bytes([(addr << 1) & 0xff]) + bytes(bytearray(data)))

    def poll(self, timeout_ms):
        return [1] if self.s.poll(timeout_ms / 1000.0) else []

    def i2c_slave_read(self):
        ev, self.s.pending = self.s.pending, None
        if ev is None:
            raise IOError('read without event')
        if ev[0] == 'E':
            raise IOError(5, 'Input/output error')
        f = bytes.fromhex(ev[2])
        return (f[0] >> 1, f[1:])


class _FakePyAardvark(object):
    def __init__(self, s):
        self.s = s

    def open(self, port, serial_number=None):
        return _FakeAardvarkDev(self.s)


class AardvarkRig(object):
    def __init__(self):
        import pyipmi.interfaces.aardvark as m
        self.m = m
        self.clock = Clock()
        self.s = I2cScript(self.clock)
        self.saved = (m.pyaardvark, m.time)
        m.pyaardvark, m.time = _FakePyAardvark(self.s), self.clock
        self.iface = m.Aardvark(slave_address=0x20)
        self.iface.open()

    def close(self):
        self.m.pyaardvark, self.m.time = self.saved

    def tx_frames(self):
        return list(self.s.sent)


def run_i2c(rig, req, events, target=None):
    """One request on an IpmbDevRig / AardvarkRig (`target`: a ready-made Target object instead of
    Target(req['rs_sa'], routing=req.get('routing')))."""
    rig.s.script = [list(e) for e in events]
    rig.s.sent = []
    rig.s.consumed = 0
    rig.s.pending = None
    rig.clock.sleeps = []
    tgt = target if target is not None else make_target(req['rs_sa'], req.get('routing'))
    raw = bytes([req['cmd']]) + bytes.fromhex(req.get('payload', ''))
    out = _outcome(lambda: rig.iface.send_and_receive_raw(tgt, req['lun'], req['netfn'], raw))
    return {'out': out, 'tx': rig.tx_frames(), 'consumed': rig.s.consumed,
            'seq': rig.iface.next_sequence_number, 'sleeps': list(rig.clock.sleeps)}


def run_i2c_probe(rig, rs_sa, events, routing=None, target=None):
    """`is_ipmc_accessible(Target(rs_sa[, routing]))` on an IpmbDevRig / AardvarkRig: one request/response exchange."""
    rig.s.script = [list(e) for e in events]
    rig.s.sent = []
    rig.s.consumed = 0
    rig.s.pending = None
    rig.clock.sleeps = []
    tgt = target if target is not None else make_target(rs_sa, routing)

    def probe():
        r = rig.iface.is_ipmc_accessible(tgt)
        if r is not True:
            raise ValueError('is_ipmc_accessible returned %r' % (r,))
        return b''
    out = _outcome(probe)
    if out[0] == 'py:OSError' or out[0] == 'py:IOError':
        out = ('py:OSError',)
    return {'out': out, 'tx': rig.tx_frames(), 'consumed': rig.s.consumed,
            'seq': rig.iface.next_sequence_number, 'sleeps': list(rig.clock.sleeps)}
