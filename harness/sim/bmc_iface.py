"""Substituted interface for `pyipmi.Ipmi` (C07).

It stands where `interfaces/rmcp.py` / `aardvark.py` / `ipmbdev.py` stand: `send_and_receive(req)` runs
the REAL codec (`encode_message` / `create_message` / `decode_message`, the same four lines every
real interface has) and hands the request bytes `(netfn, lun, cmd, data)` to one instance of the
byte-level reference BMC that lives in the Lean driver (`req <inst> …`); the reply bytes come back
from there.  Nothing of the library's layouts is used on the BMC side.

Like a LAN interface it needs a session when `session_based` is set: requests sent before
`establish_session` was called on THIS interface are not answered (IPMI v2.0 6.12.8: a BMC drops
non-session requests outside an active session), which is reported as `IpmiTimeoutError`.
"""
from array import array

from ..lib import lean


class BmcInterface(object):
    NAME = 'verif-bmc'

    def __init__(self, drv, inst, session_based=False):
        self.drv = drv
        self.inst = inst
        self.session_based = session_based
        self.opened = 0
        self.sessions = []          # sessions established on this interface
        self.closed_sessions = 0
        self.log = []               # (netfn, lun, cmd, data hex, reply hex)

    # ---- what pyipmi.Ipmi / Session call --------------------------------------------
    def open(self):
        self.opened += 1

    def close(self):
        self.opened -= 1

    def establish_session(self, session):
        self.sessions.append(session)

    def close_session(self):
        self.closed_sessions += 1

    def is_ipmc_accessible(self, target):
        return True

    def _send_and_receive(self, target, lun, netfn, cmdid, payload):
        if self.session_based and not self.sessions:
            from pyipmi.errors import IpmiTimeoutError
            raise IpmiTimeoutError('no session on this interface')
        data = bytes(bytearray(payload))
        rsp = self.drv.ask('req %d %d %d %d %s' % (self.inst, netfn, lun, cmdid, lean.hexs(data)))
        self.log.append((netfn, lun, cmdid, lean.hexs(data), rsp))
        return array('B', lean.unhex(rsp))

    def send_and_receive_raw(self, target, lun, netfn, raw_bytes):
        return self._send_and_receive(target=target, lun=lun, netfn=netfn,
                                      cmdid=array('B', raw_bytes)[0], payload=raw_bytes[1:])

    def send_and_receive(self, req):
        from pyipmi.msgs import create_message, encode_message, decode_message
        rx_data = self._send_and_receive(target=req.target, lun=req.lun, netfn=req.netfn,
                                         cmdid=req.cmdid, payload=encode_message(req))
        rsp = create_message(req.netfn + 1, req.cmdid, req.group_extension)
        decode_message(rsp, rx_data)
        return rsp
