"""What the real `time.sleep` does with its ARGUMENT before it sleeps (CPython 3: a float, or an object with
__index__; NaN and negative durations raise ValueError, anything else TypeError, absurdly large OverflowError).

Every stand-in for `time.sleep` in the harness validates its argument with `duration()` first: a loop that
computes a negative wait (`0.1 * (4 - retry)` with retry = 5) dies in production with
ValueError('sleep length must be non-negative') after one request, and a recorder that accepts anything would
hide that.  Returns the duration in seconds as a float."""
import operator

_MAX_S = 9223372036.0          # 2**63 ns


def duration(s):
    if isinstance(s, float):
        f = s
    else:
        try:
            i = operator.index(s)
        except TypeError:
            raise TypeError("'%s' object cannot be interpreted as an integer" % type(s).__name__)
        if abs(i) > 2 ** 63:
            raise OverflowError('timestamp too large to convert to C _PyTime_t')
        f = float(i)
    if f != f:
        raise ValueError('Invalid value NaN (not a number)')
    if f < 0:
        raise ValueError('sleep length must be non-negative')
    if f > _MAX_S:
        raise OverflowError('timestamp out of range for platform time_t')
    return f
