"""Substituted interface, byte-level SDR device and scripted callables for C11 / C13.

Nothing here uses the library's own helpers to build a reply: every response is assembled
byte by byte from the IPMI v2.0 command tables (33.9 Get SDR Repository Info … 33.12 Get SDR,
35.3 / 35.4 Reserve / Get Device SDR, 31.9 Clear SEL, 33.13.. Clear SDR Repository).  The only library
code on the path is the message codec (`encode_message` / `decode_message`), which is the
subject of C01/C02.

`SdrDevice` is the Python twin of `lean/PyIpmi/Spec/SdrDevice.lean` (`handleBytes`); every run of
the C11 check replays each request trace through the Lean device and compares the answers byte
by byte, so the twin cannot drift unnoticed.

Device semantics (one `handle` call = one request, index `n` counts ALL requests from 0):
  1. the request is logged and `n` incremented;
  2. if `n` is in `cancels`, the reservations of BOTH stores become invalid (as after an SDR
     update) — before the request is looked at;
  3. if `n` has a transient code scheduled (0xC3 timeout / 0xCE response unavailable), that
     code is the whole answer (the request is not processed);
  4. Reserve (Device) SDR Repository: next id (1..0xFFFF, wrapping, never 0) of that store becomes
     its only valid reservation;
  5. Get (Device) SDR: unknown record -> 0xCB; reservation required (offset != 0, or always when
     `strict`) and not the valid one -> 0xC5; offset beyond the record -> 0xC9; count 0xFF = rest
     of record; offset+count beyond the record -> 0xC9; count > `limit` -> 0xCA; otherwise
     00 next_lo next_hi <exactly the requested bytes>.  Record id 0 addresses the first record.
"""
import contextlib

NETFN_SENSOR = 0x04
NETFN_STORAGE = 0x0A
CMD_RESERVE = 0x22          # both Reserve SDR Repository (storage) and Reserve Device SDR Repository (sensor)
CMD_GET_SDR = 0x23
CMD_GET_DEVICE_SDR = 0x21
CMD_RESERVE_SEL = 0x42
CMD_CLEAR_SEL = 0x47
CMD_CLEAR_SDR = 0x27

REPO, DEV = 'repo', 'dev'


def rec_id(rec):
    return rec[0] + 256 * rec[1]


def make_record(rid, rtype, payload, version=0x51):
    """SDR record = 5-byte header (id LE, version, type, payload length) + payload."""
    assert 0 <= len(payload) <= 255
    return bytes([rid & 0xFF, rid >> 8, version, rtype, len(payload)]) + bytes(payload)


class SdrDevice(object):
    def __init__(self, repo=(), dev=(), limit=255, strict=False, cancels=(), transients=(),
                 res0=(0, 0)):
        self.recs = {REPO: [bytes(r) for r in repo], DEV: [bytes(r) for r in dev]}
        self.limit = limit
        self.strict = strict
        self.cancels = set(cancels)
        self.transients = list(transients)        # first entry for an index wins
        self.res = {REPO: res0[0], DEV: res0[1]}
        self.valid = {REPO: False, DEV: False}
        self.n = 0
        self.log = []                             # (netfn, cmd, request bytes, response bytes)
        self.cfg_tokens_initial = self.cfg_tokens()   # configuration text of the initial state

    # ---- configuration <-> protocol text (shared with the Lean driver) -----------------
    def cfg_tokens(self):
        def recs(l):
            return ','.join(r.hex() for r in l) if l else '-'
        return ' '.join([
            recs(self.recs[REPO]), recs(self.recs[DEV]), str(self.limit), '1' if self.strict else '0',
            ','.join(str(c) for c in sorted(self.cancels)) or '-',
            ','.join('%d:%d' % (i, c) for i, c in self.transients) or '-',
            str(self.res[REPO]), str(self.res[DEV])])

    @staticmethod
    def _next_res(c):
        return 1 if c + 1 >= 0x10000 else c + 1

    def _lookup(self, store, rid):
        recs = self.recs[store]
        if rid == 0:
            idx = 0 if recs else None
        else:
            idx = next((i for i, r in enumerate(recs) if rec_id(r) == rid), None)
        if idx is None:
            return None
        nxt = rec_id(recs[idx + 1]) if idx + 1 < len(recs) else 0xFFFF
        return recs[idx], nxt

    def _get(self, store, data):
        res = data[0] + 256 * data[1]
        rid = data[2] + 256 * data[3]
        off, cnt = data[4], data[5]
        hit = self._lookup(store, rid)
        if hit is None:
            return bytes([0xCB])
        rec, nxt = hit
        if (self.strict or off != 0) and not (self.valid[store] and self.res[store] == res):
            return bytes([0xC5])
        if off > len(rec):
            return bytes([0xC9])
        if cnt == 0xFF:
            cnt = len(rec) - off
        if off + cnt > len(rec):
            return bytes([0xC9])
        if cnt > self.limit:
            return bytes([0xCA])
        return bytes([0x00, nxt & 0xFF, nxt >> 8]) + rec[off:off + cnt]

    def _answer(self, netfn, cmd, data):
        n = self.n
        self.n += 1
        if n in self.cancels:
            self.valid[REPO] = False
            self.valid[DEV] = False
        for i, c in self.transients:
            if i == n:
                return bytes([c])
        store = {NETFN_STORAGE: REPO, NETFN_SENSOR: DEV}.get(netfn)
        if store is not None and cmd == CMD_RESERVE:
            if len(data) != 0:
                return bytes([0xC7])
            self.res[store] = self._next_res(self.res[store])
            self.valid[store] = True
            return bytes([0x00, self.res[store] & 0xFF, self.res[store] >> 8])
        if (netfn, cmd) in ((NETFN_STORAGE, CMD_GET_SDR), (NETFN_SENSOR, CMD_GET_DEVICE_SDR)):
            if len(data) != 6:
                return bytes([0xC7])
            return self._get(store, data)
        return bytes([0xC1])

    def handle(self, netfn, cmd, data):
        data = bytes(data)
        rsp = self._answer(netfn, cmd, data)
        self.log.append((netfn, cmd, data, rsp))
        return rsp

    def trace_tokens(self):
        return ','.join('%d:%d:%s' % (nf, cmd, d.hex() or '-') for nf, cmd, d, _ in self.log) or '-'


class HangGuard(BaseException):
    """Raised by a substituted effect when the code under test exceeded any possible bound
    (BaseException so that no `except Exception` / `except CompletionCodeError` can swallow it)."""


class NeedMore(BaseException):
    """A scripted callable was asked for more outcomes than the script holds."""


class HandlerInterface(object):
    """pyipmi interface whose `send_and_receive` is answered by `handler(netfn, cmd, bytes)`.
    `handler` returns the response bytes (completion code first) or raises."""

    def __init__(self, handler, cap=100000):
        self.handler = handler
        self.calls = 0
        self.cap = cap

    def establish_session(self, session):
        pass

    def close_session(self):
        pass

    def open(self):
        pass

    def close(self):
        pass

    def is_ipmc_accessible(self, target):
        return True

    def send_and_receive(self, req):
        from pyipmi.msgs import encode_message, decode_message, create_message
        self.calls += 1
        if self.calls > self.cap:
            raise HangGuard('more than %d requests' % self.cap)
        data = bytes(bytearray(encode_message(req)))
        rsp_bytes = self.handler(req.netfn, req.cmdid, data)
        rsp = create_message(req.netfn + 1, req.cmdid, req.group_extension)
        decode_message(rsp, rsp_bytes)
        return rsp


def make_ipmi(handler, cap=100000):
    import pyipmi
    iface = HandlerInterface(handler, cap)
    ipmi = pyipmi.Ipmi(interface=iface)
    ipmi.target = None
    return ipmi, iface


class FakeTime(object):
    """Stands in for the `time` module inside pyipmi.helper: sleeping costs nothing, is recorded - but the ARGUMENT is
    treated as the real time.sleep treats it (sim/realsleep.py): a negative / NaN duration raises ValueError, a
    non-number TypeError, and the rejected call is remembered in `rejected` (repr of the argument, exception name)."""

    def __init__(self):
        self.sleeps = []
        self.rejected = []
        self.now = 0.0

    def sleep(self, s):
        from . import realsleep
        try:
            d = realsleep.duration(s)
        except Exception as e:  # noqa
            self.rejected.append((repr(s), type(e).__name__, str(e)))
            raise
        self.sleeps.append(d)
        self.now += d

    def time(self):
        return self.now


@contextlib.contextmanager
def no_sleep():
    import pyipmi.helper as helper
    import pyipmi
    fake = FakeTime()
    saved = helper.time
    saved_pkg = getattr(pyipmi, 'time', None)
    helper.time = fake
    if saved_pkg is not None:
        pyipmi.time = fake
    try:
        yield fake
    finally:
        helper.time = saved
        if saved_pkg is not None:
            pyipmi.time = saved_pkg


def outcome_of(fn):
    """Run `fn()`; canonical outcome tag shared with the Lean `Outcome.tag` (+ value on success)."""
    from pyipmi import errors
    try:
        return ('ok', fn())
    except errors.CompletionCodeError as e:
        return ('CompletionCodeError:%d' % e.cc, None)
    except errors.RetryError:
        return ('RetryError', None)
    except errors.DecodingError:
        return ('DecodingError', None)
    except errors.EncodingError:
        return ('EncodingError', None)
    except errors.IpmiTimeoutError:
        return ('IpmiTimeoutError', None)
    except HangGuard:
        return ('py:Hang', None)
    except NeedMore:
        raise
    except Exception as e:  # noqa
        return ('py:' + type(e).__name__, None)
