"""C08: a scripted fake interface with completion-code fault injection.

`Bmc` is a *stateless* responder: the OK answer to a request is a function of the request
bytes only (never of the position in the exchange), so that a retried / re-issued / adapted
request is answered consistently -- this is the `base : Req -> Rsp` of
lean/PyIpmi/Spec/FaultDevice.lean.  Answers are built here, byte by byte:

* generic: completion code 0, then for every field of the response layout (widths from the live
  registry snapshot, values never through the library's encoder) a small deterministic
  NON-default value of the right width, so that "default-initialised fields presented as
  data" is observable as a difference;
* specific (from the IPMI / PICMG / HPM.1 / FRU-storage documents) for the commands whose
  answer must depend on the request for the operation to make sense: FRU inventory reads and
  writes, SDR / SEL record reads by (record, offset, length), HPM component properties,
  boot options, LAN parameters, ...

`FaultInterface` mirrors what every native interface does in `send_and_receive`
(encode request -> exchange -> create response of netfn+1 -> decode) and answers request
number k with completion code c (one byte, or code + the OK payload) when told so.
"""
from array import array

from ..translate import registry as _reg


class LoopGuard(BaseException):
    """More requests than any sane operation issues: reported as a hang (BaseException so
    that no `except Exception` of the code under test can swallow it)."""


# --------------------------------------------------------------------------------------
# generic OK payloads from the layout
# --------------------------------------------------------------------------------------

def _uint_bytes(i, n):
    """n little-endian bytes, all non-zero and distinct per field index."""
    return [((i * 7 + 3 + 0x10 * k) % 0xf9) + 1 for k in range(n)]


def _bits_value(i, widths, names):
    val, off = 0, 0
    for j, (w, nm) in enumerate(zip(widths, names)):
        top = (1 << w) - 1
        v = 0 if nm.startswith('reserved') else ((i + j) % top) + 1
        val |= (v & top) << off
        off += w
    return val


def generic_payload(fields, short=False):
    """Bytes of an OK response for `fields` ([FieldInfo]); `short` = the shortest legal
    answer (optional fields absent, variable tails empty)."""
    out = []
    env = []                       # canonical values so far (for Conditional predicates)
    for i, f in enumerate(fields):
        p = f.prim
        if f.wrap == 'optional' and short:
            env.append(('none',))
            continue
        if f.wrap == 'cond':
            from .. import codec_common as cc
            if not cc.eval_cond(f.cond, env):
                env.append(('none',))
                continue
        if p[0] == 'cc':
            out.append(0)
            env.append(('int', 0))
        elif p[0] == 'uint':
            b = _uint_bytes(i, p[1])
            out += b
            env.append(('int', sum(x << (8 * k) for k, x in enumerate(b))))
        elif p[0] == 'bytes':
            b = [(0x21 + i + k) & 0xff for k in range(p[1])]
            out += b
            env.append(('arr', bytes(b)))
        elif p[0] == 'str':
            b = [0x41 + ((i + k) % 26) for k in range(p[1])]
            out += b
            env.append(('arr', bytes(b)))
        elif p[0] == 'varBytes':
            n = env[p[1]][1]
            b = [(0x31 + k) & 0xff for k in range(n)]
            out += b
            env.append(('arr', bytes(b)))
        elif p[0] == 'remaining':
            b = [] if short else [0x12, 0x25, 0x31, 0x44, 0x57, 0x63]
            out += b
            env.append(('arr', bytes(b)))
        elif p[0] == 'bits':
            v = _bits_value(i, p[2], p[3])
            out += [(v >> (8 * k)) & 0xff for k in range(p[1])]
            vals, off = [], 0
            for w in p[2]:
                vals.append((v >> off) & ((1 << w) - 1))
                off += w
            env.append(('bits', vals))
        else:
            raise ValueError('field kind %r' % (p,))
    return out


# --------------------------------------------------------------------------------------
# storage images, written from the specifications
# --------------------------------------------------------------------------------------

def _tl_ascii(s):
    b = s.encode('ascii')
    return [0xC0 | len(b)] + list(b)


def _area(body):
    """FRU info area: [ver, len/8, body..., pad, checksum] (Platform Mgmt FRU spec §10-12)."""
    raw = [0x01, 0] + body + [0xC1]
    while (len(raw) + 1) % 8:
        raw.append(0)
    raw[1] = (len(raw) + 1) // 8
    raw.append((-sum(raw)) & 0xff)
    return raw


def fru_image(tag='A'):
    chassis = _area([0x17] + _tl_ascii('CH-%s-001' % tag) + _tl_ascii('SN%s42' % tag))
    board = _area([0x19, 0x10, 0x20, 0x30] + _tl_ascii('Kontron') + _tl_ascii('Board%s' % tag) +
                  _tl_ascii('B%s1234' % tag) + _tl_ascii('PN-77') + _tl_ascii('fid'))
    product = _area([0x19] + _tl_ascii('ACME') + _tl_ascii('Prod%s' % tag) + _tl_ascii('P-1') +
                    _tl_ascii('v2') + _tl_ascii('S%s9' % tag) + _tl_ascii('tag') + _tl_ascii('f'))

    def mrec(type_id, payload, last):
        hdr = [type_id, 0x02 | (0x80 if last else 0), len(payload), (-sum(payload)) & 0xff]
        hdr.append((-sum(hdr)) & 0xff)
        return hdr + payload
    multi = mrec(0x02, [1, 2, 3, 4, 5, 6, 7], False) + \
        mrec(0xC0, [0x5A, 0x31, 0x00, 0x27, 0x00, 0x64, 0x00, 9, 9], True)
    offs, pos = [], 8
    for a in (chassis, board, product):
        offs.append(pos // 8)
        pos += len(a)
    hdr = [0x01, 0x00, offs[0], offs[1], offs[2], pos // 8, 0x00]
    hdr.append((-sum(hdr)) & 0xff)
    img = hdr + chassis + board + product + multi
    while len(img) % 8:
        img.append(0)
    return img


def sdr_records():
    """Two SDRs: a type 12h (management controller device locator) and a type C0h (OEM)."""
    idstr = b'MgmtCtrl-C08-xyz'
    body1 = [0x20 << 1, 0x00, 0x00, 0xBF, 0, 0, 0, 0x03, 0x01, 0x00, 0xC0 | len(idstr)] + list(idstr)
    r1 = [0x01, 0x00, 0x51, 0x12, len(body1)] + body1
    body2 = [0x5A, 0x31, 0x00] + [0x40 + k for k in range(27)]
    r2 = [0x02, 0x00, 0x51, 0xC0, len(body2)] + body2
    return [(1, r1), (2, r2)]


def sel_records():
    def rec(rid, ts, num, ed):
        return [rid & 0xff, rid >> 8, 0x02] + [(ts >> (8 * k)) & 0xff for k in range(4)] + \
            [0x20, 0x00, 0x04, 0x01, num, 0x01] + ed
    return [(1, rec(1, 0x5f000001, 0x30, [0x57, 0x10, 0x20])),
            (2, rec(2, 0x5f000077, 0x31, [0x52, 0x11, 0x21]))]


def hpm_image_bytes(device_id, manufacturer_id, product_id, components=0x02, fw=None):
    """An HPM.1 upgrade image (header, one prepare action, one upload action, MD5 trailer)
    written from HPM.1 §4 tables 4-1 .. 4-6."""
    import hashlib
    fw = bytes(fw if fw is not None else bytearray((7 * k + 1) & 0xff for k in range(50)))
    hdr = list(b'PICMGFWU') + [0x00, device_id]
    hdr += [manufacturer_id & 0xff, (manufacturer_id >> 8) & 0xff, (manufacturer_id >> 16) & 0xff]
    hdr += [product_id & 0xff, product_id >> 8]
    hdr += [0x01, 0x02, 0x03, 0x04]            # time
    hdr += [0x00]                              # image capabilities
    hdr += [components]                        # components
    hdr += [0x01, 0x01, 0x01]                  # selftest / rollback / inaccessibility timeouts (x5 s)
    hdr += [0x01, 0x00]                        # earliest compatible revision
    hdr += [0x01, 0x02, 0, 0, 0, 0]            # firmware revision
    hdr += [0x00, 0x00]                        # OEM data length
    hdr.append((-sum(hdr)) & 0xff)

    def action(kind, extra=b''):
        a = [kind, components]
        a.append((-sum(a)) & 0xff)
        return a + list(extra)
    desc = b'C08 test firmware'.ljust(21, b'\0')
    upload = bytes([0x01, 0x03, 0, 0, 0, 0]) + desc + \
        bytes([(len(fw) >> (8 * k)) & 0xff for k in range(4)]) + fw
    body = bytes(hdr) + bytes(action(0x01)) + bytes(action(0x02, upload))
    return body + hashlib.md5(body).digest()


# --------------------------------------------------------------------------------------
# the stateless responder
# --------------------------------------------------------------------------------------

_LAYOUTS = None


def _layouts():
    """(name -> layout info, (netfn, cmd) -> [request infos]) from the live registry, once per process."""
    global _LAYOUTS
    if _LAYOUTS is None:
        by_name, by_id = {}, {}
        for cls, info in _reg.snapshot():
            by_name[info['name']] = info
            if info['name'].endswith('Req'):
                by_id.setdefault((info['netfn'], info['cmd']), []).append(info)
        _LAYOUTS = (by_name, by_id)
    return _LAYOUTS


class Bmc(object):
    """OK answers as a function of (request class name, request payload bytes)."""

    def __init__(self, variant='default'):
        self.variant = variant          # 'default' | 'short' | 'busyhpm' | 'failhpm'
        self.fru = fru_image()
        self.sdrs = sdr_records()
        self.sels = sel_records()
        self._layouts, self._by_id = _layouts()

    # ---- storage reads ----------------------------------------------------------------
    def _record(self, table, rid):
        if rid == 0:
            rid = table[0][0]
        for i, (r, data) in enumerate(table):
            if r == rid:
                nxt = table[i + 1][0] if i + 1 < len(table) else 0xffff
                return nxt, data
        return None

    def _read_record(self, table, p):
        rid, off, n = p[2] | p[3] << 8, p[4], p[5]
        hit = self._record(table, rid)
        if hit is None:
            return [0xCB]
        nxt, data = hit
        chunk = data[off:] if n == 0xff else data[off:off + n]
        return [0x00, nxt & 0xff, nxt >> 8] + chunk

    def answer(self, name, payload):
        """name: request class name without 'Req'; payload: request data bytes -> response bytes."""
        p = list(bytearray(payload))
        short = self.variant == 'short'
        h = getattr(self, '_a_' + name, None)
        if h is not None and not short:
            r = h(p)
            if r is not None:
                return r
        info = self._layouts.get(name + 'Rsp')
        if info is None or info['malformed']:
            return [0x00]
        return generic_payload(info['fields'], short=short)

    # FRU inventory device commands (IPMI v2.0 §34)
    def _a_GetFruInventoryAreaInfo(self, p):
        return [0x00, len(self.fru) & 0xff, len(self.fru) >> 8, 0x00]

    def _a_ReadFruData(self, p):
        off, n = p[1] | p[2] << 8, p[3]
        if off >= len(self.fru):
            return [0xC9]
        d = self.fru[off:off + n]
        return [0x00, len(d)] + d

    def _a_WriteFruData(self, p):
        return [0x00, len(p) - 3]

    # SDR / SEL (IPMI v2.0 §33, §35, §31)
    def _a_GetSdr(self, p):
        return self._read_record(self.sdrs, p)

    def _a_GetDeviceSdr(self, p):
        return self._read_record(self.sdrs, p)

    def _a_GetSelEntry(self, p):
        return self._read_record(self.sels, p)

    def _a_GetSelInfo(self, p):
        n = len(self.sels)
        return [0x00, 0x51, n & 0xff, n >> 8, 0x40, 0x01, 1, 2, 3, 4, 5, 6, 7, 8, 0x0f]

    def _a_DeleteSelEntry(self, p):
        return [0x00, p[2], p[3]]

    def _a_DeleteSdr(self, p):
        return [0x00, p[2], p[3]]

    def _a_GetSensorReading(self, p):
        return [0x00, 0x5a, 0xC0, 0x81, 0x82]

    # chassis / LAN
    def _a_GetSystemBootOptions(self, p):
        return [0x00, 0x01, p[0] & 0x7f, 0xE0, 0x01 << 2, 0x00, 0x00, 0x00]

    def _a_GetLanConfigurationParameters(self, p):
        sel = p[1] if len(p) > 1 else 0
        data = {3: [10, 1, 2, 77], 4: [0x02], 5: [0x00, 0x1b, 0x21, 0xaa, 0xbb, 0xcc],
                20: [0x8a, 0x81]}.get(sel, [0x23, 0x45])
        return [0x00, 0x11] + data

    # HPM.1 (§3)
    def _a_GetTargetUpgradeCapabilities(self, p):
        return [0x00, 0x00, 0x00, 0x6f, 0x05, 0x05, 0x05, 0x05, 0x06]

    def _a_GetComponentProperties(self, p):
        sel = p[2]
        data = {0: [0x2d], 1: [0x01, 0x23, 1, 2, 3, 4], 2: list(b'boot-c08\0\0\0\0'),
                3: [0x01, 0x12, 4, 3, 2, 1], 4: [0x02, 0x01, 9, 9, 9, 9]}.get(sel)
        if data is None:
            return [0x83]
        return [0x00, 0x00] + data

    def _a_GetUpgradeStatus(self, p):
        # HPM.1 Get upgrade status: PICMG id, command in progress, LAST COMPLETION CODE of the long duration
        # command (80h while it executes, then its final code: 00h success, anything else failure), estimate.
        # default: ended with 00h | busyhpm: 80h for as long as anyone polls | failhpm: ended with 82h
        last = {'busyhpm': 0x80, 'failhpm': 0x82}.get(self.variant, 0x00)
        return [0x00, 0x00, 0x31, last, 0x32]

    # raw path ------------------------------------------------------------------------
    def answer_raw(self, netfn, raw):
        raw = list(bytearray(raw))
        cands = self._by_id.get((netfn, raw[0] if raw else -1), [])
        for info in cands:
            if info['group'] is None or (len(raw) > 1 and raw[1] == info['group']):
                return self.answer(info['name'][:-3], raw[1:])
        return [0xC1]


class Clock(object):
    """Virtual `time` module for the modules that poll (pyipmi, pyipmi.helper, pyipmi.hpm)."""

    def __init__(self, tick=0.26):
        self.now = 1000.0
        self.tick = tick
        self.sleeps = 0

    def time(self):
        self.now += self.tick
        return self.now

    def sleep(self, s):
        from . import realsleep
        d = realsleep.duration(s)       # raises as the real time.sleep does for a negative / NaN / non-number duration
        self.sleeps += 1
        self.now += d


class FaultInterface(object):
    """Drop-in for `Ipmi.interface`.  `faults`: {request index: (code, with_tail)}."""

    MAX_REQUESTS = 600

    def __init__(self, bmc, faults=None):
        self.bmc = bmc
        self.faults = dict(faults or {})
        self.trace = []            # (name, request hex, answered code)
        self.n = 0

    # -- what every native interface offers ------------------------------------------
    def open(self):
        pass

    def close(self):
        pass

    def establish_session(self, session):
        pass

    def close_session(self):
        pass

    def is_ipmc_accessible(self, target):
        return True

    def _exchange(self, name, payload, ok_fn):
        k = self.n
        self.n += 1
        if self.n > self.MAX_REQUESTS:
            raise LoopGuard('more than %d requests' % self.MAX_REQUESTS)
        f = self.faults.get(k)
        if f is None:
            rx = ok_fn()
        else:
            code, tail = f
            rx = [code] + (list(ok_fn())[1:] if tail else [])
        self.trace.append((name, bytes(bytearray(payload)).hex(), rx[0] if rx else None))
        return array('B', rx)

    def send_and_receive(self, req):
        from pyipmi.msgs.message import encode_message, decode_message
        from pyipmi.msgs.registry import create_message
        payload = encode_message(req)
        name = type(req).__name__
        name = name[:-3] if name.endswith('Req') else name
        rx = self._exchange(name, payload, lambda: self.bmc.answer(name, payload))
        rsp = create_message(req.netfn + 1, req.cmdid, req.group_extension)
        decode_message(rsp, rx)
        return rsp

    def send_and_receive_raw(self, target, lun, netfn, raw_bytes):
        raw = bytes(bytearray(raw_bytes))
        rx = self._exchange('raw:%02x' % netfn, raw, lambda: self.bmc.answer_raw(netfn, raw))
        return rx.tobytes()
