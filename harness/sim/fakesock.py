"""A fake UDP socket for `Rmcp._sock`.

Generic on purpose: it records every datagram handed to `sendto` and plays what `recvfrom`
returns either from a fixed script or from a `responder` callback that is shown each sent
datagram (so that a reference peer — e.g. the Lean BMC in a driver — can answer it).

    sock = FakeSock(script=[b'...', TIMEOUT, b'...'])
    sock = FakeSock(responder=lambda datagram: [reply_bytes] or [] or [TIMEOUT])
    rmcp._sock = sock

Events: `bytes` (a datagram delivered to the next `recvfrom`), `TIMEOUT` (that `recvfrom`
raises `socket.timeout`), or an exception instance (raised as is).  An empty queue means
silence: `recvfrom` raises `socket.timeout`, exactly like a real socket with a time-out set.
"""
import socket
from collections import deque

TIMEOUT = object()


class FakeSock(object):
    def __init__(self, script=None, responder=None, addr=('192.0.2.1', 623)):
        self.sent = []          # datagrams passed to sendto, in order
        self.to = []            # their destination addresses
        self.log = []           # ('tx', bytes) | ('rx', bytes) | ('timeout',)
        self.queue = deque(script or [])
        self.responder = responder
        self.addr = addr
        self.timeout = None
        self.closed = False

    # --- the part of the socket API that pyipmi.interfaces.rmcp uses
    def settimeout(self, t):
        self.timeout = t

    def gettimeout(self):
        return self.timeout

    def sendto(self, data, addr):
        data = bytes(data)
        self.sent.append(data)
        self.to.append(addr)
        self.log.append(('tx', data))
        if self.responder is not None:
            for ev in self.responder(data) or []:
                self.queue.append(ev)
        return len(data)

    def recvfrom(self, bufsize):
        if self.timeout == 0:
            # non-blocking read (Rmcp._drain_socket, fixes/C04-3.diff, discards what an EARLIER request left in the
            # socket before a request is sent): the scripted events are what arrives AFTER the request, so there is
            # nothing to discard - nothing is consumed, nothing is logged
            raise BlockingIOError(11, 'Resource temporarily unavailable')
        if not self.queue:
            self.log.append(('timeout',))
            raise socket.timeout('timed out')
        ev = self.queue.popleft()
        if ev is TIMEOUT:
            self.log.append(('timeout',))
            raise socket.timeout('timed out')
        if isinstance(ev, BaseException):
            raise ev
        ev = bytes(ev)
        self.log.append(('rx', ev))
        return (ev[:bufsize], self.addr)

    def close(self):
        self.closed = True

    # --- helpers for harnesses
    def push(self, *events):
        self.queue.extend(events)

    def take_sent(self):
        out, self.sent = self.sent, []
        return out
