"""Byte-level BMC stub + substituted interface for C20.

`Bmc20.handle(lun, netfn, data)` answers a request (data = command byte + request data) with
`completion code + response data`, built from the IPMI v2.0 / PICMG 3.0 / MTCA.0 / HPM.1 tables
(not with the library's message classes).  Commands outside the implemented set are answered
with C1h (invalid command) — which is what a conforming controller without that function does.

Personalities: `minimal` (IPM device global commands and chassis only), `plain` (every command below, two
linear sensors, every configured channel has a link), `sdrtypes` (plain + one SDR of every record type of
IPMI v2.0 ch. 43, most of which carry no ID string / no entity), `nonlinear` (plain + full sensors whose
linearisation is 1/x, ln, log10 - with a raw reading of 0 or unused threshold bytes of 0 - sqrt, x^2, e^x - and
two really non-linear sensors, linearisation 70h "non-linear" and 7Fh "non-linear, OEM defined" (table 43-1 byte
24), whose readings and thresholds are ordinary non-zero bytes),
`unavailable` (plain + a threshold and a discrete sensor that flag "reading/state unavailable", table 35-15
byte 3 bit 5, as a sensor does during its initial update or right after a re-arm),
`full` (everything: both SDR sets, a base channel without link, the HPM.1 upgrade commands; the upgrade agent has
two components, the description string of the second one - HPM.1 table 3-5, 12 bytes of ASCII / Latin-1 text - is
`fw` + backslash + `update`: a backslash is an ordinary character),
`luns` (plain + full and compact sensor records whose sensor owner LUN - table 43-1 / 43-2 byte 7 [1:0] - is 0, 1
and 3: two full and two compact sensors that share their NUMBER and differ in LUN and reading, a full and a
compact sensor whose number exists on LUN 3 only; Get Sensor Reading is answered per (responder LUN, number),
CBh for a pair that names no sensor; every other command is implemented on LUN 0 only).  A conforming
controller may be any of them.

Faults (`faults`: request index -> fault): ('cc', code), ('timeout',) = IpmiTimeoutError, ('exc', name) = the
interface raises that exception (a class of pyipmi.errors, or 'socket.timeout') as the library's real
interfaces do (RMCP: socket.timeout / RetryError, ipmitool back-end: IpmiConnectionError ...).  Index -1 is
the session set-up (`establish_session`), index -2 the session tear-down (`close_session`).

`Iface20` is what `pyipmi.interfaces.create_interface` is replaced with: it records how it was
created, the session it was asked to establish, and every request with the target it was
addressed to; it encodes/decodes exactly like the library's own byte-level interfaces do
(`cmd + encode_message(req)` → bytes → `decode_message`).
"""
import struct


def _cksum(b):
    return (-sum(b)) & 0xff


def _tl(s):
    """FRU type/length byte + 8-bit ASCII/Latin-1 string"""
    b = s.encode('latin-1')
    return bytes([0xC0 | len(b)]) + b


def fru_image():
    board = bytes([0x01, 0x00, 0x00]) + bytes([0x10, 0x20, 0x30])
    board += _tl('ACME') + _tl('Board-20') + _tl('SN0020') + _tl('PN-20') + _tl('fru20')
    board += bytes([0xC1])
    total = len(board) + 1
    pad = (-total) % 8
    board += bytes(pad)
    board = bytearray(board)
    board[1] = (len(board) + 1) // 8
    board = bytes(board) + bytes([_cksum(board)])
    hdr = bytes([0x01, 0x00, 0x00, 0x01, 0x00, 0x00, 0x00])
    hdr += bytes([_cksum(hdr)])
    return hdr + board


def sdr_full(rid, number, name, lun=0):
    body = bytes([
        0x20, lun & 0x03, number,  # owner id, owner lun (byte 7 [1:0]), sensor number
        0x03, 0x01,               # entity id (processor), instance
        0x7f, 0x68,               # initialization, capabilities
        0x01, 0x01,               # sensor type temperature, event/reading type threshold
        0x00, 0x00, 0x00, 0x00, 0x3f, 0x3f,   # masks
        0x00, 0x01, 0x00,         # units: unsigned, degrees C, no modifier
        0x00,                     # linear
        0x02, 0x00,               # M = 2, tolerance 0
        0x03, 0x00,               # B = 3, accuracy 0
        0x00,                     # accuracy exp, direction
        0x00,                     # R exp 0, B exp 0
        0x07,                     # analog flags
        0x32, 0x50, 0x0a,         # nominal, normal max, normal min
        0xff, 0x00,               # sensor max, min
        0x64, 0x5a, 0x50,         # unr, ucr, unc
        0x02, 0x05, 0x0a,         # lnr, lcr, lnc
        0x01, 0x01,               # hysteresis
        0x00, 0x00, 0x00,         # reserved, reserved, oem
    ]) + _tl(name)
    return struct.pack('<HBBB', rid, 0x51, 0x01, len(body)) + body


def sdr_compact(rid, number, name, lun=0):
    body = bytes([
        0x20, lun & 0x03, number,
        0x07, 0x01,
        0x67, 0x40,
        0x07, 0x6f,               # sensor type processor, sensor-specific discrete
        0x80, 0x00, 0x80, 0x00, 0x80, 0x00,
        0xc0, 0x00, 0x00,         # units
        0x00, 0x00,               # record sharing
        0x00, 0x00,               # hysteresis
        0x00, 0x00, 0x00,         # reserved
        0x00,                     # oem
    ]) + _tl(name)
    return struct.pack('<HBBB', rid, 0x51, 0x02, len(body)) + body


def _sdr(rid, rtype, body):
    return struct.pack('<HBBB', rid, 0x51, rtype, len(body)) + bytes(body)


def sdr_full_lin(rid, number, name, lin, m, b=0, signed=False, thresholds=(0x64, 0x5a, 0x50, 0x02, 0x05, 0x0a),
                 readable=0x3f):
    """Full sensor record (table 43-1) with linearisation `lin` (byte 24) and factors M, B (K1 = K2 = 0)."""
    body = bytes([
        0x20, 0x00, number,
        0x1d, 0x01,               # entity id (fan device), instance
        0x7f, 0x68,
        0x04, 0x01,               # sensor type fan, threshold
        0x00, 0x00, 0x00, 0x00, readable, readable,   # assertion / deassertion masks, readable+settable thresholds
        0x80 if signed else 0x00, 0x12, 0x00,   # units: analog data format, RPM, no modifier
        lin & 0x7f,
        m & 0xff, (m >> 2) & 0xc0,
        b & 0xff, (b >> 2) & 0xc0,
        0x00, 0x00,
        0x00,
        0x00, 0x00, 0x00,
        0xff, 0x00,
    ]) + bytes(thresholds) + bytes([0x00, 0x00, 0x00, 0x00, 0x00]) + _tl(name)
    return _sdr(rid, 0x01, body)


def sdr_event_only(rid, number, name):       # table 43-3
    return _sdr(rid, 0x03, bytes([0x20, 0x00, number, 0x07, 0x01, 0x07, 0x6f, 0x00, 0x00, 0x00, 0x00]) + _tl(name))


def sdr_entity_association(rid):             # table 43-4: container entity, flags, four contained entities
    return _sdr(rid, 0x08, bytes([0x07, 0x01, 0x00, 0x03, 0x01, 0x03, 0x02, 0x00, 0x00, 0x00, 0x00]))


def sdr_device_relative_ea(rid):             # table 43-5
    return _sdr(rid, 0x09, bytes([0x07, 0x01, 0x20, 0x00, 0x00] + [0x20, 0x00, 0x03, 0x01] + [0x00] * 12 + [0x00] * 6))


def sdr_generic_locator(rid, name):          # table 43-7
    return _sdr(rid, 0x10, bytes([0x20, 0xa0, 0x00, 0x00, 0x00, 0x08, 0x00, 0x07, 0x01, 0x00]) + _tl(name))


def sdr_fru_locator(rid, name):              # table 43-8
    return _sdr(rid, 0x11, bytes([0x20, 0x01, 0x80, 0x00, 0x00, 0x10, 0x00, 0x07, 0x01, 0x00]) + _tl(name))


def sdr_mc_locator(rid, name):               # table 43-9
    return _sdr(rid, 0x12, bytes([0x82, 0x00, 0x00, 0xbf, 0x00, 0x00, 0x00, 0x07, 0x02, 0x00]) + _tl(name))


def sdr_mc_confirmation(rid):                # table 43-10
    return _sdr(rid, 0x13, bytes([0x82, 0x20, 0x01, 0x02, 0x34, 0x02, 0xa2, 0x3a, 0x00, 0x34, 0x12]) + bytes(range(16)))


def sdr_bmc_channel_info(rid):               # table 43-11
    return _sdr(rid, 0x14, bytes([0x11, 0x02, 0x00, 0x00, 0x00, 0x00, 0x00, 0x00, 0xff, 0xff, 0x00]))


def sdr_oem(rid):                            # table 43-12: manufacturer id + OEM data
    return _sdr(rid, 0xc0, bytes([0xa2, 0x3a, 0x00, 0xde, 0xad, 0xbe, 0xef]))


def sdrs_of_every_type(first_id):
    """(records, sensor readings) - every record type; the sensors among them are linear"""
    r = first_id
    return [sdr_entity_association(r), sdr_event_only(r + 1, 0x32, 'CPU Event'), sdr_device_relative_ea(r + 2),
            sdr_generic_locator(r + 3, 'EEPROM'), sdr_fru_locator(r + 4, 'FRU1'), sdr_mc_locator(r + 5, 'MMC'),
            sdr_mc_confirmation(r + 6), sdr_bmc_channel_info(r + 7), sdr_oem(r + 8),
            sdr_full(r + 9, 0x33, 'Inlet Temp')], {0x33: [0x00, 0x20, 0xc0, 0x00]}


# linearisation codes of table 43-1 byte 24
LIN_LN, LIN_LOG10, LIN_EXP, LIN_1_X, LIN_SQR, LIN_SQRT = 1, 2, 4, 7, 8, 10
# "70h = non-linear, 71h-7Fh = non-linear, OEM defined": no formula; the factors of such a sensor hold for one
# reading only (Get Sensor Reading Factors, IPMI v2.0 35.5)
LIN_NONLINEAR, LIN_NONLINEAR_OEM_LAST = 0x70, 0x7f


def sdrs_nonlinear(first_id):
    """(records, sensor readings): conforming full sensors with a non-linear conversion.  Raw 0 is an ordinary
    reading (and the content of every threshold byte the sensor does not support)."""
    r = first_id
    none = (0, 0, 0, 0, 0, 0)
    recs = [
        sdr_full_lin(r, 0x40, 'Fan1 period', LIN_1_X, 1),                                    # reading 0
        sdr_full_lin(r + 1, 0x41, 'Fan2 period', LIN_1_X, 1, thresholds=none, readable=0),   # reading ok, no thresholds
        sdr_full_lin(r + 2, 0x42, 'Light ln', LIN_LN, 1, thresholds=none, readable=0),       # reading ok, no thresholds
        sdr_full_lin(r + 3, 0x43, 'Sound log', LIN_LOG10, 1),                                # reading 0
        sdr_full_lin(r + 4, 0x44, 'Flow sqrt', LIN_SQRT, 1),
        sdr_full_lin(r + 5, 0x45, 'Power sqr', LIN_SQR, 2, b=1, signed=True),
        sdr_full_lin(r + 6, 0x46, 'Gain exp', LIN_EXP, 1, thresholds=(5, 4, 3, 0, 1, 2)),
        # really non-linear sensors: nothing is wrong with their reading (0x5a / 0x21) or thresholds
        sdr_full_lin(r + 7, 0x47, 'Thermistor', LIN_NONLINEAR, 1),
        sdr_full_lin(r + 8, 0x48, 'OEM curve', LIN_NONLINEAR_OEM_LAST, 3, b=2, thresholds=(0x70, 0x60, 0x50, 0x10, 0x20, 0x30)),
        sdr_full_lin(r + 9, 0x49, 'Fan3 speed', 0, 4),          # a linear sensor AFTER them: the listing must get here
    ]
    readings = {0x40: [0x00, 0x00, 0xc0, 0x00], 0x41: [0x00, 0x64, 0xc0, 0x00], 0x42: [0x00, 0x10, 0xc0, 0x00],
                0x43: [0x00, 0x00, 0xc0, 0x00], 0x44: [0x00, 0x09, 0xc0, 0x00], 0x45: [0x00, 0xfe, 0xc0, 0x00],
                0x46: [0x00, 0x01, 0xc0, 0x00], 0x47: [0x00, 0x5a, 0xc0, 0x00], 0x48: [0x00, 0x21, 0xc0, 0x00],
                0x49: [0x00, 0x30, 0xc0, 0x00]}
    return recs, readings


def sdrs_unavailable(first_id):
    """(records, sensor readings): a full and a compact sensor whose Get Sensor Reading reply flags
    "reading/state unavailable" (byte 3 bit 5): the reading and state bytes are then not valid"""
    r = first_id
    return ([sdr_full(r, 0x34, 'Standby Temp'), sdr_compact(r + 1, 0x35, 'PSU Status')],
            {0x34: [0x00, 0x00, 0xe0, 0x00], 0x35: [0x00, 0x00, 0xe0, 0x00, 0x80]})


def sdrs_luns(first_id):
    """(records, {(lun, number): Get Sensor Reading reply}): sensors on owner LUN 0, 1 and 3 (table 43-1 / 43-2
    byte 7 [1:0]; LUN 2 is the SMS LUN).  A sensor is named by (owner, LUN, number): number 51h is a full sensor
    on LUN 0 AND another one on LUN 1 (different readings), number 52h a compact sensor on LUN 0 and on LUN 1
    (different states); 07h (full) and 08h (compact) exist on LUN 3 only.  The record whose sensor the shipped
    tool cannot reach on LUN 0 through its compact branch is the last one."""
    r = first_id
    recs = [sdr_full(r, 0x51, 'Vcc carrier', 0), sdr_full(r + 1, 0x51, 'Vcc module', 1),
            sdr_full(r + 2, 0x07, 'Temp module', 3),
            sdr_compact(r + 3, 0x52, 'Slot A state', 0), sdr_compact(r + 4, 0x52, 'Slot B state', 1),
            sdr_compact(r + 5, 0x08, 'Slot C state', 3)]
    readings = {(0, 0x51): [0x00, 0x20, 0xc0, 0x01], (1, 0x51): [0x00, 0x48, 0xc0, 0x04],
                (3, 0x07): [0x00, 0x3b, 0xc0, 0x08],
                (0, 0x52): [0x00, 0x00, 0xc0, 0x82, 0x80], (1, 0x52): [0x00, 0x00, 0xc0, 0x84, 0x80],
                (3, 0x08): [0x00, 0x00, 0xc0, 0x90, 0x80]}
    return recs, readings


LUNS_FIRST_ID = 0x40
PROFILES = ('full', 'minimal', 'plain', 'sdrtypes', 'nonlinear', 'unavailable', 'luns')


class Bmc20(object):
    SEL = [
        bytes([0x01, 0x00, 0x02, 0x11, 0x22, 0x33, 0x44, 0x20, 0x00, 0x04, 0x01, 0x30, 0x01, 0x57, 0x64, 0x5a]),
        bytes([0x02, 0x00, 0x02, 0x12, 0x22, 0x33, 0x44, 0x20, 0x00, 0x04, 0x07, 0x31, 0x6f, 0x07, 0xff, 0xff]),
    ]

    def __init__(self, profile='full', faults=None):
        self.profile = profile
        self.faults = dict(faults or {})       # request index -> ('cc', code) | ('timeout',)
        self.requests = []                      # (lun, netfn, hex)
        self.n = 0
        self.reservation = 0x1233
        self.fru = fru_image()
        self.sdrs = [sdr_full(1, 0x30, 'CPU Temp'), sdr_compact(2, 0x31, 'CPU Status')]
        self.readings = {0x30: [0x00, 0x19, 0xc0, 0x00], 0x31: [0x00, 0x00, 0xc0, 0x80, 0x80]}
        if profile in ('full', 'sdrtypes'):
            recs, rd = sdrs_of_every_type(3)
            self.sdrs += recs
            self.readings.update(rd)
        if profile in ('full', 'nonlinear'):
            recs, rd = sdrs_nonlinear(0x20)
            self.sdrs += recs
            self.readings.update(rd)
        if profile in ('full', 'unavailable'):
            recs, rd = sdrs_unavailable(0x30)
            self.sdrs += recs
            self.readings.update(rd)
        # sensors on other LUNs than 0: (lun, number) -> reply.  `readings` are the sensors of LUN 0.
        self.lun_readings = {}
        if profile == 'luns':
            recs, rd = sdrs_luns(LUNS_FIRST_ID)
            self.sdrs += recs
            for (lun, number), reply in rd.items():
                if lun == 0:
                    self.readings[number] = reply
                else:
                    self.lun_readings[(lun, number)] = reply
        self.sensor_luns = set([0] + [l for l, _ in self.lun_readings])
        self.linkless = profile == 'full'       # base channel 3 is configured but carries no link
        self.sel = list(self.SEL)
        self.chassis_controls = []
        self.upgrade = {'action': None, 'block': 0, 'bytes': 0, 'last': (0x00, 0x00), 'activated': False}

    # -------------------------------------------------------------------------------------
    def handle(self, lun, netfn, data):
        data = bytes(data)
        k = self.n
        self.n += 1
        self.requests.append((lun, netfn, data.hex()))
        f = self.faults.get(k)
        if f is not None:
            if f[0] != 'cc':
                raise_fault(f)
            return bytes([f[1]])
        if not data:
            return bytes([0xc7])
        if not isinstance(lun, int) or not isinstance(netfn, int):
            return bytes([0xc1])
        if lun != 0:
            # only the sensors live on other LUNs (and only in a profile that has some there)
            if (netfn, data[0]) == (0x04, 0x2d) and lun in self.sensor_luns and self.profile != 'minimal':
                return bytes(self._sensor_reading(lun, data[1:]))
            return bytes([0xc1])
        fn = getattr(self, '_h_%02x_%02x' % (netfn & 0xff, data[0]), None) if 0 <= netfn < 256 else None
        if fn is None:
            return bytes([0xc1])
        if self.profile != 'full' and netfn == 0x2c and 0x30 <= data[0] <= 0x35:
            return bytes([0xc1])        # no HPM.1 upgrade agent
        if self.profile == 'minimal' and (netfn, data[0]) not in ((6, 1), (6, 2), (6, 3), (0, 1), (0, 2)):
            return bytes([0xc1])
        return bytes(fn(data[1:]))

    # ---- IPM device global (netfn App 06h) ----------------------------------------------
    def _h_06_01(self, d):      # Get Device ID, table 20-2
        support = 0x80 if self.profile == 'minimal' else 0x01 | 0x02 | 0x04 | 0x08 | 0x80
        return bytes([0x00, 0x20, 0x81, 0x81, 0x23, 0x02, support, 0xa2, 0x3a, 0x00, 0x34, 0x12,
                      0x01, 0x02, 0x03, 0x04])

    def _h_06_02(self, d):      # Cold Reset
        return [0x00] if not d else [0xc7]

    def _h_06_03(self, d):      # Warm Reset
        return [0x00] if not d else [0xc7]

    # ---- chassis (netfn 00h) -------------------------------------------------------------
    def _h_00_01(self, d):      # Get Chassis Status, table 28-3
        return [0x00, 0x21, 0x10, 0x40, 0x0f] if not d else [0xc7]

    def _h_00_02(self, d):      # Chassis Control, table 28-4
        if len(d) != 1:
            return [0xc7]
        if d[0] & 0x0f > 5:
            return [0xcc]
        self.chassis_controls.append(d[0] & 0x0f)
        return [0x00]

    # ---- sensor device (netfn S/E 04h) ---------------------------------------------------
    def _h_04_20(self, d):      # Get Device SDR Info, table 35-2
        return [0x00, len(self.sdrs), 0x01]

    def _h_04_22(self, d):      # Reserve Device SDR Repository
        self.reservation = (self.reservation + 1) & 0xffff or 1
        return bytes([0x00]) + struct.pack('<H', self.reservation)

    def _get_sdr(self, d):
        if len(d) != 6:
            return [0xc7]
        res, rid, off, cnt = struct.unpack('<HHBB', d)
        if off != 0 and res != self.reservation:
            return [0xc5]
        ids = [struct.unpack('<H', s[:2])[0] for s in self.sdrs]
        if rid == 0:
            idx = 0
        elif rid == 0xffff:
            idx = len(ids) - 1
        elif rid in ids:
            idx = ids.index(rid)
        else:
            return [0xcb]
        rec = self.sdrs[idx]
        nxt = ids[idx + 1] if idx + 1 < len(ids) else 0xffff
        if off > len(rec):
            return [0xc9]
        chunk = rec[off:] if cnt == 0xff else rec[off:off + cnt]
        if cnt != 0xff and off + cnt > len(rec):
            return [0xca]
        return bytes([0x00]) + struct.pack('<H', nxt) + chunk

    _h_04_21 = _get_sdr          # Get Device SDR, table 35-4

    def reading_of(self, lun, number):
        """reply of Get Sensor Reading sent to responder LUN `lun` for sensor `number` (None: no such sensor)"""
        return self.readings.get(number) if lun == 0 else self.lun_readings.get((lun, number))

    def _sensor_reading(self, lun, d):   # Get Sensor Reading, table 35-15: the sensor is (responder LUN, number)
        if len(d) != 1:
            return [0xc7]
        r = self.reading_of(lun, d[0])
        return [0xcb] if r is None else r

    def _h_04_2d(self, d):
        return self._sensor_reading(0, d)

    def _h_04_2a(self, d):       # Re-arm Sensor Events, table 35-13
        if len(d) < 2 or len(d) > 6:
            return [0xc7]
        return [0x00] if d[0] in self.readings else [0xcb]

    # ---- storage (netfn 0Ah) ---------------------------------------------------------------
    def _h_0a_10(self, d):       # Get FRU Inventory Area Info, table 34-2
        if len(d) != 1:
            return [0xc7]
        if d[0] != 0:
            return [0xcb]
        return bytes([0x00]) + struct.pack('<H', len(self.fru)) + bytes([0x00])

    def _h_0a_11(self, d):       # Read FRU Data, table 34-3
        if len(d) != 4:
            return [0xc7]
        fid, off, cnt = struct.unpack('<BHB', d)
        if fid != 0:
            return [0xcb]
        if off > len(self.fru):
            return [0xc9]
        chunk = self.fru[off:off + cnt]
        return bytes([0x00, len(chunk)]) + chunk

    def _h_0a_20(self, d):       # Get SDR Repository Info, table 33-3
        return bytes([0x00, 0x51]) + struct.pack('<HHII', len(self.sdrs), 0x0100, 0x5f000000, 0x5f000001) \
            + bytes([0x03])

    def _h_0a_22(self, d):       # Reserve SDR Repository
        self.reservation = (self.reservation + 1) & 0xffff or 1
        return bytes([0x00]) + struct.pack('<H', self.reservation)

    _h_0a_23 = _get_sdr          # Get SDR, table 33-5

    def _h_0a_40(self, d):       # Get SEL Info, table 31-2
        return bytes([0x00, 0x51]) + struct.pack('<HHII', len(self.sel), 0x0200, 0x5f000000, 0x5f000001) \
            + bytes([0x0a])

    def _h_0a_42(self, d):       # Reserve SEL
        self.reservation = (self.reservation + 1) & 0xffff or 1
        return bytes([0x00]) + struct.pack('<H', self.reservation)

    def _h_0a_43(self, d):       # Get SEL Entry, table 31-6
        if len(d) != 6:
            return [0xc7]
        res, rid, off, cnt = struct.unpack('<HHBB', d)
        if not self.sel:
            return [0xcb]
        ids = [struct.unpack('<H', s[:2])[0] for s in self.sel]
        if rid == 0:
            idx = 0
        elif rid == 0xffff:
            idx = len(ids) - 1
        elif rid in ids:
            idx = ids.index(rid)
        else:
            return [0xcb]
        if off != 0 and res != self.reservation:
            return [0xc5]
        rec = self.sel[idx]
        nxt = ids[idx + 1] if idx + 1 < len(ids) else 0xffff
        chunk = rec[off:] if cnt == 0xff else rec[off:off + cnt]
        return bytes([0x00]) + struct.pack('<H', nxt) + chunk

    def _h_0a_47(self, d):       # Clear SEL, table 31-9
        if len(d) != 6:
            return [0xc7]
        res, c, l, r, op = struct.unpack('<HBBBB', d)
        if (c, l, r) != (0x43, 0x4c, 0x52):
            return [0xcc]
        if res != self.reservation:
            return [0xc5]
        if op == 0xaa:
            self.sel = []
        elif op != 0x00:
            return [0xcc]
        return [0x00, 0x01]

    # ---- PICMG / MTCA / HPM.1 (netfn group extension 2Ch, identifier 00h) --------------------
    def _picmg(self, d, n):
        return len(d) == n + 1 and d[0] == 0x00

    def _h_2c_04(self, d):       # FRU Control (PICMG 3.0 table 3-27)
        if not self._picmg(d, 2):
            return [0xc7]
        return [0x00, 0x00] if d[1] == 0 and d[2] <= 4 else [0xcc]

    def _h_2c_12(self, d):       # Get Power Level (table 3-82)
        if not self._picmg(d, 2):
            return [0xc7]
        return [0x00, 0x00, 0x01, 0x05, 0x0a, 0x02, 0x04] if d[1] == 0 else [0xcb]

    def _h_2c_0f(self, d):       # Get Port State (table 3-59)
        if not self._picmg(d, 1):
            return [0xc7]
        ch, intf = d[1] & 0x3f, d[1] >> 6
        if intf == 0 and ch in (1, 2):
            return [0x00, 0x00, (intf << 6) | ch, 0x11, 0x00, 0x00, 0x01]
        if intf == 0 and ch == 3 and self.linkless:
            return [0x00, 0x00]         # the channel exists, no link on it: no Link Info / State bytes
        return [0xcc]

    def _h_2c_25(self, d):       # Get Power Channel Status (MTCA.0)
        if not self._picmg(d, 2):
            return [0xc7]
        return [0x00, 0x00, 0x10, 0x06] + [0x5b] * max(1, min(d[2], 16))

    def _h_2c_28(self, d):       # PM Heartbeat (MTCA.0)
        return [0x00, 0x00] if self._picmg(d, 2) else [0xc7]

    def _h_2c_24(self, d):       # Power Channel Control (MTCA.0)
        return [0x00, 0x00] if self._picmg(d, 5) else [0xc7]

    def _h_2c_2e(self, d):       # HPM.1 Get Target Upgrade Capabilities
        if not self._picmg(d, 0):
            return [0xc7]
        return [0x00, 0x00, 0x00, 0x0e, 0x0a, 0x05, 0x05, 0x0a, 0x03]     # components 0 and 1 present

    def _h_2c_2f(self, d):       # HPM.1 Get Component Properties
        if not self._picmg(d, 2):
            return [0xc7]
        if d[1] not in (0, 1):
            return [0x82]
        sel = d[2]
        if sel == 0:
            return [0x00, 0x00, 0x00]
        if sel == 1:
            return [0x00, 0x00, 0x01, 0x23, 0x00, 0x00, 0x00, 0x00] if d[1] == 0 else \
                [0x00, 0x00, 0x02, 0x05, 0x00, 0x00, 0x00, 0x00]
        if sel == 2:
            # description string: 12 bytes of ASCII / Latin-1 text, NUL padded; component 1 is the boot loader
            # updater `fw\update` (the backslash is a character like any other)
            return bytes([0x00, 0x00]) + (b'APP20' if d[1] == 0 else b'fw\\update').ljust(12, b'\x00')
        return [0x83]

    # ---- HPM.1 upgrade (R1.0 ch. 3: 30h abort, 31h initiate, 32h upload block, 33h finish, 34h status, 35h activate)
    def _done(self, cmd, cc):
        self.upgrade['last'] = (cmd, cc)
        return [cc, 0x00]

    def _h_2c_30(self, d):       # Abort Firmware Upgrade
        if not self._picmg(d, 0):
            return [0xc7]
        self.upgrade.update(action=None, block=0, bytes=0)
        return self._done(0x30, 0x00)

    def _h_2c_31(self, d):       # Initiate Upgrade Action: components mask, action
        if not self._picmg(d, 2):
            return [0xc7]
        if d[1] & ~0x03 or d[2] > 3:
            return self._done(0x31, 0xcc)
        self.upgrade.update(action=d[2], block=0, bytes=0)
        return self._done(0x31, 0x00)

    def _h_2c_32(self, d):       # Upload Firmware Block: block number, data
        if len(d) < 3 or d[0] != 0x00:
            return [0xc7]
        if self.upgrade['action'] not in (2, 3):
            return self._done(0x32, 0xd5)
        if d[1] != self.upgrade['block']:
            return self._done(0x32, 0x82)      # invalid block number
        self.upgrade['block'] = (d[1] + 1) & 0xff
        self.upgrade['bytes'] += len(d) - 2
        return self._done(0x32, 0x00)

    def _h_2c_33(self, d):       # Finish Firmware Upload: component, image length
        if not self._picmg(d, 5):
            return [0xc7]
        if self.upgrade['action'] not in (2, 3):
            return self._done(0x33, 0xd5)
        if d[1] != 0 or struct.unpack('<I', bytes(d[2:6]))[0] != self.upgrade['bytes']:
            return self._done(0x33, 0x81)      # number of bytes received does not match
        self.upgrade['action'] = None
        return self._done(0x33, 0x00)

    def _h_2c_34(self, d):       # Get Upgrade Status
        if not self._picmg(d, 0):
            return [0xc7]
        return [0x00, 0x00, self.upgrade['last'][0], self.upgrade['last'][1]]

    def _h_2c_35(self, d):       # Activate Firmware [rollback override policy]
        if not (self._picmg(d, 0) or self._picmg(d, 1)):
            return [0xc7]
        self.upgrade['activated'] = True
        return self._done(0x35, 0x00)


def raise_fault(f):
    """('timeout',) | ('exc', name): what an interface raises instead of returning a reply"""
    import socket
    import pyipmi.errors as E
    if f[0] == 'timeout':
        raise E.IpmiTimeoutError()
    name = f[1]
    if name == 'socket.timeout':
        raise socket.timeout('timed out')
    cls = getattr(E, name)
    if name == 'CompletionCodeError':
        raise cls(0xd5)
    raise cls('injected: %s' % name)


class Iface20(object):
    """Substituted interface: a recording front end of a `Bmc20`."""

    def __init__(self, bmc, name=None, kwargs=None):
        self.bmc = bmc
        self.name = name
        self.kwargs = dict(kwargs or {})
        self.events = []            # 'open' 'close' ('session', …) 'close_session'
        self.targets = []           # per request: (ipmb_address, [(rq_sa, rs_sa, channel)…] | None)
        self.session = None

    def open(self):
        self.events.append('open')

    def close(self):
        self.events.append('close')

    def establish_session(self, session):
        self.session = {
            'host': session.rmcp_host, 'port': session.rmcp_port, 'user': session.auth_username,
            'password': session.auth_password, 'priv': session.priv_level, 'auth_type': session.auth_type}
        self.events.append('session')
        self._session_fault(-1)

    def close_session(self):
        self.events.append('close_session')
        self._session_fault(-2)

    def _session_fault(self, key):
        f = self.bmc.faults.get(key)
        if f is not None:
            if f[0] == 'cc':
                from pyipmi.errors import CompletionCodeError
                raise CompletionCodeError(f[1])
            raise_fault(f)

    def is_ipmc_accessible(self, target):
        return True

    @staticmethod
    def _target(t):
        if t is None:
            return None
        r = t.routing
        return (t.ipmb_address, None if r is None else [(x.rq_sa, x.rs_sa, x.channel) for x in r])

    def send_and_receive_raw(self, target, lun, netfn, raw_bytes):
        self.targets.append(self._target(target))
        return self.bmc.handle(lun, netfn, bytes(bytearray(raw_bytes)))

    def send_and_receive(self, req):
        from pyipmi.msgs import create_message, encode_message, decode_message
        data = bytes([req.cmdid]) + bytes(bytearray(encode_message(req)))
        rsp_data = self.send_and_receive_raw(req.target, req.lun, req.netfn, data)
        rsp = create_message(req.netfn + 1, req.cmdid, req.group_extension)
        decode_message(rsp, rsp_data)
        return rsp
