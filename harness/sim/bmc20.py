"""Byte-level BMC stub + substituted interface for C20.

`Bmc20.handle(lun, netfn, data)` answers a request (data = command byte + request data) with
`completion code + response data`, built from the IPMI v2.0 / PICMG 3.0 / MTCA.0 / HPM.1 tables
(not with the library's message classes).  Commands outside the implemented set are answered
with C1h (invalid command) — which is what a conforming controller without that function does.

Two personalities: `full` (everything below) and `minimal` (IPM device global commands and chassis only).

`Iface20` is what `pyipmi.interfaces.create_interface` is replaced with: it records how it was
created, the session it was asked to establish, and every request with the target it was
addressed to; it encodes/decodes exactly like the library's own byte-level interfaces do
(`cmd + encode_message(req)` → bytes → `decode_message`).
"""
import struct


def _cksum(b):
    return (-sum(b)) & 0xff


def _tl(s):
    """FRU type/length byte + 8-bit ASCII/Latin-1 string"""
    b = s.encode('latin-1')
    return bytes([0xC0 | len(b)]) + b


def fru_image():
    board = bytes([0x01, 0x00, 0x00]) + bytes([0x10, 0x20, 0x30])
    board += _tl('ACME') + _tl('Board-20') + _tl('SN0020') + _tl('PN-20') + _tl('fru20')
    board += bytes([0xC1])
    total = len(board) + 1
    pad = (-total) % 8
    board += bytes(pad)
    board = bytearray(board)
    board[1] = (len(board) + 1) // 8
    board = bytes(board) + bytes([_cksum(board)])
    hdr = bytes([0x01, 0x00, 0x00, 0x01, 0x00, 0x00, 0x00])
    hdr += bytes([_cksum(hdr)])
    return hdr + board


def sdr_full(rid, number, name):
    body = bytes([
        0x20, 0x00, number,       # owner id, owner lun, sensor number
        0x03, 0x01,               # entity id (processor), instance
        0x7f, 0x68,               # initialization, capabilities
        0x01, 0x01,               # sensor type temperature, event/reading type threshold
        0x00, 0x00, 0x00, 0x00, 0x3f, 0x3f,   # masks
        0x00, 0x01, 0x00,         # units: unsigned, degrees C, no modifier
        0x00,                     # linear
        0x02, 0x00,               # M = 2, tolerance 0
        0x03, 0x00,               # B = 3, accuracy 0
        0x00,                     # accuracy exp, direction
        0x00,                     # R exp 0, B exp 0
        0x07,                     # analog flags
        0x32, 0x50, 0x0a,         # nominal, normal max, normal min
        0xff, 0x00,               # sensor max, min
        0x64, 0x5a, 0x50,         # unr, ucr, unc
        0x02, 0x05, 0x0a,         # lnr, lcr, lnc
        0x01, 0x01,               # hysteresis
        0x00, 0x00, 0x00,         # reserved, reserved, oem
    ]) + _tl(name)
    return struct.pack('<HBBB', rid, 0x51, 0x01, len(body)) + body


def sdr_compact(rid, number, name):
    body = bytes([
        0x20, 0x00, number,
        0x07, 0x01,
        0x67, 0x40,
        0x07, 0x6f,               # sensor type processor, sensor-specific discrete
        0x80, 0x00, 0x80, 0x00, 0x80, 0x00,
        0xc0, 0x00, 0x00,         # units
        0x00, 0x00,               # record sharing
        0x00, 0x00,               # hysteresis
        0x00, 0x00, 0x00,         # reserved
        0x00,                     # oem
    ]) + _tl(name)
    return struct.pack('<HBBB', rid, 0x51, 0x02, len(body)) + body


class Bmc20(object):
    SEL = [
        bytes([0x01, 0x00, 0x02, 0x11, 0x22, 0x33, 0x44, 0x20, 0x00, 0x04, 0x01, 0x30, 0x01, 0x57, 0x64, 0x5a]),
        bytes([0x02, 0x00, 0x02, 0x12, 0x22, 0x33, 0x44, 0x20, 0x00, 0x04, 0x07, 0x31, 0x6f, 0x07, 0xff, 0xff]),
    ]

    def __init__(self, profile='full', faults=None):
        self.profile = profile
        self.faults = dict(faults or {})       # request index -> ('cc', code) | ('timeout',)
        self.requests = []                      # (lun, netfn, hex)
        self.n = 0
        self.reservation = 0x1233
        self.fru = fru_image()
        self.sdrs = [sdr_full(1, 0x30, 'CPU Temp'), sdr_compact(2, 0x31, 'CPU Status')]
        self.sel = list(self.SEL)
        self.chassis_controls = []

    # -------------------------------------------------------------------------------------
    def handle(self, lun, netfn, data):
        data = bytes(data)
        k = self.n
        self.n += 1
        self.requests.append((lun, netfn, data.hex()))
        f = self.faults.get(k)
        if f is not None:
            if f[0] == 'timeout':
                from pyipmi.errors import IpmiTimeoutError
                raise IpmiTimeoutError()
            return bytes([f[1]])
        if not data:
            return bytes([0xc7])
        if not isinstance(lun, int) or not isinstance(netfn, int) or lun != 0:
            return bytes([0xc1])
        fn = getattr(self, '_h_%02x_%02x' % (netfn & 0xff, data[0]), None) if 0 <= netfn < 256 else None
        if fn is None:
            return bytes([0xc1])
        if self.profile == 'minimal' and (netfn, data[0]) not in ((6, 1), (6, 2), (6, 3), (0, 1), (0, 2)):
            return bytes([0xc1])
        return bytes(fn(data[1:]))

    # ---- IPM device global (netfn App 06h) ----------------------------------------------
    def _h_06_01(self, d):      # Get Device ID, table 20-2
        support = 0x01 | 0x02 | 0x04 | 0x08 | 0x80 if self.profile == 'full' else 0x80
        return bytes([0x00, 0x20, 0x81, 0x81, 0x23, 0x02, support, 0xa2, 0x3a, 0x00, 0x34, 0x12,
                      0x01, 0x02, 0x03, 0x04])

    def _h_06_02(self, d):      # Cold Reset
        return [0x00] if not d else [0xc7]

    def _h_06_03(self, d):      # Warm Reset
        return [0x00] if not d else [0xc7]

    # ---- chassis (netfn 00h) -------------------------------------------------------------
    def _h_00_01(self, d):      # Get Chassis Status, table 28-3
        return [0x00, 0x21, 0x10, 0x40, 0x0f] if not d else [0xc7]

    def _h_00_02(self, d):      # Chassis Control, table 28-4
        if len(d) != 1:
            return [0xc7]
        if d[0] & 0x0f > 5:
            return [0xcc]
        self.chassis_controls.append(d[0] & 0x0f)
        return [0x00]

    # ---- sensor device (netfn S/E 04h) ---------------------------------------------------
    def _h_04_20(self, d):      # Get Device SDR Info, table 35-2
        return [0x00, len(self.sdrs), 0x01]

    def _h_04_22(self, d):      # Reserve Device SDR Repository
        self.reservation = (self.reservation + 1) & 0xffff or 1
        return bytes([0x00]) + struct.pack('<H', self.reservation)

    def _get_sdr(self, d):
        if len(d) != 6:
            return [0xc7]
        res, rid, off, cnt = struct.unpack('<HHBB', d)
        if off != 0 and res != self.reservation:
            return [0xc5]
        ids = [struct.unpack('<H', s[:2])[0] for s in self.sdrs]
        if rid == 0:
            idx = 0
        elif rid == 0xffff:
            idx = len(ids) - 1
        elif rid in ids:
            idx = ids.index(rid)
        else:
            return [0xcb]
        rec = self.sdrs[idx]
        nxt = ids[idx + 1] if idx + 1 < len(ids) else 0xffff
        if off > len(rec):
            return [0xc9]
        chunk = rec[off:] if cnt == 0xff else rec[off:off + cnt]
        if cnt != 0xff and off + cnt > len(rec):
            return [0xca]
        return bytes([0x00]) + struct.pack('<H', nxt) + chunk

    _h_04_21 = _get_sdr          # Get Device SDR, table 35-4

    def _h_04_2d(self, d):       # Get Sensor Reading, table 35-15
        if len(d) != 1:
            return [0xc7]
        if d[0] == 0x30:
            return [0x00, 0x19, 0xc0, 0x00]
        if d[0] == 0x31:
            return [0x00, 0x00, 0xc0, 0x80, 0x80]
        return [0xcb]

    def _h_04_2a(self, d):       # Re-arm Sensor Events, table 35-13
        if len(d) < 2 or len(d) > 6:
            return [0xc7]
        return [0x00] if d[0] in (0x30, 0x31) else [0xcb]

    # ---- storage (netfn 0Ah) ---------------------------------------------------------------
    def _h_0a_10(self, d):       # Get FRU Inventory Area Info, table 34-2
        if len(d) != 1:
            return [0xc7]
        if d[0] != 0:
            return [0xcb]
        return bytes([0x00]) + struct.pack('<H', len(self.fru)) + bytes([0x00])

    def _h_0a_11(self, d):       # Read FRU Data, table 34-3
        if len(d) != 4:
            return [0xc7]
        fid, off, cnt = struct.unpack('<BHB', d)
        if fid != 0:
            return [0xcb]
        if off > len(self.fru):
            return [0xc9]
        chunk = self.fru[off:off + cnt]
        return bytes([0x00, len(chunk)]) + chunk

    def _h_0a_20(self, d):       # Get SDR Repository Info, table 33-3
        return bytes([0x00, 0x51]) + struct.pack('<HHII', len(self.sdrs), 0x0100, 0x5f000000, 0x5f000001) \
            + bytes([0x03])

    def _h_0a_22(self, d):       # Reserve SDR Repository
        self.reservation = (self.reservation + 1) & 0xffff or 1
        return bytes([0x00]) + struct.pack('<H', self.reservation)

    _h_0a_23 = _get_sdr          # Get SDR, table 33-5

    def _h_0a_40(self, d):       # Get SEL Info, table 31-2
        return bytes([0x00, 0x51]) + struct.pack('<HHII', len(self.sel), 0x0200, 0x5f000000, 0x5f000001) \
            + bytes([0x0a])

    def _h_0a_42(self, d):       # Reserve SEL
        self.reservation = (self.reservation + 1) & 0xffff or 1
        return bytes([0x00]) + struct.pack('<H', self.reservation)

    def _h_0a_43(self, d):       # Get SEL Entry, table 31-6
        if len(d) != 6:
            return [0xc7]
        res, rid, off, cnt = struct.unpack('<HHBB', d)
        if not self.sel:
            return [0xcb]
        ids = [struct.unpack('<H', s[:2])[0] for s in self.sel]
        if rid == 0:
            idx = 0
        elif rid == 0xffff:
            idx = len(ids) - 1
        elif rid in ids:
            idx = ids.index(rid)
        else:
            return [0xcb]
        if off != 0 and res != self.reservation:
            return [0xc5]
        rec = self.sel[idx]
        nxt = ids[idx + 1] if idx + 1 < len(ids) else 0xffff
        chunk = rec[off:] if cnt == 0xff else rec[off:off + cnt]
        return bytes([0x00]) + struct.pack('<H', nxt) + chunk

    def _h_0a_47(self, d):       # Clear SEL, table 31-9
        if len(d) != 6:
            return [0xc7]
        res, c, l, r, op = struct.unpack('<HBBBB', d)
        if (c, l, r) != (0x43, 0x4c, 0x52):
            return [0xcc]
        if res != self.reservation:
            return [0xc5]
        if op == 0xaa:
            self.sel = []
        elif op != 0x00:
            return [0xcc]
        return [0x00, 0x01]

    # ---- PICMG / MTCA / HPM.1 (netfn group extension 2Ch, identifier 00h) --------------------
    def _picmg(self, d, n):
        return len(d) == n + 1 and d[0] == 0x00

    def _h_2c_04(self, d):       # FRU Control (PICMG 3.0 table 3-27)
        if not self._picmg(d, 2):
            return [0xc7]
        return [0x00, 0x00] if d[1] == 0 and d[2] <= 4 else [0xcc]

    def _h_2c_12(self, d):       # Get Power Level (table 3-82)
        if not self._picmg(d, 2):
            return [0xc7]
        return [0x00, 0x00, 0x01, 0x05, 0x0a, 0x02, 0x04] if d[1] == 0 else [0xcb]

    def _h_2c_0f(self, d):       # Get Port State (table 3-59)
        if not self._picmg(d, 1):
            return [0xc7]
        ch, intf = d[1] & 0x3f, d[1] >> 6
        if intf == 0 and ch in (1, 2):
            return [0x00, 0x00, (intf << 6) | ch, 0x11, 0x00, 0x00, 0x01]
        return [0xcc]

    def _h_2c_25(self, d):       # Get Power Channel Status (MTCA.0)
        if not self._picmg(d, 2):
            return [0xc7]
        return [0x00, 0x00, 0x10, 0x06] + [0x5b] * max(1, min(d[2], 16))

    def _h_2c_28(self, d):       # PM Heartbeat (MTCA.0)
        return [0x00, 0x00] if self._picmg(d, 2) else [0xc7]

    def _h_2c_24(self, d):       # Power Channel Control (MTCA.0)
        return [0x00, 0x00] if self._picmg(d, 5) else [0xc7]

    def _h_2c_2e(self, d):       # HPM.1 Get Target Upgrade Capabilities
        if not self._picmg(d, 0):
            return [0xc7]
        return [0x00, 0x00, 0x00, 0x0e, 0x0a, 0x05, 0x05, 0x0a, 0x01]

    def _h_2c_2f(self, d):       # HPM.1 Get Component Properties
        if not self._picmg(d, 2):
            return [0xc7]
        if d[1] != 0:
            return [0x82]
        sel = d[2]
        if sel == 0:
            return [0x00, 0x00, 0x00]
        if sel == 1:
            return [0x00, 0x00, 0x01, 0x23, 0x00, 0x00, 0x00, 0x00]
        if sel == 2:
            return bytes([0x00, 0x00]) + b'APP20\x00\x00\x00\x00\x00\x00\x00'
        return [0x83]


class Iface20(object):
    """Substituted interface: a recording front end of a `Bmc20`."""

    def __init__(self, bmc, name=None, kwargs=None):
        self.bmc = bmc
        self.name = name
        self.kwargs = dict(kwargs or {})
        self.events = []            # 'open' 'close' ('session', …) 'close_session'
        self.targets = []           # per request: (ipmb_address, [(rq_sa, rs_sa, channel)…] | None)
        self.session = None

    def open(self):
        self.events.append('open')

    def close(self):
        self.events.append('close')

    def establish_session(self, session):
        self.session = {
            'host': session.rmcp_host, 'port': session.rmcp_port, 'user': session.auth_username,
            'password': session.auth_password, 'priv': session.priv_level, 'auth_type': session.auth_type}
        self.events.append('session')

    def close_session(self):
        self.events.append('close_session')

    def is_ipmc_accessible(self, target):
        return True

    @staticmethod
    def _target(t):
        if t is None:
            return None
        r = t.routing
        return (t.ipmb_address, None if r is None else [(x.rq_sa, x.rs_sa, x.channel) for x in r])

    def send_and_receive_raw(self, target, lun, netfn, raw_bytes):
        self.targets.append(self._target(target))
        return self.bmc.handle(lun, netfn, bytes(bytearray(raw_bytes)))

    def send_and_receive(self, req):
        from pyipmi.msgs import create_message, encode_message, decode_message
        data = bytes([req.cmdid]) + bytes(bytearray(encode_message(req)))
        rsp_data = self.send_and_receive_raw(req.target, req.lun, req.netfn, data)
        rsp = create_message(req.netfn + 1, req.cmdid, req.group_extension)
        decode_message(rsp, rsp_data)
        return rsp
