"""Shared by C16/C17 (same role as codec_common.py for C01/C02): a buffered reader on top of
the runner's driver process.  `lib.lean.Driver` opens its pipes unbuffered, so `readline()`
costs one system call per byte; the C16/C17 protocol answers are long (up to 10 kB per line),
which made I/O dominate the run.  Nothing else is changed: same process, same protocol."""
import io

from .lib import lean


class FastDriver(object):
    def __init__(self, drv):
        self.drv = drv
        self.exe = drv.exe
        self.inp = drv.p.stdin
        self.out = io.BufferedReader(drv.p.stdout, 1 << 18) if not isinstance(drv.p.stdout, io.BufferedReader) \
            else drv.p.stdout

    def _read(self):
        out = self.out.readline()
        if not out:
            raise lean.LeanError('driver %s died' % self.exe)
        return out.decode('utf-8').rstrip('\n')

    def ask(self, line):
        if '\n' in line:
            raise ValueError('newline in protocol line')
        self.inp.write(line.encode('utf-8') + b'\n')
        self.drv.lines += 1
        return self._read()

    def ask_many(self, lines):
        """Pipelined: write a group (<= 32 kB of requests), then read its answers."""
        res, cur, size = [], [], 0
        groups = []
        for ln in lines:
            if cur and size + len(ln) > 32000:
                groups.append(cur)
                cur, size = [], 0
            cur.append(ln)
            size += len(ln) + 1
        if cur:
            groups.append(cur)
        for chunk in groups:
            self.inp.write(('\n'.join(chunk) + '\n').encode('utf-8'))
            for _ in chunk:
                res.append(self._read())
        self.drv.lines += len(lines)
        return res


_fast = {}


def fast(ctx, exe):
    """One buffered wrapper per underlying driver process."""
    d = ctx.driver(exe)
    f = _fast.get(id(d))
    if f is None or f.drv is not d:
        f = FastDriver(d)
        _fast[id(d)] = f
    return f
