"""One PRNG per run; every random choice derives from VERIF_SEED."""
import os
import random


def seed():
    try:
        return int(os.environ.get('VERIF_SEED', '0'))
    except ValueError:
        return 0


def make(tag=''):
    return random.Random('%d/%s' % (seed(), tag))


def boundary_int(rng, bits):
    """Boundary-biased integer in [0, 2**bits)."""
    top = (1 << bits) - 1
    r = rng.random()
    if r < 0.35:
        cands = [0, 1, top, top - 1, 1 << (bits - 1), (1 << (bits - 1)) - 1]
        if bits > 8:
            cands += [0xff, 0x100, (1 << bits) - 0x100, 0x80 << (bits - 8)]
        return rng.choice(cands) & top
    if r < 0.5:
        return (1 << rng.randrange(bits)) & top
    return rng.randrange(top + 1)
