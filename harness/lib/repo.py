"""Where the code under verification lives, and how it is imported.

The package is *not* installed: it is imported straight from the working tree so that
every run sees the current source.  VERIF_REPO overrides the location (used only to run
the checks against scratch worktrees holding seeded mutants; registered commands use /repo).
"""
import os
import sys

REPO = os.path.abspath(os.environ.get('VERIF_REPO', '/repo'))
VERIF = os.path.dirname(os.path.dirname(os.path.dirname(os.path.abspath(__file__))))
GUARD = 'KONTRON_PYTHON_IPMI_VERIF'


def activate():
    """Make `import pyipmi` resolve to REPO's working tree, without writing .pyc files."""
    sys.dont_write_bytecode = True
    os.environ[GUARD] = '1'
    if REPO not in sys.path:
        sys.path.insert(0, REPO)
    for name in list(sys.modules):
        if name == 'pyipmi' or name.startswith('pyipmi.'):
            mod = sys.modules[name]
            f = getattr(mod, '__file__', '') or ''
            if not os.path.abspath(f).startswith(REPO + os.sep):
                del sys.modules[name]


def src(rel):
    return os.path.join(REPO, rel)


def read(rel):
    with open(src(rel), encoding='utf-8') as f:
        return f.read()
