"""Lean side of a check: build, axiom audit, forbidden-token grep, driver process."""
import fcntl
import os
import re
import subprocess
import time

from . import repo

LEAN_DIR = os.path.join(repo.VERIF, 'lean')
WORK = os.path.join(repo.VERIF, '.work')
ALLOWED_AXIOMS = {'propext', 'Classical.choice', 'Quot.sound'}
FORBIDDEN = re.compile(
    r'\bsorry\b|\badmit\b|^\s*axiom\s|native_decide|bv_decide|implemented_by|\bunsafe\s|maxHeartbeats\s+0\b')


class LeanError(Exception):
    def __init__(self, what, output=''):
        Exception.__init__(self, what)
        self.what = what
        self.output = output


class TieBroken(Exception):
    """A translator could not express the current source in the model's vocabulary."""


class _Lock(object):
    """lake workspaces are not concurrency-safe and Gen/*.lean is shared: one process at a
    time may translate / build / audit / start drivers.  Re-entrant within a process."""
    depth = 0
    fh = None

    def __enter__(self):
        if _Lock.depth == 0:
            os.makedirs(WORK, exist_ok=True)
            _Lock.fh = open(os.path.join(WORK, 'lake.lock'), 'w')
            fcntl.flock(_Lock.fh, fcntl.LOCK_EX)
        _Lock.depth += 1
        return self

    def __exit__(self, *a):
        _Lock.depth -= 1
        if _Lock.depth == 0:
            fcntl.flock(_Lock.fh, fcntl.LOCK_UN)
            _Lock.fh.close()
            _Lock.fh = None


Lock = _Lock


def _run(cmd, timeout):
    env = dict(os.environ)
    env.pop('VERIF_REPO', None)
    p = subprocess.run(cmd, cwd=LEAN_DIR, stdout=subprocess.PIPE, stderr=subprocess.STDOUT,
                       timeout=timeout, env=env)
    return p.returncode, p.stdout.decode('utf-8', 'replace')


def build(targets, timeout=1500):
    """`lake build <targets>`; returns (ok, output)."""
    with _Lock():
        rc, out = _run(['lake', 'build'] + list(targets), timeout)
    return rc == 0, out


def write_if_changed(path, content):
    """Generated files are rewritten only when their content changes (keeps builds incremental)."""
    try:
        with open(path, encoding='utf-8') as f:
            if f.read() == content:
                return False
    except IOError:
        pass
    os.makedirs(os.path.dirname(path), exist_ok=True)
    tmp = path + '.tmp'
    with open(tmp, 'w', encoding='utf-8') as f:
        f.write(content)
    os.replace(tmp, path)
    return True


_AX_DEP = re.compile(r"^'([^']+)' depends on axioms: \[([^\]]*)\]", re.M | re.S)
_AX_NONE = re.compile(r"^'([^']+)' does not depend on any axioms", re.M)


def audit(prop_id, timeout=600):
    """Run Audit/<id>.lean; return {theorem: [axioms]} for every `#print axioms` in it."""
    path = os.path.join(LEAN_DIR, 'Audit', prop_id + '.lean')
    # the audit file is regenerated from Props/<id>.lean: every `theorem` there is audited
    wanted = theorem_sources(prop_id)
    write_if_changed(path, 'import PyIpmi.Props.%s\n' % prop_id
                     + ''.join('#print axioms %s\n' % w for w in wanted))
    with _Lock():
        rc, out = _run(['lake', 'env', 'lean', os.path.join('Audit', prop_id + '.lean')], timeout)
    if rc != 0:
        raise LeanError('audit file does not elaborate', out)
    got = {}
    for m in _AX_DEP.finditer(out):
        got[m.group(1)] = [a.strip() for a in m.group(2).replace('\n', ' ').split(',') if a.strip()]
    for m in _AX_NONE.finditer(out):
        got[m.group(1)] = []
    missing = [w for w in wanted if w not in got]
    if missing:
        raise LeanError('audit produced no axiom report for %s' % missing, out)
    return dict((w, got[w]) for w in wanted)


def theorem_sources(prop_id):
    """Names declared with `theorem` in Props/<id>.lean (the property theorems)."""
    path = os.path.join(LEAN_DIR, 'PyIpmi', 'Props', prop_id + '.lean')
    with open(path, encoding='utf-8') as f:
        txt = f.read()
    ns = re.search(r'^namespace\s+(\S+)', txt, re.M)
    prefix = (ns.group(1) + '.') if ns else ''
    return [prefix + n for n in re.findall(r'^theorem\s+(\S+)', txt, re.M)]


def strip_comments(txt):
    txt = re.sub(r'/-.*?-/', '', txt, flags=re.S)
    return re.sub(r'--.*', '', txt)


def imports_closure(module):
    """Project-local modules reachable from `module` (by `import PyIpmi.…` lines)."""
    seen, todo = [], [module]
    while todo:
        m = todo.pop()
        if m in seen:
            continue
        path = os.path.join(LEAN_DIR, *m.split('.')) + '.lean'
        if not os.path.exists(path):
            continue
        seen.append(m)
        with open(path, encoding='utf-8') as f:
            for imp in re.findall(r'^import\s+(\S+)', f.read(), re.M):
                if imp.startswith('PyIpmi.') or imp.startswith('Drivers.'):
                    todo.append(imp)
    return seen


def grep_forbidden(modules):
    """Forbidden tokens outside comments in the given modules' sources."""
    hits = []
    for m in modules:
        path = os.path.join(LEAN_DIR, *m.split('.')) + '.lean'
        with open(path, encoding='utf-8') as f:
            body = strip_comments(f.read())
        for i, line in enumerate(body.split('\n')):
            if FORBIDDEN.search(line):
                hits.append('%s:%d: %s' % (m, i + 1, line.strip()))
    return hits


def leanchecker(modules, timeout=1800):
    with _Lock():
        rc, out = _run(['lake', 'env', 'leanchecker'] + list(modules), timeout)
    return rc == 0, out


class Driver(object):
    """Long-lived compiled Lean driver; one request line -> one response line."""

    def __init__(self, exe):
        path = os.path.join(LEAN_DIR, '.lake', 'build', 'bin', exe)
        if not os.path.exists(path):
            raise LeanError('driver %s is not built' % exe)
        self.exe = exe
        self.p = subprocess.Popen([path], stdin=subprocess.PIPE, stdout=subprocess.PIPE,
                                  bufsize=0)
        self.lines = 0

    def ask(self, line):
        if '\n' in line:
            raise ValueError('newline in protocol line')
        self.p.stdin.write(line.encode('utf-8') + b'\n')
        out = self.p.stdout.readline()
        if not out:
            raise LeanError('driver %s died on: %s' % (self.exe, line[:200]))
        self.lines += 1
        return out.decode('utf-8').rstrip('\n')

    def ask_many(self, lines):
        """Pipelined: write all, then read all (chunks keep the pipes from filling)."""
        res = []
        groups, cur, size = [], [], 0
        for ln in lines:
            if cur and size + len(ln) > 8000:
                groups.append(cur)
                cur, size = [], 0
            cur.append(ln)
            size += len(ln) + 1
        if cur:
            groups.append(cur)
        for chunk in groups:
            self.p.stdin.write(('\n'.join(chunk) + '\n').encode('utf-8'))
            for _ in chunk:
                out = self.p.stdout.readline()
                if not out:
                    raise LeanError('driver %s died' % self.exe)
                res.append(out.decode('utf-8').rstrip('\n'))
        self.lines += len(lines)
        return res

    def close(self):
        try:
            self.p.stdin.close()
            self.p.wait(timeout=5)
        except Exception:
            self.p.kill()


def hexs(b):
    b = bytes(bytearray(b))
    return b.hex() if b else '-'


def unhex(s):
    return b'' if s == '-' else bytes.fromhex(s)
