"""Evidence files: /verif/evidence/<id>.json, rewritten by every run."""
import json
import os

from . import repo

TRUSTED_BASE = [
    'Lean 4.33.0 kernel (thorough tier: leanchecker replay of the .olean files)',
    'axioms allowed in property theorems: propext, Classical.choice, Quot.sound (audited by #print axioms every run)',
    'the statements in lean/PyIpmi/Props and the specifications in lean/PyIpmi/Spec',
    'translators in harness/translate (regenerate lean/PyIpmi/Gen from the working tree every run)',
    'correspondence harness (substituted effects, canonicaliser, generators) in harness/',
    'CPython semantics of the constructs the models mirror',
]


def write(prop_id, tier, seed, level, coverage, assumptions, wall_s, violations):
    # evidence/ describes runs against /repo only; a run against a scratch tree (VERIF_REPO, seeded
    # mutants) writes under .work/ so that it can never be mistaken for, or committed as, evidence
    sub = 'evidence' if repo.REPO == '/repo' else os.path.join('.work', 'evidence-scratch')
    path = os.path.join(repo.VERIF, sub, prop_id + '.json')
    os.makedirs(os.path.dirname(path), exist_ok=True)
    doc = {
        'property_id': prop_id,
        'tier': tier,
        'seed': seed,
        'level': level,
        'coverage': coverage,
        'assumptions': assumptions,
        'wall_s': round(wall_s, 2),
        'violations': violations,
    }
    tmp = path + '.tmp'
    with open(tmp, 'w') as f:
        json.dump(doc, f, indent=1, sort_keys=True, default=str)
        f.write('\n')
    os.replace(tmp, path)
    return path
