"""known_findings.json: committed, never written at run time.

  {"known": [{"property": "C07", "signature": "...", "what": "..."}],
   "fixed": [{"property": "C01", "commit": "...", "signature": "...", "what": "..."}]}

A `known` entry suppresses exactly the violations carrying its signature (and prints a
KNOWN-FINDING line); a `fixed` entry suppresses nothing.
"""
import json
import os

from . import repo


def load():
    path = os.path.join(repo.VERIF, 'known_findings.json')
    try:
        with open(path) as f:
            doc = json.load(f)
    except IOError:
        doc = {}
    return doc.get('known', []), doc.get('fixed', [])


def known_for(prop_id):
    known, _ = load()
    return dict((k['signature'], k) for k in known if k.get('property') == prop_id)
