"""C16 — SDR record parsing inverts the SDR formats."""
import array

from .. import sdr_common
from ..lib import lean
from ..lib import rng as rnglib
from ..translate import sdr as sdr_t
from ..translate import sdrexpr

ID = 'C16'
TARGETS = ['PyIpmi.Props.C16', 'drv_c16']
LEVEL = 'proof'
RULE = ('abstract records of the seven table types are drawn field by field from their full ranges with boundary '
        'bias (M, B in -512..511, exponents -8..7, accuracy 0..1023, all unit sub-fields, 16-bit masks, channel bits '
        'next to the LUN, sensor direction next to the accuracy exponent), encoded by the Lean specification '
        '(Spec.Sdr, tables 43-1/-2/-3/-7/-8/-9/-12) and parsed by the real SdrCommon.from_data as list / tuple / '
        'bytes / array; every attribute is compared with the specification\'s view (property) and with the Lean model '
        '(tie).  Directed streams: one minimal witness per split field, every id-string encoding x every length '
        '0..16 (+ up to 30 bytes) on every record type that has one (BCD plus digits drawn from all sixteen codes of '
        'section 43.15, biased to Dh / Eh / Fh; directed strings with those codes in the high and in the low nibble on '
        'all five record types; 8-bit strings - types 11b and 00b, one character per byte, a backslash is a character - '
        'on all five record types x both encodings: a pool of printable text that a decoder could take for an escape '
        '(\\uXXXX / \\UXXXXXXXX complete, truncated, out of range, surrogates, after even / odd runs of backslashes, '
        'trailing backslash, \\n \\x41 \\101 \\N{..}, %-format, {}-format, &#..; entities) at the front / middle / end '
        'of the string in every container, 256 strings per type and encoding in which every one of the 16 positions '
        'takes every byte value, and every ordered pair of adjacent byte values (65 536 pairs as 4 370 16-byte windows of '
        'an Eulerian circuit; quick: two (type, encoding) combinations chosen by the seed, thorough: all ten)), '
        'every channel nibble 0..15 x low nibbles 0, 1, 5, 10, 15 of byte 9 of the FRU device '
        'locator (reserved bits) and of byte 8 of the MC confirmation record (device revision), all 64 combinations of '
        'key byte 8 of the FRU device locator (logical/physical flag x access LUN x private bus id), all 16 channel '
        'numbers x 4 owner LUNs of key byte 7 of the full, compact and event-only sensor record, all 256 type bytes '
        '(dispatch), every truncation of sample records (error kinds, tie only).  A case is distinct by its encoded bytes and non-trivial when '
        'the record has a body.')
ASSUMPTIONS = [
    'GENERATED every run from the AST of the working tree (harness/translate/sdrexpr.py -> Gen/SdrExpr.lean, one Lean '
    'definition per source statement, fail closed outside its grammar): every right-hand side that combines bits in '
    'the seven _from_data methods, _common_record_key, _device_id_string and _convert_complement of pyipmi/sdr.py '
    '(units sub-fields, linearisation mask, M / B reassembly + 10-bit sign extension, tolerance, accuracy, accuracy '
    'exponent, K1 / K2 + 4-bit sign extension, owner LUN, 7-bit addresses, channel, 20-bit manufacturer id, id-string '
    'type / length masks and slice bound), TypeLengthString._from_data (type, length, slice bounds, decoder selection) '
    'and the four character expressions of _unpack6bitascii of pyipmi/fields.py, the flag masks + names of bytes 11 / 31, '
    'the order and sizes of all pops; theorems gen_parseFull_eq ... gen_parseOem_eq, gen_idString_eq, gen_unpack6_eq '
    'prove that the model (Variant.intended) computes every attribute with exactly the generated expression, so '
    'parse_encode_* speak about the expressions the code contains today (a changed mask / shift / operator / '
    'precedence makes Props/C16 fail to build)',
    'hand-written (lean/PyIpmi/Model/SdrParse.lean) and tied by this correspondence run only: the control skeleton '
    'around the expressions - which popped byte feeds which expression (the generated pop order / sizes are pinned as '
    'golden lists by gen_layouts, not against the model\'s list patterns), DecodingError on a short buffer, ignored '
    'trailing bytes, exception kinds -, ByteBuffer.pop_unsigned_int (leOr), _decode_capabilities, utils.bcd_decode; '
    'the dispatch table and the BCD map are regenerated (Gen/SdrTables.lean)',
    'in the generated definitions a popped value / buffer byte is a Nat (ByteBuffer yields 0..255 per byte) and the '
    'arguments of _convert_complement are Nat: Python int semantics of & | ^ << >> on non-negative ints',
    'the specification covers the attributes the property enumerates (record id, key, entity, masks, units, '
    'linearisation, thresholds, hysteresis, id string, M / B / accuracy / exponents) as the tables define them; attributes '
    'outside that list are compared with the MODEL only, i.e. the check says nothing about their meaning: the decoded '
    '`capabilities` strings of the full sensor record (byte 12; the audit noted that the hysteresis / threshold-access '
    'constants of _decode_capabilities look swapped against table 43-1), `global_initialization` of the MC device '
    'locator (a constant 0 in the library, byte 8 [3:0] is not read) and owner_id / owner_lun / number of OEM records '
    '(the library reads the three manufacturer-id bytes of table 43-12 under the names of a sensor key)',
    'table 43-9 byte 8 is part of the record key: channel number [7:4] AND device revision [3:0]; the view therefore '
    'has `device_revision` next to `channel_number` (an attribute the repaired library sets); table 43-7 byte 9 [3:0] is '
    'reserved: generated with every value, a reader must ignore it',
    'BCD plus of an SDR id string follows IPMI v2.0 section 43.15 (all sixteen codes: Ah space, Bh -, Ch ., Dh :, Eh ,, '
    'Fh _), not the FRU Information Storage Definition (Dh-Fh reserved): my reading of the two documents; the table is '
    'pinned in Spec.Sdr.bcdChar / bcdPlusSdr and compared with the generated one (bcd_plus_sdr_table)',
    'id-string length is the number of data bytes ([4:0] of the type/length byte, bit 5 reserved = 0); a 6-bit string '
    'of 4k+3 characters reads back with one trailing space (three bytes always hold four characters)',
    'the record key is reported sub-field by sub-field as the tables divide its bytes: key byte 7 of tables 43-1 / 43-2 / '
    '43-3 as `channel_number` [7:4] and `owner_lun` [1:0] ([3:2] reserved, encoded as 0), key byte 8 of table 43-7 as '
    '`logical_physical` (the FLAG, bit 7), `access_lun` [4:3] and `private_bus_id` [2:0] ([6:5] reserved, encoded as 0; '
    'gen_byte_fields covers the expressions for all 256 byte values); `channel_number` of the sensor records, `access_lun` '
    'and `private_bus_id` are attributes the repaired library sets (the names follow its locator classes); an OEM record '
    'goes through the same _common_record_key and so gains a (meaningless) `channel_number` next to its `owner_lun`: '
    'model-only attribute as before; byte 8 of table 43-8 (power state notification / global initialization) is not a key '
    'byte: untouched',
    'the ten deviations of the ORIGINAL pinned source stay in the model as Variant flags (accuracy shift, rate unit, '
    'modifier unit, id-string type code, BCD+ on arrays, 6-bit partial group, FRU BCD table used for SDR id strings, raw '
    'byte as channel number of the FRU device locator / MC confirmation record, raw key byte 8 as logical_physical of the '
    'FRU device locator, channel number of the sensor record key dropped): *_counterexample theorems are about the '
    'frozen variants; the generated expressions and tables are equated with Variant.intended (gen_*, '
    'bcd_plus_sdr_table); the run probes the real code with one witness per flag, so a present / returning defect is '
    'reported with a concrete input while the gen_* theorems stop building',
]
TRUSTED = ['harness/translate/sdr.py', 'harness/translate/sdrexpr.py', 'harness/props/c16.py', 'harness/sdr_common.py']

CLASS_OF_KIND = ['SdrFullSensorRecord', 'SdrCompactSensorRecord', 'SdrEventOnlySensorRecord',
                 'SdrFruDeviceLocator', 'SdrManagementControllerDeviceLocator',
                 'SdrManagementControllerConfirmationRecord', 'SdrOEMSensorRecord', 'SdrUnknownSensorRecord']

INIT_MASK = {'scanning': 0x40, 'events': 0x20, 'thresholds': 0x10, 'hysteresis': 0x08, 'type': 0x04,
             'default_event_generation': 0x02, 'default_scanning': 0x01}
ANALOG_MASK = {'nominal_reading': 0x01, 'normal_max': 0x02, 'normal_min': 0x04}
# the model's codes for the strings of _decode_capabilities (0x100 + (c & 0x30), 0x200 + (c & 0x0c))
CAP_CODE = {'ignore_sensor': 0x80, 'auto_rearm': 0x40,
            'hysteresis_not_supported': 0x100, 'hysteresis_readable': 0x110,
            'hysteresis_read_and_setable': 0x120, 'hysteresis_fixed': 0x130,
            'threshold_not_supported': 0x200, 'threshold_readable': 0x208,
            'threshold_read_and_setable': 0x204, 'threshold_fixed': 0x20c}

# signatures of the deviations carried as Variant flags (order = flag order of the driver)
FLAG_SIG = ['C16:full:accuracy', 'C16:full:rate_unit', 'C16:full:modifier_unit',
            'C16:idstring:type-code', 'C16:idstring:bcdplus', 'C16:idstring:6bit-partial-group',
            'C16:idstring:bcdplus-sdr-codes', 'C16:fru-locator:channel_number + C16:mc-confirmation:channel_number',
            'C16:fru-locator:logical_physical + access_lun + private_bus_id',
            'C16:full:channel_number + C16:compact:channel_number + C16:event-only:channel_number']
NFLAGS = len(FLAG_SIG)
IDEAL = '0' * NFLAGS

_tab = None


def translate(ctx):
    global _tab
    _tab = sdr_t.generate()
    # every bit expression of the parser, re-translated from the AST (Gen/SdrExpr.lean; theorems gen_*)
    names = sdrexpr.generate('C16')
    ctx.extra['generated_expressions'] = names
    ctx.extra['generated_expression_count'] = sum(len(v) for v in names.values())


# ---------------------------------------------------------------------------------------------
# real code

def _container(data, how):
    if how == 'tuple':
        return tuple(data)
    if how == 'bytes':
        return bytes(bytearray(data))
    if how == 'array':
        return array.array('B', data)
    return list(data)


def _show(v):
    if isinstance(v, (list, tuple)):
        return '[' + ','.join(str(x) for x in v) + ']'
    return str(v)


def _attr(obj, name):
    """Canonical value of attribute `name` (the vocabulary of the driver's field list)."""
    try:
        if '.' in name:
            d, k = name.split('.')
            v = getattr(obj, d)[k]
        else:
            v = getattr(obj, name)
    except (AttributeError, KeyError):
        return 'MISSING'
    cls = type(obj).__name__
    if name == 'initialization':
        return _show([INIT_MASK.get(s, 'str:' + str(s)) for s in v])
    if name == 'analog_characteristic':
        return _show([ANALOG_MASK.get(s, 'str:' + str(s)) for s in v])
    if name == 'capabilities' and cls == 'SdrFullSensorRecord':
        return _show([CAP_CODE.get(s, 'str:' + str(s)) for s in v])
    if name == 'device_id_string':
        if not isinstance(v, str):
            return 'type:' + type(v).__name__
        return _show([ord(c) for c in v])
    if isinstance(v, bool) or not isinstance(v, int):
        return 'type:%s:%r' % (type(v).__name__, v)
    return str(v)


def parse_real(data, how='list'):
    """('ok', obj) | ('err', exception class name)"""
    from pyipmi.sdr import SdrCommon
    try:
        return ('ok', SdrCommon.from_data(_container(data, how)))
    except Exception as e:  # noqa
        return ('err', type(e).__name__)


def _fields(s):
    """'a=1 b=[1,2]' -> ordered [(name, value string)]"""
    out = []
    for tok in s.split(' '):
        if tok:
            k, _, v = tok.partition('=')
            out.append((k, v))
    return out


def _err_tag(name):
    return 'DecodingError' if name == 'DecodingError' else 'py:' + name


# ---------------------------------------------------------------------------------------------
# hand-built probe records (bytes written out from table 43-1; no library or driver helper)

def _probe_full(units1=0, b_acc=0, acc_exp=0, idbytes=(0xC1, 0x41), key7=0x00):
    body = [0x20, key7, 0x01, 0x07, 0x60, 0x7f, 0x00, 0x01, 0x01,
            0, 0, 0, 0, 0, 0, units1, 0, 0, 0,
            1, 0, 0, b_acc, acc_exp, 0, 0,
            0, 0, 0, 0, 0, 0, 0, 0, 0, 0, 0, 0, 0, 0, 0, 0]
    assert len(body) == 42
    rest = body + list(idbytes)
    return [0x01, 0x00, 0x51, 0x01, len(rest)] + rest


def _probe_fru(ch_byte=0x70, access_byte=0x80):
    """FRU device locator, table 43-7, written out by hand; byte 8 = access_byte, byte 9 = ch_byte."""
    rest = [0x20, 0x01, access_byte, ch_byte, 0x00, 0x10, 0x02, 0xc2, 0x61, 0x00, 0xC1, 0x46]
    return [0x02, 0x00, 0x51, 0x11, len(rest)] + rest


def _probe_conf(ch_byte=0x25):
    """MC confirmation record, table 43-9, written out by hand; byte 8 = ch_byte."""
    rest = [0x20, 0x00, ch_byte, 0x02, 0x01, 0x51, 0x4a, 0xc1, 0x02, 0x06, 0x80] + [0] * 16
    return [0x45, 0x00, 0x51, 0x13, len(rest)] + rest


def probe():
    """Which Variant flags does the working tree show?  list of 0 (intended) / 1 (as shipped) / None."""
    def get(data, name):
        r = parse_real(data, 'array')
        if r[0] != 'ok':
            return r
        return ('ok', getattr(r[1], name, 'MISSING'))
    out, raw = [], []

    def decide(val, intended, shipped):
        raw.append(val)
        out.append(0 if val == intended else 1 if val == shipped else None)
    decide(get(_probe_full(acc_exp=0x10), 'accuracy'), ('ok', 64), ('ok', 256))
    decide(get(_probe_full(units1=0x38), 'rate_unit'), ('ok', 7), ('ok', 0))
    decide(get(_probe_full(units1=0x06), 'modifier_unit'), ('ok', 3), ('ok', 2))
    decide(get(_probe_full(), 'device_id_string_type'), ('ok', 3), ('ok', 12))
    decide(get(_probe_full(idbytes=(0x41, 0x12)), 'device_id_string'), ('ok', '12'), ('err', 'AttributeError'))
    decide(get(_probe_full(idbytes=(0x81, 0x21)), 'device_id_string'), ('ok', 'A'), ('err', 'IndexError'))
    # BCD plus "1:" (nibbles 1h, Dh): the sixteen codes of section 43.15 vs the 13-entry FRU table
    decide(get(_probe_full(idbytes=(0x41, 0x1D)), 'device_id_string'), ('ok', '1:'), ('err', 'ValueError'))
    # channel 7 in byte 9 [7:4] of the FRU device locator; channel 2 / device revision 5 in byte 8 of the confirmation record
    decide((get(_probe_fru(0x70), 'channel_number'), get(_probe_conf(0x25), 'channel_number')),
           (('ok', 7), ('ok', 2)), (('ok', 112), ('ok', 37)))
    # key byte 8 of the FRU device locator = 95h: logical (bit 7), access LUN 2 ([4:3]), private bus id 5 ([2:0])
    a = _probe_fru(access_byte=0x95)
    decide((get(a, 'logical_physical'), get(a, 'access_lun'), get(a, 'private_bus_id')),
           (('ok', 1), ('ok', 2), ('ok', 5)), (('ok', 0x95), ('ok', 'MISSING'), ('ok', 'MISSING')))
    # key byte 7 of a sensor record = 52h: channel number 5 ([7:4]), owner LUN 2 ([1:0])
    k = _probe_full(key7=0x52)
    decide((get(k, 'channel_number'), get(k, 'owner_lun')), (('ok', 5), ('ok', 2)), (('ok', 'MISSING'), ('ok', 2)))
    return out, raw


# ---------------------------------------------------------------------------------------------
# generators of abstract records (arguments of the driver's `spec` op)

def _u(rng, bits):
    return rnglib.boundary_int(rng, bits)


def _below(rng, n):
    """boundary-biased integer in [0, n)"""
    if rng.random() < 0.45:
        return rng.choice([0, 1, n - 1, max(n - 2, 0), n // 2, max(n // 2 - 1, 0)]) % n
    return rng.randrange(n)


def _s(rng, bits):
    lo, hi = -(1 << (bits - 1)), (1 << (bits - 1)) - 1
    if rng.random() < 0.5:
        return rng.choice([lo, lo + 1, -2, -1, 0, 1, 2, hi - 1, hi, -(1 << (bits - 2)), (1 << (bits - 2))])
    return rng.randrange(lo, hi + 1)


BCD_DIGITS = 16                 # section 43.15: all sixteen codes are characters of an SDR id string


def gen_id(rng, enc=None, n=None):
    enc = enc or rng.choice('ubsa')
    if n is None:
        n = rng.randrange(0, 17) if rng.random() < 0.85 else rng.randrange(17, 31)
    if enc == 'b':
        n -= n % 2                      # two digits per byte
        vals = [rng.choice((13, 14, 15, 10, 11, 12)) if rng.random() < 0.35 else rng.randrange(BCD_DIGITS) for _ in range(n)]
    elif enc == 's':
        vals = [_below(rng, 64) for _ in range(n)]
    elif enc == 'a':
        vals = [rng.randrange(0x20, 0x7f) if rng.random() < 0.7 else _below(rng, 256) for _ in range(n)]
    else:
        vals = [_below(rng, 256) for _ in range(n)]
    return '%s:%s' % (enc, ','.join(str(v) for v in vals) if vals else '-')


def gen_full(rng, ids=None, **over):
    f = dict(
        rid=_u(rng, 16), ver=rng.choice([0x51, 0x51, 0x51, _u(rng, 8)]), oid=_u(rng, 8), ch=_below(rng, 16),
        lun=_below(rng, 4), num=_u(rng, 8), eid=_u(rng, 8), einst=_u(rng, 8), ini=_u(rng, 8), cap=_u(rng, 8),
        st=_u(rng, 8), et=_u(rng, 8), am=_u(rng, 16), dm=_u(rng, 16), rm=_u(rng, 16), fmt=_below(rng, 4),
        rate=_below(rng, 8), mod=_below(rng, 4), pct=_below(rng, 2), bu=_u(rng, 8), mu=_u(rng, 8),
        lin=_below(rng, 128), m=_s(rng, 10), tol=_below(rng, 64), b=_s(rng, 10),
        acc=rng.choice([63, 64, 65, 127, 128, 255, 256, 512, 1023]) if rng.random() < 0.4 else rng.randrange(1024),
        accx=_below(rng, 4), dir=_below(rng, 4), rexp=_s(rng, 4), bexp=_s(rng, 4), af=_below(rng, 8),
        nom=_u(rng, 8), nmax=_u(rng, 8), nmin=_u(rng, 8), smax=_u(rng, 8), smin=_u(rng, 8),
        unr=_u(rng, 8), ucr=_u(rng, 8), unc=_u(rng, 8), lnr=_u(rng, 8), lcr=_u(rng, 8), lnc=_u(rng, 8),
        ph=_u(rng, 8), nh=_u(rng, 8), oem=_u(rng, 8))
    f.update(over)
    order = ['rid', 'ver', 'oid', 'ch', 'lun', 'num', 'eid', 'einst', 'ini', 'cap', 'st', 'et', 'am', 'dm', 'rm',
             'fmt', 'rate', 'mod', 'pct', 'bu', 'mu', 'lin', 'm', 'tol', 'b', 'acc', 'accx', 'dir', 'rexp', 'bexp',
             'af', 'nom', 'nmax', 'nmin', 'smax', 'smin', 'unr', 'ucr', 'unc', 'lnr', 'lcr', 'lnc', 'ph', 'nh', 'oem']
    return 'spec full %s %s' % (' '.join(str(f[k]) for k in order), ids or gen_id(rng)), f


def gen_compact(rng, ids=None, ch=None, lun=None):
    v = [_u(rng, 16), rng.choice([0x51, _u(rng, 8)]), _u(rng, 8), _below(rng, 16) if ch is None else ch,
         _below(rng, 4) if lun is None else lun, _u(rng, 8),
         _u(rng, 8), _u(rng, 8), _u(rng, 8), _u(rng, 8), _u(rng, 8), _u(rng, 8), _u(rng, 16), _u(rng, 16),
         _u(rng, 16), _u(rng, 8), _u(rng, 8), _u(rng, 8), _u(rng, 16), _u(rng, 8), _u(rng, 8), _u(rng, 8)]
    return 'spec compact %s %s' % (' '.join(map(str, v)), ids or gen_id(rng)), None


def gen_event(rng, ids=None, ch=None, lun=None):
    v = [_u(rng, 16), rng.choice([0x51, _u(rng, 8)]), _u(rng, 8), _below(rng, 16) if ch is None else ch,
         _below(rng, 4) if lun is None else lun, _u(rng, 8),
         _u(rng, 8), _u(rng, 8), _u(rng, 8), _u(rng, 8), _u(rng, 16), _u(rng, 8)]
    return 'spec event %s %s' % (' '.join(map(str, v)), ids or gen_id(rng)), None


def gen_fru(rng, ids=None, ch=None, chlow=None, access=None):
    """access = (logical/physical flag, access LUN, private bus id) of key byte 8"""
    lg, alun, bus = access if access is not None else (_below(rng, 2), _below(rng, 4), _below(rng, 8))
    v = [_u(rng, 16), rng.choice([0x51, _u(rng, 8)]), _u(rng, 7), _u(rng, 8), lg, alun, bus,
         _below(rng, 16) if ch is None else ch, _below(rng, 16) if chlow is None else chlow, _u(rng, 8),
         _u(rng, 8), _u(rng, 8), _u(rng, 8), _u(rng, 8)]
    return 'spec fru %s %s' % (' '.join(map(str, v)), ids or gen_id(rng)), None


def gen_mc(rng, ids=None):
    v = [_u(rng, 16), rng.choice([0x51, _u(rng, 8)]), _u(rng, 7), _below(rng, 16), _u(rng, 8), _u(rng, 8),
         _u(rng, 8), _u(rng, 8), _u(rng, 8)]
    return 'spec mc %s %s' % (' '.join(map(str, v)), ids or gen_id(rng)), None


def gen_conf(rng, ch=None, rev=None):
    v = [_u(rng, 16), rng.choice([0x51, _u(rng, 8)]), _u(rng, 7), _u(rng, 8),
         _below(rng, 16) if ch is None else ch, _below(rng, 16) if rev is None else rev, _u(rng, 8), _u(rng, 8),
         _u(rng, 8), _u(rng, 20), _u(rng, 16)]
    guid = [_below(rng, 256) for _ in range(16)]
    return 'spec conf %s %s' % (' '.join(map(str, v)), ','.join(map(str, guid))), None


def gen_opaque(rng, ty=None, body=None):
    if ty is None:
        ty = 0xC0 if rng.random() < 0.5 else rng.choice([0x08, 0x09, 0x10, 0x14, 0x00, 0xff, 0xC1, 0xBF, 0x04])
    if body is None:
        n = rng.randrange(3 if ty == 0xC0 else 0, 40)
        body = [_below(rng, 256) for _ in range(n)]
    return 'spec opaque %d %d %d %s' % (_u(rng, 16), 0x51, ty, lean.hexs(body)), None


GEN_WITH_ID = {'full': gen_full, 'compact': gen_compact, 'event': gen_event, 'fru': gen_fru, 'mc': gen_mc}


# ---- 8-bit id strings (type 11b "8-bit ASCII + Latin 1" and type 00b): one character per byte, EVERY byte value
# is a character and a backslash is a character like any other.  Printable text that some decoder could take for
# an escape sequence (raw_unicode_escape, unicode_escape, string_escape, %-formatting, str.format, XML/HTML
# entities), complete / truncated / out of range / after an even and an odd run of backslashes:
ESCAPE_POOL = [
    b'PSU\\u00b0C', b'\\u0041', b'C:\\usb0 5V', b'slot\\U0001F600', b'\\U', b'\\u', b'a\\U0001', b'\\U00110000', b'\\ud800',
    b'x\\\\\\u0041', b'y\\\\u0041', b'trailing\\', b'\\', b'\\\\', b'a\\nb', b'\\x41', b'\\x4', b'\\101', b'\\t\\r\\0', b'\\N{DEGREE SIGN}',
    b'\\N{', b'100%', b'%s %d', b'%(a)s', b'{0} {}', b'{', b'&#176;C', b'&amp;', b'\xb0C \\u00b0', b'\xff\\u00ff\x00',
    b'\\u00b0\\u00b0', b'\\\\u', b'\\u 0041', b'\\uD83D\\uDE00', b'abcdefghij\\u0041', b'\\u0041\\', b'\\"\\\'',
]
assert all(len(x) <= 16 for x in ESCAPE_POOL)


def id_of_bytes(enc, raw):
    return '%s:%s' % (enc, ','.join(str(b) for b in bytearray(raw)) if raw else '-')


def latin_square_ids(enc, shift):
    """256 strings of 16 bytes in which every position takes every one of the 256 byte values."""
    return [id_of_bytes(enc, bytes(((k + 53 * p + shift) % 256) for p in range(16))) for k in range(256)]


def all_pairs_ids(enc):
    """Every ordered pair of byte values adjacent somewhere: the cyclic sequence 0 0 | 0 1 1 0 | ... built as
    an Eulerian circuit of the complete digraph on 256 values (65 536 edges) cut into 16-byte windows that
    overlap by one byte."""
    n = 256
    # Hierholzer on the complete digraph with loops: next unused successor per vertex
    nxt = [0] * n
    stack, circuit = [0], []
    while stack:
        v = stack[-1]
        if nxt[v] < n:
            w = nxt[v]
            nxt[v] += 1
            stack.append(w)
        else:
            circuit.append(stack.pop())
    circuit.reverse()                       # 65 537 vertices, consecutive ones = every edge once
    out = []
    for i in range(0, len(circuit) - 1, 15):
        out.append(id_of_bytes(enc, bytes(circuit[i:i + 16])))
    return out


# ---------------------------------------------------------------------------------------------
# judging

class _Run(object):
    def __init__(self, ctx, drv, flags):
        self.ctx = ctx
        self.drv = drv
        self.flags = flags
        self.flagstr = ''.join('1' if f else '0' for f in flags)
        self.sig_seen = set()
        self.kept = []      # (obj, kind, want, case, id_enc, data, how): parsed results kept alive and re-read later

    def recheck(self):
        """Every kept result is read again after all the later parses: a record object must keep the
        values of ITS record (no state shared between parsed records: class-level containers, caches)."""
        ctx = self.ctx
        for idx, (obj, kind, want, case, id_enc, data, how) in enumerate(self.kept):
            ctx.case(('recheck', bytes(bytearray(data)), how))
            ctx.count('stream:re-read-after-later-parses')
            for k, v in want:
                o = _attr(obj, k)
                if o != v:
                    same = [x for x in self.kept[idx + 1:] if x[1] == kind]
                    same = same[:2] + same[-2:]          # the next ones and the last ones of the same class
                    c = dict(case)
                    c['later'] = [x[3]['spec'] for x in same]
                    c['later_container'] = [x[6] for x in same]
                    self.violate(self._signature(kind, k, id_enc) + ':changed-by-later-parse',
                                 '%s.%s read %s right after parsing and reads %s after later records were parsed '
                                 '(state shared between parsed records)' % (kind, k, v, o), c,
                                 '%s=%s' % (k, v), '%s=%s' % (k, o))
                    break

    def violate(self, sig, what, case, expected, observed):
        self.ctx.count('violations:' + sig)
        if sig not in self.sig_seen:
            self.sig_seen.add(sig)
            self.ctx.violate(sig, what, case, expected=expected, observed=observed)

    def _signature(self, kind, name, id_enc, real_err=None):
        short = {'SdrFullSensorRecord': 'full', 'SdrCompactSensorRecord': 'compact',
                 'SdrEventOnlySensorRecord': 'event-only', 'SdrFruDeviceLocator': 'fru-locator',
                 'SdrManagementControllerDeviceLocator': 'mc-locator',
                 'SdrManagementControllerConfirmationRecord': 'mc-confirmation',
                 'SdrOEMSensorRecord': 'oem', 'SdrUnknownSensorRecord': 'unknown'}.get(kind, kind)
        if real_err is not None:
            if id_enc == 'b' and real_err == 'AttributeError':
                return 'C16:idstring:bcdplus'
            if id_enc == 'b' and real_err in ('ValueError', 'IndexError'):
                return 'C16:idstring:bcdplus-sdr-codes'
            if id_enc == 's' and real_err == 'IndexError':
                return 'C16:idstring:6bit-partial-group'
            return 'C16:%s:raises:%s' % (short, real_err)
        if name == 'device_id_string_type':
            return 'C16:idstring:type-code'
        if name.startswith('device_id_string'):
            return 'C16:idstring:%s:%s' % ({'u': 'unicode', 'b': 'bcdplus', 's': '6bit', 'a': 'ascii8'}.get(id_enc, '?'), name)
        return 'C16:%s:%s' % (short, name)

    def judge(self, stream, spec_lines, how_cycle=('list', 'array', 'bytes', 'tuple'), tie_only=False):
        """spec_lines: driver `spec …` requests.  Encodes with the specification, parses with the real
        code and the model, compares."""
        ctx = self.ctx
        specs = self.drv.ask_many(spec_lines)
        good = []
        for line, ans in zip(spec_lines, specs):
            if not ans.startswith('ok '):
                ctx.notes.append('generator produced a record outside the specification (%s): %s' % (ans, line[:120]))
                continue
            _, hx, kind, fields = (ans.split(' ', 3) + [''])[:4]
            good.append((line, hx, kind, fields))
        models = self.drv.ask_many(['parse %s %s' % (self.flagstr, hx) for _, hx, _, _ in good])
        ideals = self.drv.ask_many(['parse %s %s' % (IDEAL, hx) for _, hx, _, _ in good])
        for i, ((line, hx, kind, fields), model, ideal) in enumerate(zip(good, models, ideals)):
            how = how_cycle[i % len(how_cycle)]
            data = list(lean.unhex(hx))
            self.one(stream, line, data, how, kind, fields, model, ideal, tie_only)

    def one(self, stream, line, data, how, kind, fields, model, ideal, tie_only=False):
        ctx = self.ctx
        case = {'stream': stream, 'spec': line, 'container': how}
        toks = line.split(' ')
        id_enc = toks[-1][0] if ':' in toks[-1] else None
        ctx.case(bytes(bytearray(data)), nontrivial=len(data) > 5)
        ctx.count('stream:' + stream)
        ctx.count('kind:' + kind)
        ctx.count('container:' + how)
        if id_enc:
            n = 0 if toks[-1].endswith(':-') else toks[-1].count(',') + 1
            ctx.count('id:%s:%s' % ({'u': 'unicode', 'b': 'bcdplus', 's': '6bit', 'a': 'ascii8'}[id_enc],
                                    'len0' if n == 0 else 'len1-8' if n <= 8 else 'len9-16' if n <= 16 else 'len17+'))
            if id_enc == 'b' and n and any(int(d) >= 13 for d in toks[-1][2:].split(',')):
                ctx.count('id:bcdplus:codes-D/E/F:' + kind)
        if kind in ('SdrFruDeviceLocator', 'SdrManagementControllerConfirmationRecord') and toks[1] in ('fru', 'conf'):
            ch, low = (int(toks[9]), int(toks[10])) if toks[1] == 'fru' else (int(toks[6]), int(toks[7]))
            ctx.count('channel:%s:%s' % (toks[1], 'low-nibble-nonzero' if low else 'low-nibble-zero'))
            ctx.extra.setdefault('channel_nibbles_seen', {}).setdefault(toks[1], set()).add(ch)
        if toks[1] == 'fru' and kind == 'SdrFruDeviceLocator':
            ctx.extra.setdefault('fru_access_bytes_seen', set()).add((int(toks[6]), int(toks[7]), int(toks[8])))
        if toks[1] in ('full', 'compact', 'event') and kind.endswith('SensorRecord'):
            ctx.extra.setdefault('sensor_key_channel_lun_seen', {}).setdefault(toks[1], set()).add(
                (int(toks[5]), int(toks[6])))
        want = _fields(fields)
        # ---- theorem instance: the intended model equals the specification's view
        ideal_fields = ideal[3:].split(' | ')[0] if ideal.startswith('ok ') else ideal
        opaque_as_typed = line.startswith('spec opaque') and kind not in ('SdrOEMSensorRecord', 'SdrUnknownSensorRecord')
        if (not ideal_fields.startswith('%s %s' % (kind, fields))) if opaque_as_typed else \
                (ideal_fields != '%s %s' % (kind, fields)):
            ctx.disagree('model(intended) differs from Spec view (instance of parse_encode)', case,
                         ideal_fields[:300], ('%s %s' % (kind, fields))[:300])
        real = parse_real(data, how)
        # ---- tie: real code vs model (probed variant), including the model-only attributes
        if model.startswith('ok '):
            mkind, _, mrest = model[3:].partition(' ')
            mf, _, mx = mrest.partition(' | ')
            mfields = _fields(mf) + _fields(mx)
            if real[0] != 'ok':
                ctx.disagree('parse-outcome', case, 'ok', _err_tag(real[1]))
            else:
                if type(real[1]).__name__ != mkind:
                    ctx.disagree('parse-class', case, mkind, type(real[1]).__name__)
                bad = [(k, v, _attr(real[1], k)) for k, v in mfields if _attr(real[1], k) != v]
                if bad:
                    ctx.disagree('parse-attributes', case, ' '.join('%s=%s' % (k, v) for k, v, _ in bad),
                                 ' '.join('%s=%s' % (k, o) for k, _, o in bad))
        else:
            code = _err_tag(real[1]) if real[0] == 'err' else 'ok'
            if code != model:
                ctx.disagree('parse-outcome', case, model, code)
        if tie_only:
            return
        # ---- property: real code vs the specification's view
        if real[0] != 'ok':
            self.violate(self._signature(kind, None, id_enc, real[1]),
                         'parsing a well-formed %s raises %s' % (kind, real[1]), case, 'ok ' + kind, real[1])
            return
        obj = real[1]
        if type(obj).__name__ != kind:
            self.violate('C16:dispatch:type=0x%02x' % data[3],
                         'record type 0x%02x must be parsed as %s, got %s' % (data[3], kind, type(obj).__name__),
                         case, kind, type(obj).__name__)
            return
        clean = True
        for k, v in want:
            o = _attr(obj, k)
            if o != v:
                clean = False
                self.violate(self._signature(kind, k, id_enc),
                             '%s.%s is %s, the encoded record says %s' % (kind, k, o, v), case,
                             '%s=%s' % (k, v), '%s=%s' % (k, o))
        if clean and stream != 'replay' and (len(self.kept) < 600 or ctx.evaluations % 7 == 0) and len(self.kept) < 3000:
            self.kept.append((obj, kind, want, case, id_enc, data, how))


# ---------------------------------------------------------------------------------------------

def _witnesses(run, rng):
    """One minimal, directed record per split field / deviation; first, so that they become the replays."""
    base = dict(rid=1, ver=0x51, oid=0x20, ch=0, lun=0, num=1, eid=7, einst=0x60, ini=0x7f, cap=0, st=1, et=1,
                am=0, dm=0, rm=0, fmt=0, rate=0, mod=0, pct=0, bu=0, mu=0, lin=0, m=1, tol=0, b=0, acc=0, accx=0,
                dir=0, rexp=0, bexp=0, af=0, nom=0, nmax=0, nmin=0, smax=0, smin=0, unr=0, ucr=0, unc=0, lnr=0,
                lcr=0, lnc=0, ph=0, nh=0, oem=0)
    # key byte 8 of the FRU device locator: [7] logical/physical flag, [4:3] access LUN, [2:0] private bus id - a
    # PHYSICAL device on private bus 3 first (the flag must read 0), then flag + LUN + bus id all non-zero
    lines = [gen_fru(rng, ids='a:70', ch=0, chlow=0, access=(0, 0, 3))[0],
             gen_fru(rng, ids='a:70', ch=7, chlow=0, access=(1, 2, 5))[0],
             gen_fru(rng, ids='a:70', ch=0, chlow=0, access=(0, 3, 0))[0],
             gen_fru(rng, ids='a:70', ch=15, chlow=0, access=(1, 3, 7))[0]]
    run.judge('witness', lines, how_cycle=('array',))
    # key byte 7 of the three sensor records: [7:4] channel number, [1:0] owner LUN
    f = dict(base)
    f.update(ch=5, lun=1)
    lines = [gen_full(rng, ids='a:65', **f)[0], gen_compact(rng, ids='a:65', ch=5, lun=1)[0],
             gen_event(rng, ids='a:65', ch=5, lun=1)[0], gen_compact(rng, ids='a:65', ch=15, lun=0)[0],
             gen_event(rng, ids='a:65', ch=8, lun=3)[0]]
    run.judge('witness', lines, how_cycle=('array',))
    lines = []
    for over in (dict(acc=64), dict(acc=1023), dict(rate=1), dict(rate=7), dict(mod=1), dict(mod=3),
                 dict(fmt=3, rate=7, mod=3, pct=1), dict(m=-1), dict(m=-512), dict(m=511), dict(b=-1), dict(b=-512),
                 dict(b=511, acc=63), dict(rexp=-8, bexp=7), dict(rexp=7, bexp=-8), dict(rexp=-1, bexp=-1),
                 dict(tol=63, m=-257), dict(accx=3, dir=3), dict(ch=15, lun=3), dict(lin=127),
                 dict(am=0xff00, dm=0x00ff, rm=0x8001)):
        f = dict(base)
        f.update(over)
        lines.append(gen_full(rng, ids='a:65', **f)[0])
    run.judge('witness', lines, how_cycle=('array',))
    lines = []
    for ids in ('a:65,66', 'u:65,0,66', 'b:1,2', 'b:-', 'b:0,9,10,11,12,0', 's:33', 's:33,34', 's:1,2,3', 's:1,2,3,4',
                's:1,2,3,4,5', 's:-', 'a:-'):
        f = dict(base)
        lines.append(gen_full(rng, ids=ids, **f)[0])
    run.judge('witness', lines, how_cycle=('array',))
    # BCD plus with the codes Dh ':', Eh ',', Fh '_' (section 43.15) in the high and in the low nibble, on every
    # record type that has an id string
    lines = []
    for name, g in sorted(GEN_WITH_ID.items()):
        for ids in ('b:1,13', 'b:1,2,13,3,0,14,5,15', 'b:13,0,14,0,15,0', 'b:15,15'):
            lines.append(g(rng, ids=ids)[0])
    run.judge('witness', lines, how_cycle=('array', 'list'))
    # the channel number is bits [7:4] of byte 9 (FRU device locator; [3:0] reserved) / of byte 8 (MC
    # confirmation record; [3:0] device revision)
    lines = [gen_fru(rng, ids='a:70', ch=7, chlow=0)[0], gen_conf(rng, ch=2, rev=5)[0],
             gen_fru(rng, ids='a:70', ch=0, chlow=9)[0], gen_conf(rng, ch=0, rev=1)[0],
             gen_fru(rng, ids='a:70', ch=15, chlow=15)[0], gen_conf(rng, ch=15, rev=15)[0]]
    run.judge('witness', lines, how_cycle=('array',))


def run(ctx):
    drv = sdr_common.fast(ctx, 'drv_c16')
    flags, raw = probe()
    ctx.extra['variant_probed'] = dict(
        (sig, {0: 'intended', 1: 'asShipped', None: 'neither: %r' % (r,)}[f]) for sig, f, r in zip(FLAG_SIG, flags, raw))
    ctx.extra['sdr_bcd_table_source'] = (_tab or {}).get('sdr_bcd_source')
    run_ = _Run(ctx, drv, [f or 0 for f in flags])
    rng = ctx.rng('c16')
    big = ctx.tier == 'thorough'

    _witnesses(run_, rng)

    # ---- dispatch: all 256 type bytes, body of zeros long enough for every class
    run_.judge('dispatch', ['spec opaque %d 81 %d %s' % (ty + 1, ty, '00' * 60) for ty in range(256)])

    # ---- id strings: every encoding x every length 0..16 (+ longer) on every type that has one
    lines = []
    for name, g in sorted(GEN_WITH_ID.items()):
        for enc in 'ubsa':
            for n in list(range(0, 17)) + [17, 20, 24, 29, 30]:
                lines.append(g(rng, ids=gen_id(rng, enc, n))[0])
    run_.judge('id-strings', lines)

    # ---- 8-bit id strings: (a) the escape pool on every record type x both byte-per-character encodings x every
    #      container, at the front, in the middle and at the end of the string; (b) every byte value in every one of
    #      the 16 positions; (c) every ordered pair of adjacent byte values
    lines = []
    for name, g in sorted(GEN_WITH_ID.items()):
        for enc in 'au':
            for raw in ESCAPE_POOL:
                lines.append(g(rng, ids=id_of_bytes(enc, raw))[0])
                room = 16 - len(raw)
                if room >= 2:
                    pre = bytes(rng.randrange(0x20, 0x7f) for _ in range(rng.randrange(1, room)))
                    lines.append(g(rng, ids=id_of_bytes(enc, pre + raw))[0])
                    lines.append(g(rng, ids=id_of_bytes(enc, (pre + raw).ljust(16, b'.')))[0])
    for k in range(4):      # each (type, encoding) line with each of the four containers
        run_.judge('id-8bit-escape-pool', lines[k::4], how_cycle=(('list', 'array', 'bytes', 'tuple')[k:] +
                                                                   ('list', 'array', 'bytes', 'tuple')[:k]))
    lines = []
    for j, (name, g) in enumerate(sorted(GEN_WITH_ID.items())):
        for enc in 'au':
            lines += [g(rng, ids=i)[0] for i in latin_square_ids(enc, 7 * j + (3 if enc == 'u' else 0))]
    run_.judge('id-8bit-every-byte-every-position', lines)
    names = sorted(GEN_WITH_ID)
    combos = [(nm, enc) for nm in names for enc in 'au']
    todo = combos if big else [combos[ctx.seed % len(combos)], combos[(ctx.seed + 5) % len(combos)]]
    for nm, enc in todo:
        lines = [GEN_WITH_ID[nm](rng, ids=i)[0] for i in all_pairs_ids(enc)]
        for j in range(0, len(lines), 1000):
            run_.judge('id-8bit-every-adjacent-pair', lines[j:j + 1000])
        if ctx.time_left() < 60:
            ctx.notes.append('adjacent-pair stream cut by the time budget')
            break

    # ---- every channel nibble x low nibble (reserved bits of the FRU device locator, device revision of the
    #      MC confirmation record)
    lines = []
    for ch in range(16):
        for low in (0, 1, 5, 10, 15):
            lines.append(gen_fru(rng, ch=ch, chlow=low)[0])
            lines.append(gen_conf(rng, ch=ch, rev=low)[0])
    run_.judge('channel-nibbles', lines)

    # ---- key byte 8 of the FRU device locator: all 2 x 4 x 8 combinations of flag, access LUN, private bus id
    run_.judge('fru-access-byte', [gen_fru(rng, access=(lg, alun, bus))[0]
                                   for lg in range(2) for alun in range(4) for bus in range(8)])

    # ---- key byte 7 of the sensor records: all 16 channel numbers x 4 owner LUNs on each of the three types
    lines = []
    for ch in range(16):
        for lun in range(4):
            lines.append(gen_full(rng, ch=ch, lun=lun)[0])
            lines.append(gen_compact(rng, ch=ch, lun=lun)[0])
            lines.append(gen_event(rng, ch=ch, lun=lun)[0])
    run_.judge('sensor-key-channel', lines)

    # ---- seeded records of every type
    n = 1 if not big else 12
    lines = [gen_full(rng)[0] for _ in range(900 * n)]
    lines += [gen_compact(rng)[0] for _ in range(250 * n)]
    lines += [gen_event(rng)[0] for _ in range(200 * n)]
    lines += [gen_fru(rng)[0] for _ in range(200 * n)]
    lines += [gen_mc(rng)[0] for _ in range(200 * n)]
    lines += [gen_conf(rng)[0] for _ in range(200 * n)]
    lines += [gen_opaque(rng)[0] for _ in range(150 * n)]
    for j in range(0, len(lines), 500):
        run_.judge('seeded', lines[j:j + 500])
        if ctx.time_left() < 30:
            ctx.notes.append('seeded stream cut by the time budget after %d of %d records' % (j + 500, len(lines)))
            break

    # ---- truncations / extensions of sample records: error kinds and laxness (tie only)
    samples = [gen_full(rng, ids='a:65,66,67')[0], gen_compact(rng, ids='s:1,2,3,4')[0], gen_event(rng, ids='a:-')[0],
               gen_fru(rng, ids='u:1,2')[0], gen_mc(rng, ids='a:65')[0], gen_conf(rng)[0],
               gen_opaque(rng, 0xC0, [1, 2, 3, 4])[0], gen_opaque(rng, 0x08, [1, 2])[0]]
    if big:
        samples += [g(rng)[0] for g in (gen_full, gen_compact, gen_event, gen_fru, gen_mc) for _ in range(6)]
    _truncations(run_, drv, samples)
    run_.recheck()
    ctx.extra['kept_results_re_read'] = len(run_.kept)
    ctx.extra['channel_nibbles_seen'] = dict((k, sorted(v)) for k, v in ctx.extra.get('channel_nibbles_seen', {}).items())
    ctx.extra['fru_access_bytes_seen'] = len(ctx.extra.get('fru_access_bytes_seen', ()))
    ctx.extra['sensor_key_channel_lun_seen'] = dict(
        (k, len(v)) for k, v in ctx.extra.get('sensor_key_channel_lun_seen', {}).items())
    ctx.extra['signatures_seen'] = sorted(run_.sig_seen)


def _truncations(run_, drv, spec_lines):
    ctx = run_.ctx
    for line, ans in zip(spec_lines, drv.ask_many(spec_lines)):
        if not ans.startswith('ok '):
            continue
        hx = ans.split(' ')[1]
        data = list(lean.unhex(hx))
        variants = [data[:k] for k in range(1, len(data))] + [data + [0xaa], data + [0x00, 0xff, 0x55]]
        models = drv.ask_many(['parse %s %s' % (run_.flagstr, lean.hexs(d)) for d in variants])
        for d, model in zip(variants, models):
            how = ('list', 'array', 'bytes', 'tuple')[len(d) % 4]
            case = {'stream': 'truncation', 'data': lean.hexs(d), 'container': how}
            ctx.case(('trunc', bytes(bytearray(d))), nontrivial=len(d) > 5)
            ctx.count('stream:truncation')
            real = parse_real(d, how)
            if model.startswith('ok '):
                mkind, _, mrest = model[3:].partition(' ')
                mf, _, mx = mrest.partition(' | ')
                ctx.count('truncation:ok')
                if real[0] != 'ok':
                    ctx.disagree('truncation-outcome', case, 'ok', _err_tag(real[1]))
                    continue
                bad = [(k, v, _attr(real[1], k)) for k, v in _fields(mf) + _fields(mx) if _attr(real[1], k) != v]
                if bad or type(real[1]).__name__ != mkind:
                    ctx.disagree('truncation-attributes', case, mkind + ' ' + ' '.join('%s=%s' % (k, v) for k, v, _ in bad),
                                 type(real[1]).__name__ + ' ' + ' '.join('%s=%s' % (k, o) for k, _, o in bad))
            else:
                ctx.count('truncation:' + model)
                code = _err_tag(real[1]) if real[0] == 'err' else 'ok'
                if code != model:
                    ctx.disagree('truncation-outcome', case, model, code)


def search(ctx):
    """A tie broke and run() saw no violation.  parse_encode_* prove that the intended model equals the
    specification's view; so, while the theorems still check, a disagreement between the real code and
    the model on a specification-encoded record with all probed flags `intended` would already have been
    reported as a violation by run().  What is left are disagreements on malformed input (laxness, error
    kinds), which the property does not judge."""
    if not ctx.lean_ok:
        ctx.notes.append('Lean obligations are broken; run() judged the real code against Spec.Sdr on every case')
    for d in ctx.disagreements:
        if d['what'].startswith('truncation'):
            ctx.notes.append('model and code differ on malformed input %s: %s vs %s' % (
                d['case'].get('data'), d['model'][:80], d['code'][:80]))


def replay(ctx, v):
    case = v['case']
    drv = sdr_common.fast(ctx, 'drv_c16')
    flags, _ = probe()
    c2 = ctx.__class__('C16', 'quick', 0)
    r2 = _Run(c2, drv, [f or 0 for f in flags])
    if 'spec' not in case:
        print('replay carries no specification record: %s' % (case,))
        return True
    ans = drv.ask(case['spec'])
    if not ans.startswith('ok '):
        print('specification rejects the record: %s' % ans)
        return True
    _, hx, kind, fields = (ans.split(' ', 3) + [''])[:4]
    data = list(lean.unhex(hx))
    how = case.get('container', 'list')
    print('record (%s as %s): %s' % (kind, how, hx))
    real = parse_real(data, how)
    if real[0] == 'ok':
        print('  real code: %s %s' % (type(real[1]).__name__,
                                     ' '.join('%s=%s' % (k, _attr(real[1], k)) for k, _ in _fields(fields))))
    else:
        print('  real code raises %s' % real[1])
    print('  Spec.Sdr : %s %s' % (kind, fields))
    r2.one('replay', case['spec'], data, how, kind, fields, drv.ask('parse %s %s' % (r2.flagstr, hx)),
           drv.ask('parse %s %s' % (IDEAL, hx)))
    if case.get('later') and real[0] == 'ok':
        keep = []
        for ln, hw in zip(case['later'], case.get('later_container') or ['list'] * len(case['later'])):
            a2 = drv.ask(ln)
            if a2.startswith('ok '):
                keep.append(parse_real(list(lean.unhex(a2.split(' ', 3)[1])), hw))
        print('  after parsing %d later record(s) the first result reads: %s' % (
            len(keep), ' '.join('%s=%s' % (k, _attr(real[1], k)) for k, _ in _fields(fields))))
        for k, want_v in _fields(fields):
            if _attr(real[1], k) != want_v:
                print('  VIOLATED: %s changed from %s to %s (state shared between parsed records)' % (
                    k, want_v, _attr(real[1], k)))
                return True
    for y in c2.violations:
        print('  VIOLATED: ' + y['what'])
    return v['signature'] in [y['signature'] for y in c2.violations]
