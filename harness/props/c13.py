"""C13 — Retry/reservation loops terminate and follow protocol for all outcome sequences."""
import inspect

from ..lib import lean
from ..sim import dev11
from ..translate import loops11

ID = 'C13'
TARGETS = ['PyIpmi.Props.C13', 'drv_c13']
LEVEL = 'proof'
RULE = ('the real helpers are called with scripted callables / a scripted interface; the outcome tree over the 7-letter '
        'alphabet {completed, in-progress, reservation-cancelled, timeout, response-unavailable, node-busy, other(0xC1)} '
        'is explored depth-first and pruned to reachable prefixes (a prefix is extended only if the helper asked for one '
        'more outcome), to depth 5 (quick) / 8 (thorough), for budgets 1..6, with and without a caller-supplied reservation; '
        'every prefix still alive at full depth is continued with each of the 7 letters repeated for ever (call-count guard '
        'against hangs); plus seeded longer sequences with random other-codes and budgets up to 12.  Compared with the Lean '
        'model: exact call sequence (callable, arguments, outcome) and final result/exception.  The property oracle '
        '(bounds, freshness, erase-before-poll, success iff last status complete, propagation, exhaustion, repeat only '
        'after busy) is evaluated on the real trace of every case.  Distinct by (helper, budget, reservation, sequence, tail); '
        'non-trivial = at least one call was made.  RECORD-CHUNK FETCHING ABOVE THE CHUNK HELPER: get_repository_sdr / '
        'get_device_sdr (get_sdr_data_helper over the chunk readers; with and without a caller reservation) and '
        'sdr_repository_entries / device_sdr_entries on the real Ipmi object against a scripted byte-level device (Reserve '
        'grants consecutive ids; every Get (Device) SDR consumes one letter: code 0 serves the requested bytes of a 30- and a '
        '10-byte record, any other letter is answered with its code; alphabet + 0xCA), same exploration (depth 4 / 6, tails, '
        'seeded longer sequences); compared with the Lean model (Model/SdrXfer.lean on SdrXfer.scriptX, variant probed): '
        'outcome, returned bytes and every exchange (reservation id, record id, offset, count, code).  Oracle on the real '
        'trace: every Get carries the id of the most recent Reserve of the operation (the caller\'s before the first), at '
        'most 161 exchanges per record, unexpected codes propagate, a returned record is the stored one.')
ASSUMPTIONS = [
    'control flow of helper.get_sdr_chunk_helper/_clear_repository/clear_repository_helper and Ipmi.send_message is modelled by hand '
    '(Model/Retry.lean) and tied by this correspondence run; constants, loop tests and call sites are re-read from the source by '
    'harness/translate/loops11.py on every run',
    'reserve_fn always succeeds and grants consecutive ids (so a stale reservation is visible); time.sleep is substituted by a recorder',
    'an outcome sequence is a finite prefix followed by one letter repeated for ever; the theorems quantify over all of them and all '
    'budgets, the exploration over the prefixes a run can consume',
    'get_sdr_chunk_helper with retry=0 counts below zero and is outside the model (budgets are >= 1)',
    'record-chunk fetching = the SDR path (get_sdr_chunk_helper, get_sdr_data_helper over _get_sdr_chunk / _get_device_sdr_chunk, '
    'the entries generators): the mechanisms the property names.  Two SEL loops of the anchor file pyipmi/sel.py are NOT judged '
    'by this property (audit findings c13/finding_2 and c13/finding_3, recorded as observations): Sel.get_sel_entry lowers '
    'max_req_len on 0xCA without a lower bound or retry counter (a device answering 0xCA for ever is never given up on), and '
    'Sel.get_and_clear_sel_entry repeats reserve / get / delete on 0xC5 for ever (no budget, no RetryError).  Neither is '
    '"repository clearing" or a chunk helper / send_message loop; C08 and C12 model both loops with fuel.',
    'the scripted SDR device answers a letter with completion code 0 by serving exactly the requested bytes of its records; what '
    'a real device does about limits and reservations is C11\'s reference device, not this one',
]
TRUSTED = ['harness/translate/loops11.py', 'harness/sim/dev11.py']

ALPHABET = ['C', 'P', 'R', 'T', 'U', 'B', 'O193']
# exhaustive exploration of the SDR reads: "other error" includes 0xCA, which get_sdr_data_helper adapts to;
# "in progress" is completion code 0 like "completed" for a Get (the seeded sequences use it)
ALPHABET_SDR = ['C', 'R', 'T', 'U', 'B', 'O193', 'O202']
CODE = {'C': 0x00, 'P': 0x00, 'R': 0xC5, 'T': 0xC3, 'U': 0xCE, 'B': 0xC0}

_gen = None


def code_of(letter):
    return CODE[letter] if letter in CODE else int(letter[1:])


def translate(ctx):
    global _gen
    _gen = loops11.generate()


# ---------------------------------------------------------------------------------------
class Script(object):
    def __init__(self, letters, tail, cap):
        self.letters = list(letters)
        self.tail = tail
        self.i = 0
        self.cap = cap
        self.trace = []
        self.last = 0

    def next(self):
        if len(self.trace) > self.cap:
            raise dev11.HangGuard('more than %d calls' % self.cap)
        if self.i < len(self.letters):
            l = self.letters[self.i]
        elif self.tail is None:
            raise dev11.NeedMore()
        else:
            l = self.tail
        self.i += 1
        return l

    def reserve(self):
        if len(self.trace) > self.cap:
            raise dev11.HangGuard('more than %d calls' % self.cap)
        self.last += 1
        self.trace.append('r%d' % self.last)
        return self.last


class _Rsp(object):
    def __init__(self, cc):
        self.completion_code = cc


class _Req(object):
    def __init__(self, res):
        self.reservation_id = res


def run_chunk(budget, res0, letters, tail):
    import pyipmi.helper as H
    s = Script(letters, tail, 4 * budget + 40)
    s.last = res0
    req = _Req(res0)

    def send_fn(r):
        l = s.next()
        s.trace.append('k%d:%s' % (r.reservation_id, l))
        return _Rsp(code_of(l))
    tag, _ = dev11.outcome_of(lambda: H.get_sdr_chunk_helper(send_fn, req, s.reserve, retry=budget) and None)
    return tag, s.trace


def _clear_fn(s):
    from pyipmi.msgs import constants
    from pyipmi.errors import CompletionCodeError

    def clear_fn(ctrl, res):
        l = s.next()
        s.trace.append('c%d:%d:%s' % (ctrl, res, l))
        if l == 'C':
            return constants.REPOSITORY_ERASURE_COMPLETED
        if l == 'P':
            return constants.REPOSITORY_ERASURE_IN_PROGRESS
        raise CompletionCodeError(code_of(l))
    return clear_fn


def run_clear(budget, rv, letters, tail):
    import pyipmi.helper as H
    s = Script(letters, tail, 8 * budget + 40)
    s.last = rv if rv is not None else 0
    tag, val = dev11.outcome_of(lambda: H.clear_repository_helper(s.reserve, _clear_fn(s), retry=budget, reservation=rv))
    if tag == 'ok' and val is not None:
        tag = 'py:returned-%r' % (val,)
    return tag, s.trace


def run_send(budget, letters, tail):
    import pyipmi
    from pyipmi.errors import CompletionCodeError
    from pyipmi.msgs.bmc import GetDeviceIdReq, GetDeviceIdRsp
    s = Script(letters, tail, 4 * budget + 40)
    rsp = GetDeviceIdRsp()

    class Iface(object):
        def send_and_receive(self, req):
            l = s.next()
            s.trace.append('x%s' % l)
            c = code_of(l)
            if c == 0:
                return rsp
            raise CompletionCodeError(c)
    ipmi = pyipmi.Ipmi(interface=Iface())
    ipmi.target = None
    tag, val = dev11.outcome_of(lambda: ipmi.send_message(GetDeviceIdReq(), retry=budget))
    if tag == 'ok' and val is not rsp:
        tag = 'py:returned-other-object'
    return tag, s.trace


GLUE = {
    # name: (netfn, reserve cmd, clear cmd, method)
    'clear_sel': (0x0A, dev11.CMD_RESERVE_SEL, dev11.CMD_CLEAR_SEL),
    'clear_sdr_repository': (0x0A, dev11.CMD_RESERVE, dev11.CMD_CLEAR_SDR),
}


def run_glue(name, budget, letters, tail):
    """Sel.clear_sel / Sdr.clear_sdr_repository through a scripted byte-level interface."""
    netfn, cmd_res, cmd_clr = GLUE[name]
    s = Script(letters, tail, 8 * budget + 40)
    notes = []

    def handler(nf, cmd, data):
        if nf == netfn and cmd == cmd_res and len(data) == 0:
            r = s.reserve()
            return bytes([0, r & 0xFF, r >> 8])
        if nf == netfn and cmd == cmd_clr and len(data) == 6:
            if data[2:5] != b'CLR':
                notes.append('clear request without the CLR key: %s' % data.hex())
            l = s.next()
            s.trace.append('c%d:%d:%s' % (data[5], data[0] + 256 * data[1], l))
            if l == 'C':
                return bytes([0x00, 0x01])
            if l == 'P':
                return bytes([0x00, 0x00])
            return bytes([code_of(l)])
        notes.append('unexpected request %02x %02x %s' % (nf, cmd, data.hex()))
        return bytes([0xC1])
    ipmi, _ = dev11.make_ipmi(handler)
    tag, val = dev11.outcome_of(lambda: getattr(ipmi, name)(retry=budget))
    if notes:
        tag = 'py:' + notes[0]
    return tag, s.trace


# ---- record-chunk fetching above the chunk helper: real Ipmi object, scripted byte-level SDR device ----------
RECP = dev11.make_record(1, 0xC0, bytes(bytearray(range(1, 26))))      # 30 bytes: header, 20, 5
RECQ = dev11.make_record(2, 0xC0, bytes(bytearray([9, 8, 7, 6, 5])))   # 10 bytes: header, 5
SDR_RECS = [RECP, RECQ]
SDR_HELPERS = ('data:r', 'data:d', 'list:r', 'list:d')
SDR_NETFN = {'r': dev11.NETFN_STORAGE, 'd': dev11.NETFN_SENSOR}
SDR_GET = {dev11.NETFN_STORAGE: dev11.CMD_GET_SDR, dev11.NETFN_SENSOR: dev11.CMD_GET_DEVICE_SDR}
SDR_BOUND = 161                 # Lean: data_requests_bounded


def _sdr_lookup(rid):
    ids = [dev11.rec_id(r) for r in SDR_RECS]
    i = 0 if rid == 0 else (ids.index(rid) if rid in ids else None)
    if i is None:
        return None
    return SDR_RECS[i], (ids[i + 1] if i + 1 < len(ids) else 0xFFFF)


def run_sdr(helper, rv, letters, tail):
    """get_repository_sdr / get_device_sdr (record 1) or the entries generator of store `helper[-1]`."""
    kind, store = helper.split(':')
    s = Script(letters, tail, 2 * SDR_BOUND * len(SDR_RECS) + 40)
    s.last = rv if rv is not None else 0

    def handler(nf, cmd, data):
        mine = nf == SDR_NETFN[store]
        if nf in SDR_GET and cmd == dev11.CMD_RESERVE and len(data) == 0:
            r = s.reserve()
            if not mine:
                s.trace[-1] = 'w%d' % r
            return bytes([0, r & 0xFF, r >> 8])
        if nf in SDR_GET and cmd == SDR_GET[nf] and len(data) == 6:
            res, rid, off, cnt = data[0] | data[1] << 8, data[2] | data[3] << 8, data[4], data[5]
            l = s.next()
            c = code_of(l)
            s.trace.append('%s%d:%d:%d:%d:%d' % ('g' if mine else 'h', res, rid, off, cnt, c))
            if c != 0:
                return bytes([c])
            hit = _sdr_lookup(rid)
            if hit is None:
                return bytes([0xCB])
            return bytes([0, hit[1] & 0xFF, hit[1] >> 8]) + hit[0][off:off + cnt]
        s.trace.append('?')
        return bytes([0xC1])
    ipmi, _ = dev11.make_ipmi(handler)

    def op():
        if kind == 'data':
            fn = ipmi.get_repository_sdr if store == 'r' else ipmi.get_device_sdr
            x = fn(1, rv)
            return '%d:%s' % (x.next_id, lean.hexs(bytes(bytearray(x.data.array))))
        g = ipmi.sdr_repository_entries() if store == 'r' else ipmi.device_sdr_entries()
        return ';'.join(lean.hexs(bytes(bytearray(x.data.array))) for x in g) or '-'
    tag, val = dev11.outcome_of(op)
    if tag == 'ok':
        tag = 'ok=%s' % val
    return tag, s.trace


def probe_stale_variant():
    """True = as shipped: after a renewal the next chunk is requested with the cancelled id again."""
    seen = set()
    for h in SDR_HELPERS:
        _, trace = run_sdr(h, None, ('C', 'R'), 'C')
        # r1 g(header) g(chunk: C5h) r2 g(chunk repeated with 2) | what the requests after that carry
        if len(trace) < 6 or trace[3] != 'r2':
            return None
        seen.update(int(e[1:].split(':')[0]) != 2 for e in trace[5:] if e[0] == 'g')
    return seen.pop() if len(seen) == 1 else None


def runner(helper, budget, rv):
    if helper in SDR_HELPERS:
        return lambda p, t: run_sdr(helper, rv, p, t)
    if helper == 'chunk':
        return lambda p, t: run_chunk(budget, rv, p, t)
    if helper == 'clear':
        return lambda p, t: run_clear(budget, rv, p, t)
    if helper == 'send':
        return lambda p, t: run_send(budget, p, t)
    return lambda p, t: run_glue(helper, budget, p, t)


def model_line(helper, budget, rv, letters, tail, send_variant, stale_variant=True):
    ls = ','.join(letters) or '-'
    if helper in SDR_HELPERS:
        kind, store = helper.split(':')
        recs = ','.join(lean.hexs(r) for r in SDR_RECS)
        st = 1 if stale_variant else 0
        if kind == 'data':
            return 'data %s %d 1 %s %d %s %s %s' % (store, st, '-' if rv is None else rv, rv or 0, recs, ls, tail)
        return 'dlist %s %d %d %d %s %s %s' % (store, st, len(SDR_RECS) + 1, 0, recs, ls, tail)
    if helper == 'chunk':
        return 'chunk %d %d %s %s' % (budget, rv, ls, tail)
    if helper == 'send':
        return 'send %d %d %s %s' % (1 if send_variant else 0, budget, ls, tail)
    return 'clear %d %s %s %s' % (budget, '-' if rv is None else rv, ls, tail)


# ---------------------------------------------------------------------------------------
# Property oracle on a real trace (written from the property text, independent of the Lean model)
def _events(trace):
    out = []
    for e in trace:
        if e[0] == 'r':
            out.append(('r', int(e[1:])))
        elif e[0] == 'c':
            a, b, l = e[1:].split(':')
            out.append(('c', int(a), int(b), l))
        elif e[0] == 'k':
            a, l = e[1:].split(':')
            out.append(('k', int(a), l))
        else:
            out.append(('x', e[1:]))
    return out


def oracle_sdr(helper, rv, tag, trace):
    """Record-chunk fetching above the chunk helper, judged on the exchanges the scripted device saw."""
    bad = []
    kind, store = helper.split(':')
    name = {'data:r': 'get_repository_sdr', 'data:d': 'get_device_sdr', 'list:r': 'sdr_repository_entries',
            'list:d': 'device_sdr_entries'}[helper]
    if tag.startswith('py:Hang'):
        bad.append(('unbounded:%s' % name, '%s does not stop (call guard hit)' % name))
    elif not tag.startswith('ok=') and tag != 'RetryError' and not tag.startswith('CompletionCodeError:'):
        bad.append(('other-exception:%s' % name, '%s ends with %s' % (name, tag)))
    limit = SDR_BOUND if kind == 'data' else 1 + (SDR_BOUND - 1) * len(SDR_RECS)
    if len(trace) > limit:
        bad.append(('unbounded:%s' % name, '%s made %d requests (bound %d)' % (name, len(trace), limit)))
    if any(e[0] in 'wh?' for e in trace):
        bad.append(('data_helper:request-to-other-store', '%s sent %s' % (
            name, [e for e in trace if e[0] in 'wh?'][0])))
    # most recently obtained reservation: every Get carries the id of the last Reserve (the caller's before the first)
    held, renewed_in, nrec, prev_off = rv, None, 0, None
    gets = []
    for i, e in enumerate(trace):
        if e[0] == 'r':
            held = int(e[1:])
            if i > 0 and trace[i - 1][0] == 'g' and trace[i - 1].endswith(':197'):
                renewed_in = nrec
        elif e[0] == 'g':
            res, rid, off, cnt, c = [int(x) for x in e[1:].split(':')]
            if off == 0 and prev_off != 0:
                nrec += 1               # the header read of the next record (both records have more than a header)
            prev_off = off
            gets.append((i, c))
            if res != held:
                where = 'entries' if renewed_in is not None and nrec != renewed_in else 'data_helper'
                bad.append(('%s:stale-reservation-after-renewal' % where,
                            '%s: request %d (Get record %d offset %d) carries reservation %d while the most recently obtained '
                            'one is %s%s' % (name, i, rid, off, res, held, '' if renewed_in is None else
                                             ' (renewed during the read of record number %d, this is number %d)' % (renewed_in, nrec))))
                break
    # unexpected completion codes propagate (0xC5 / 0xC3 / 0xCE are retried, 0xCA shrinks the request)
    for i, c in gets:
        if c not in (0x00, 0xC5, 0xC3, 0xCE, 0xCA):
            if tag != 'CompletionCodeError:%d' % c or i != len(trace) - 1:
                bad.append(('code-not-propagated:%s' % name, '%s got completion code 0x%02x at request %d of %d and ended with %s' % (
                    name, c, i, len(trace), tag)))
            break
    if tag.startswith('ok='):
        want = '%d:%s' % (dev11.rec_id(RECQ), lean.hexs(RECP)) if kind == 'data' else ';'.join(lean.hexs(r) for r in SDR_RECS)
        if tag[3:] != want:
            bad.append(('data_helper:wrong-data', '%s returned %s, the device holds %s' % (name, tag[3:][:80], want[:80])))
    return bad


def oracle(helper, budget, rv, tag, trace):
    """-> list of (signature-suffix, what)."""
    if helper in SDR_HELPERS:
        return oracle_sdr(helper, rv, tag, trace)
    bad = []
    ev = _events(trace)
    name = {'chunk': 'get_sdr_chunk_helper', 'clear': 'clear_repository_helper', 'send': 'send_message'}.get(helper, helper)
    if tag.startswith('py:Hang'):
        bad.append(('unbounded:%s' % name, '%s does not stop (call guard hit)' % name))
    elif tag not in ('ok', 'RetryError') and not tag.startswith('CompletionCodeError:'):
        bad.append(('other-exception:%s' % name, '%s ends with %s' % (name, tag)))
    ncalls = sum(1 for e in ev if e[0] in 'ckx')
    nres = sum(1 for e in ev if e[0] == 'r')
    if helper == 'chunk':
        lim, rlim = budget - 1, budget - 1
    elif helper == 'send':
        lim, rlim = budget, 0
    else:
        lim, rlim = 2 * (budget - 1), 2 * (budget - 1) + 1
    if ncalls > lim or nres > rlim:
        bad.append(('unbounded:%s' % name, '%s made %d requests and %d reservations with budget %d (bound %d / %d)' % (
            name, ncalls, nres, budget, lim, rlim)))
    # most recently obtained reservation
    cur = rv
    for e in ev:
        if e[0] == 'r':
            cur = e[1]
        elif e[0] == 'c' and e[2] != cur or e[0] == 'k' and e[1] != cur:
            bad.append(('stale-reservation:%s' % name, '%s sent reservation %s while the most recent one is %s' % (
                name, e[2] if e[0] == 'c' else e[1], cur)))
            break
    if helper not in ('chunk', 'send'):
        from pyipmi.msgs import constants as c
        seen_done = False
        for e in ev:
            if e[0] != 'c':
                continue
            if e[1] == c.REPOSITORY_GET_ERASE_STATUS and not seen_done:
                bad.append(('poll-before-erase:%s' % name, 'erase status polled before an initiate-erase completed'))
                break
            if e[1] == c.REPOSITORY_INITIATE_ERASE and e[3] == 'C':
                seen_done = True
        last = ev[-1] if ev else None
        last_ok = bool(last and last[0] == 'c' and last[1] == c.REPOSITORY_GET_ERASE_STATUS and last[3] == 'C')
        if (tag == 'ok') != last_ok:
            bad.append(('success-vs-last-status:%s' % name,
                        'returned %s but the last call was %s' % (tag, trace[-1] if trace else 'none')))
    # unexpected codes propagate; exhaustion
    expected = {'chunk': ('C', 'P', 'R', 'T', 'U'), 'send': ('C', 'P', 'B')}.get(helper, ('C', 'P', 'R'))
    letters = [e[-1] for e in ev if e[0] in 'ckx']
    for i, l in enumerate(letters):
        if l not in expected and code_of(l) not in [code_of(x) for x in expected]:
            want = 'CompletionCodeError:%d' % code_of(l)
            if tag != want or i != len(letters) - 1:
                sig = 'retry-after-non-busy' if helper == 'send' else 'code-not-propagated'
                bad.append(('%s:%s' % (name, sig) if helper == 'send' else '%s:%s' % (sig, name),
                            '%s got completion code 0x%02x (call %d of %d) and ended with %s instead of raising it' % (
                                name, code_of(l), i + 1, len(letters), tag)))
            break
    else:
        retry_letters = {'chunk': ('R', 'T', 'U'), 'send': ('B',)}.get(helper, ('P', 'R'))
        if letters and all(code_of(l) in [code_of(x) for x in retry_letters] and l not in ('C',) for l in letters) \
                and not (helper == 'chunk' and any(l in ('C', 'P') for l in letters)) and tag != 'RetryError':
            bad.append(('exhaustion:%s' % name, '%s saw only retry outcomes and ended with %s' % (name, tag)))
    if helper in ('send', 'chunk') and letters and letters[-1] in ('C', 'P') and tag != 'ok':
        # the last request the helper made was answered OK (within the budget, see the bound above): that answer
        # is the result - the retry-exhausted error is for a run in which every attempt was refused
        bad.append(('success-reported-as-error:%s' % name,
                    '%s: request %d of at most %d was answered OK but the helper ended with %s' % (
                        name, len(letters), lim, tag)))
    if helper == 'send':
        for l in letters[:-1]:
            if code_of(l) != 0xC0:
                bad.append(('send_message:retry-after-non-busy',
                            'send_message repeated the transfer after completion code 0x%02x' % code_of(l)))
                break
    return bad


# ---------------------------------------------------------------------------------------
def explore(run_fn, depth, alphabet=None):
    alphabet = alphabet or ALPHABET
    stack = [()]
    while stack:
        p = stack.pop()
        try:
            res = run_fn(p, None)
        except dev11.NeedMore:
            if len(p) < depth:
                for l in reversed(alphabet):
                    stack.append(p + (l,))
            else:
                for t in alphabet:
                    yield p, t, run_fn(p, t)
            continue
        yield p, None, res


def probe_send_variant():
    """True = as shipped (a non-busy completion code is retried)."""
    tag, trace = run_send(3, ('O193',), 'C')
    return not (tag == 'CompletionCodeError:193' and len(trace) == 1)


def _live_constants():
    import pyipmi
    import pyipmi.helper as H
    from pyipmi.msgs import constants as c

    def dflt(fn, name):
        return inspect.signature(fn).parameters[name].default
    return [c.CC_OK, dflt(H.get_sdr_chunk_helper, 'retry'), c.CC_RES_CANCELED, c.CC_TIMEOUT, c.CC_RESP_COULD_NOT_BE_PRV,
            dflt(H.clear_repository_helper, 'retry'), c.CC_RES_CANCELED, c.REPOSITORY_INITIATE_ERASE,
            c.REPOSITORY_GET_ERASE_STATUS, c.REPOSITORY_ERASURE_IN_PROGRESS, c.REPOSITORY_ERASURE_COMPLETED,
            dflt(pyipmi.Ipmi.send_message, 'retry'), c.CC_NODE_BUSY]


class _Found(object):
    def __init__(self):
        self.best = {}

    def add(self, sig, what, case, expected, observed):
        k = (len(case['script']), case['budget'], case['tail'] or '')
        if sig not in self.best or k < self.best[sig][0]:
            self.best[sig] = (k, what, case, expected, observed)

    def flush(self, ctx):
        for sig, (_, what, case, expected, observed) in sorted(self.best.items()):
            ctx.violate('C13:' + sig, what, case, expected=expected, observed=observed)


def _check_batch(ctx, drv, batch, send_variant, found, stale_variant=True):
    lines = [model_line(h, b, rv, p, t or 'C', send_variant, stale_variant) for (h, b, rv, p, t, _) in batch]
    models = drv.ask_many(lines) if drv is not None else [None] * len(lines)
    for (h, b, rv, p, t, (tag, trace)), m in zip(batch, models):
        case = {'helper': h, 'budget': b, 'reservation': rv, 'script': list(p), 'tail': t}
        ctx.case((h, b, rv, p, t), nontrivial=len(trace) > 0)
        ctx.count('helper:' + h)
        ctx.count('outcome:' + (tag.split(':')[0]))
        ctx.count('consumed:%s' % (lambda n: n if n < 12 else '12+')(sum(1 for e in trace if e[0] != 'r')))
        code_s = '%s %s' % (tag, ','.join(trace) or '-')
        for sig, what in oracle(h, b, rv, tag, trace):
            found.add(sig, what, case, 'see property clause', code_s)
        if m is not None and m != code_s:
            ctx.disagree('%s budget=%d' % (h, b), case, m, code_s)
        if len(ctx.samples) < 6 and len(p) >= 3 and (len(ctx.samples) % 2 == 0) == (tag == 'ok'):
            ctx.sample({'case': case, 'code': code_s, 'model': m})


def run(ctx):
    drv = _try_driver(ctx)
    found = _Found()
    with dev11.no_sleep():
        # constants as seen by the driver (translator) vs the live objects
        live = _live_constants()
        if drv is not None:
            got = [int(x) for x in drv.ask('consts').split()]
            if got != live:
                ctx.disagree('constants', {'order': 'ccOk chunkRetry renew t1 t2 clearRetry renew initiate status inprog done sendRetry busy'},
                             got, live)
        send_variant = probe_send_variant()
        ctx.extra['send_message_variant'] = 'asShipped' if send_variant else 'intended'
        if _gen is not None and _gen['retryAnyCode'] != send_variant:
            ctx.disagree('send_message variant: source reading vs behaviour', {}, _gen['retryAnyCode'], send_variant)
        stale_variant = probe_stale_variant()
        ctx.extra['renewed_reservation_variant'] = {
            'probed_on_real_code': {True: 'dropped (as shipped)', False: 'handed on (intended)', None: 'inconsistent'}[stale_variant],
            'read_from_source': None if _gen is None else ('dropped' if _gen['staleRes'] else 'handed on')}
        if stale_variant is None:
            ctx.disagree('renewed reservation id: handed on in some operations only', {}, 'all or none', 'mixed')
            stale_variant = _gen['staleRes'] if _gen is not None else True
        elif _gen is not None and _gen['staleRes'] != stale_variant:
            ctx.disagree('renewed reservation variant: source reading vs behaviour', {}, _gen['staleRes'], stale_variant)
        depth = 5 if ctx.tier == 'quick' else 8
        glue_depth = 3 if ctx.tier == 'quick' else 5
        plans = []
        for b in range(1, 7):
            plans.append(('chunk', b, 3, depth))
            plans.append(('clear', b, None, depth))
            plans.append(('clear', b, 7, depth))
            plans.append(('send', b, None, depth))
            plans.append(('clear_sel', b, None, glue_depth))
            plans.append(('clear_sdr_repository', b, None, glue_depth))
        sdr_depth = 4 if ctx.tier == 'quick' else 6
        for h in SDR_HELPERS:
            plans.append((h, 5, None, sdr_depth))
            if h.startswith('data'):
                plans.append((h, 5, 700, sdr_depth - 1))
        for h, b, rv, d in plans:
            batch = []
            for p, t, res in explore(runner(h, b, rv), d, ALPHABET_SDR if h in SDR_HELPERS else None):
                batch.append((h, b, rv, p, t, res))
                if len(batch) >= 4000:
                    _check_batch(ctx, drv, batch, send_variant, found, stale_variant)
                    batch = []
            _check_batch(ctx, drv, batch, send_variant, found, stale_variant)
            if ctx.time_left() < 20:
                ctx.notes.append('time budget reached during exhaustive exploration at %s budget %d' % (h, b))
                break
        # seeded longer sequences, random other-codes, larger budgets
        rng = ctx.rng('c13')
        named = (0x00, 0xC0, 0xC3, 0xC5, 0xCE)
        n = 3000 if ctx.tier == 'quick' else 40000
        batch = []
        for _ in range(n):
            h = rng.choice(['chunk', 'clear', 'clear', 'send', 'clear_sel', 'clear_sdr_repository'])
            b = rng.randrange(1, 13)
            rv = 3 if h == 'chunk' else (rng.choice([None, rng.randrange(1, 60000)]) if h == 'clear' else None)
            k = rng.randrange(0, 2 * b + 3)
            weights = {'chunk': 'RRTTUUCPBO', 'send': 'BBBBBCPRTUO'}.get(h, 'PPPRRRCCBTUO')
            letters = []
            for _i in range(k):
                l = rng.choice(weights)
                letters.append(l if l != 'O' else 'O%d' % rng.choice([c for c in range(1, 256) if c not in named]))
            t = rng.choice(ALPHABET)
            batch.append((h, b, rv, tuple(letters), t, runner(h, b, rv)(tuple(letters), t)))
            ctx.count('random')
        _check_batch(ctx, drv, batch, send_variant, found)
        # ... and for record-chunk fetching above the chunk helper: mostly completed / cancelled / 0xCA, a few others
        batch = []
        for _ in range(n // 3):
            h = rng.choice(SDR_HELPERS)
            rv = rng.choice([None, None, rng.randrange(1, 0xFFF0)]) if h.startswith('data') else None
            letters = []
            for _i in range(rng.randrange(0, 24)):
                l = rng.choice('CCCCCCPRRRTUAAO')
                letters.append({'A': 'O202', 'O': 'O%d' % rng.choice([0xC0, 0xC1, 0xC9, 0xCB, 0xFF, 0x80])}.get(l, l))
            t = rng.choice(['C', 'C', 'C', 'P', 'R', 'T', 'O202'])
            batch.append((h, 5, rv, tuple(letters), t, runner(h, 5, rv)(tuple(letters), t)))
            ctx.count('random-sdr')
        _check_batch(ctx, drv, batch, send_variant, found, stale_variant)
    found.flush(ctx)


def _try_driver(ctx):
    try:
        return ctx.driver('drv_c13')
    except lean.LeanError:
        ctx.notes.append('driver unavailable: property oracle only')
        return None


def search(ctx):
    """The property oracle already judged the real code on every explored sequence in `run`."""
    return


def replay(ctx, v):
    case = v['case']
    h, b, rv = case['helper'], case['budget'], case.get('reservation')
    with dev11.no_sleep():
        tag, trace = runner(h, b, rv)(tuple(case['script']), case['tail'] or 'C')
    print('%s budget=%d reservation=%s outcomes=%s then %s for ever' % (h, b, rv, ','.join(case['script']) or '-', case['tail'] or 'C'))
    print('  real code: %s  calls: %s' % (tag, ','.join(trace) or '-'))
    bad = oracle(h, b, rv, tag, trace)
    for sig, what in bad:
        print('  property: ' + what)
    if h in SDR_HELPERS:
        print('  (r<id> = Reserve answered with <id>; g<reservation>:<record>:<offset>:<count>:<completion code> = Get (Device) SDR)')
    want = v['signature'][len('C13:'):]
    return any(sig == want for sig, _ in bad)
