"""C13 — Retry/reservation loops terminate and follow protocol for all outcome sequences."""
import inspect

from ..lib import lean
from ..sim import dev11
from ..translate import loops11

ID = 'C13'
TARGETS = ['PyIpmi.Props.C13', 'drv_c13']
LEVEL = 'proof'
RULE = ('the real helpers are called with scripted callables / a scripted interface; the outcome tree over the 7-letter '
        'alphabet {completed, in-progress, reservation-cancelled, timeout, response-unavailable, node-busy, other(0xC1)} '
        'is explored depth-first and pruned to reachable prefixes (a prefix is extended only if the helper asked for one '
        'more outcome), to depth 5 (quick) / 8 (thorough), for budgets 1..6, with and without a caller-supplied reservation; '
        'every prefix still alive at full depth is continued with each of the 7 letters repeated for ever (call-count guard '
        'against hangs); plus seeded longer sequences with random other-codes and budgets up to 12.  Compared with the Lean '
        'model: exact call sequence (callable, arguments, outcome) and final result/exception.  The property oracle '
        '(bounds, freshness, erase-before-poll, success iff last status complete, propagation, exhaustion, repeat only '
        'after busy) is evaluated on the real trace of every case.  Distinct by (helper, budget, reservation, sequence, tail); '
        'non-trivial = at least one call was made.')
ASSUMPTIONS = [
    'control flow of helper.get_sdr_chunk_helper/_clear_repository/clear_repository_helper and Ipmi.send_message is modelled by hand '
    '(Model/Retry.lean) and tied by this correspondence run; constants, loop tests and call sites are re-read from the source by '
    'harness/translate/loops11.py on every run',
    'reserve_fn always succeeds and grants consecutive ids (so a stale reservation is visible); time.sleep is substituted by a recorder',
    'an outcome sequence is a finite prefix followed by one letter repeated for ever; the theorems quantify over all of them and all '
    'budgets, the exploration over the prefixes a run can consume',
    'get_sdr_chunk_helper with retry=0 counts below zero and is outside the model (budgets are >= 1)',
]
TRUSTED = ['harness/translate/loops11.py', 'harness/sim/dev11.py']

ALPHABET = ['C', 'P', 'R', 'T', 'U', 'B', 'O193']
CODE = {'C': 0x00, 'P': 0x00, 'R': 0xC5, 'T': 0xC3, 'U': 0xCE, 'B': 0xC0}

_gen = None


def code_of(letter):
    return CODE[letter] if letter in CODE else int(letter[1:])


def translate(ctx):
    global _gen
    _gen = loops11.generate()


# ---------------------------------------------------------------------------------------
class Script(object):
    def __init__(self, letters, tail, cap):
        self.letters = list(letters)
        self.tail = tail
        self.i = 0
        self.cap = cap
        self.trace = []
        self.last = 0

    def next(self):
        if len(self.trace) > self.cap:
            raise dev11.HangGuard('more than %d calls' % self.cap)
        if self.i < len(self.letters):
            l = self.letters[self.i]
        elif self.tail is None:
            raise dev11.NeedMore()
        else:
            l = self.tail
        self.i += 1
        return l

    def reserve(self):
        if len(self.trace) > self.cap:
            raise dev11.HangGuard('more than %d calls' % self.cap)
        self.last += 1
        self.trace.append('r%d' % self.last)
        return self.last


class _Rsp(object):
    def __init__(self, cc):
        self.completion_code = cc


class _Req(object):
    def __init__(self, res):
        self.reservation_id = res


def run_chunk(budget, res0, letters, tail):
    import pyipmi.helper as H
    s = Script(letters, tail, 4 * budget + 40)
    s.last = res0
    req = _Req(res0)

    def send_fn(r):
        l = s.next()
        s.trace.append('k%d:%s' % (r.reservation_id, l))
        return _Rsp(code_of(l))
    tag, _ = dev11.outcome_of(lambda: H.get_sdr_chunk_helper(send_fn, req, s.reserve, retry=budget) and None)
    return tag, s.trace


def _clear_fn(s):
    from pyipmi.msgs import constants
    from pyipmi.errors import CompletionCodeError

    def clear_fn(ctrl, res):
        l = s.next()
        s.trace.append('c%d:%d:%s' % (ctrl, res, l))
        if l == 'C':
            return constants.REPOSITORY_ERASURE_COMPLETED
        if l == 'P':
            return constants.REPOSITORY_ERASURE_IN_PROGRESS
        raise CompletionCodeError(code_of(l))
    return clear_fn


def run_clear(budget, rv, letters, tail):
    import pyipmi.helper as H
    s = Script(letters, tail, 8 * budget + 40)
    s.last = rv if rv is not None else 0
    tag, val = dev11.outcome_of(lambda: H.clear_repository_helper(s.reserve, _clear_fn(s), retry=budget, reservation=rv))
    if tag == 'ok' and val is not None:
        tag = 'py:returned-%r' % (val,)
    return tag, s.trace


def run_send(budget, letters, tail):
    import pyipmi
    from pyipmi.errors import CompletionCodeError
    from pyipmi.msgs.bmc import GetDeviceIdReq, GetDeviceIdRsp
    s = Script(letters, tail, 4 * budget + 40)
    rsp = GetDeviceIdRsp()

    class Iface(object):
        def send_and_receive(self, req):
            l = s.next()
            s.trace.append('x%s' % l)
            c = code_of(l)
            if c == 0:
                return rsp
            raise CompletionCodeError(c)
    ipmi = pyipmi.Ipmi(interface=Iface())
    ipmi.target = None
    tag, val = dev11.outcome_of(lambda: ipmi.send_message(GetDeviceIdReq(), retry=budget))
    if tag == 'ok' and val is not rsp:
        tag = 'py:returned-other-object'
    return tag, s.trace


GLUE = {
    # name: (netfn, reserve cmd, clear cmd, method)
    'clear_sel': (0x0A, dev11.CMD_RESERVE_SEL, dev11.CMD_CLEAR_SEL),
    'clear_sdr_repository': (0x0A, dev11.CMD_RESERVE, dev11.CMD_CLEAR_SDR),
}


def run_glue(name, budget, letters, tail):
    """Sel.clear_sel / Sdr.clear_sdr_repository through a scripted byte-level interface."""
    netfn, cmd_res, cmd_clr = GLUE[name]
    s = Script(letters, tail, 8 * budget + 40)
    notes = []

    def handler(nf, cmd, data):
        if nf == netfn and cmd == cmd_res and len(data) == 0:
            r = s.reserve()
            return bytes([0, r & 0xFF, r >> 8])
        if nf == netfn and cmd == cmd_clr and len(data) == 6:
            if data[2:5] != b'CLR':
                notes.append('clear request without the CLR key: %s' % data.hex())
            l = s.next()
            s.trace.append('c%d:%d:%s' % (data[5], data[0] + 256 * data[1], l))
            if l == 'C':
                return bytes([0x00, 0x01])
            if l == 'P':
                return bytes([0x00, 0x00])
            return bytes([code_of(l)])
        notes.append('unexpected request %02x %02x %s' % (nf, cmd, data.hex()))
        return bytes([0xC1])
    ipmi, _ = dev11.make_ipmi(handler)
    tag, val = dev11.outcome_of(lambda: getattr(ipmi, name)(retry=budget))
    if notes:
        tag = 'py:' + notes[0]
    return tag, s.trace


def runner(helper, budget, rv):
    if helper == 'chunk':
        return lambda p, t: run_chunk(budget, rv, p, t)
    if helper == 'clear':
        return lambda p, t: run_clear(budget, rv, p, t)
    if helper == 'send':
        return lambda p, t: run_send(budget, p, t)
    return lambda p, t: run_glue(helper, budget, p, t)


def model_line(helper, budget, rv, letters, tail, send_variant):
    ls = ','.join(letters) or '-'
    if helper == 'chunk':
        return 'chunk %d %d %s %s' % (budget, rv, ls, tail)
    if helper == 'send':
        return 'send %d %d %s %s' % (1 if send_variant else 0, budget, ls, tail)
    return 'clear %d %s %s %s' % (budget, '-' if rv is None else rv, ls, tail)


# ---------------------------------------------------------------------------------------
# Property oracle on a real trace (written from the property text, independent of the Lean model)
def _events(trace):
    out = []
    for e in trace:
        if e[0] == 'r':
            out.append(('r', int(e[1:])))
        elif e[0] == 'c':
            a, b, l = e[1:].split(':')
            out.append(('c', int(a), int(b), l))
        elif e[0] == 'k':
            a, l = e[1:].split(':')
            out.append(('k', int(a), l))
        else:
            out.append(('x', e[1:]))
    return out


def oracle(helper, budget, rv, tag, trace):
    """-> list of (signature-suffix, what)."""
    bad = []
    ev = _events(trace)
    name = {'chunk': 'get_sdr_chunk_helper', 'clear': 'clear_repository_helper', 'send': 'send_message'}.get(helper, helper)
    if tag.startswith('py:Hang'):
        bad.append(('unbounded:%s' % name, '%s does not stop (call guard hit)' % name))
    elif tag not in ('ok', 'RetryError') and not tag.startswith('CompletionCodeError:'):
        bad.append(('other-exception:%s' % name, '%s ends with %s' % (name, tag)))
    ncalls = sum(1 for e in ev if e[0] in 'ckx')
    nres = sum(1 for e in ev if e[0] == 'r')
    if helper == 'chunk':
        lim, rlim = budget - 1, budget - 1
    elif helper == 'send':
        lim, rlim = budget, 0
    else:
        lim, rlim = 2 * (budget - 1), 2 * (budget - 1) + 1
    if ncalls > lim or nres > rlim:
        bad.append(('unbounded:%s' % name, '%s made %d requests and %d reservations with budget %d (bound %d / %d)' % (
            name, ncalls, nres, budget, lim, rlim)))
    # most recently obtained reservation
    cur = rv
    for e in ev:
        if e[0] == 'r':
            cur = e[1]
        elif e[0] == 'c' and e[2] != cur or e[0] == 'k' and e[1] != cur:
            bad.append(('stale-reservation:%s' % name, '%s sent reservation %s while the most recent one is %s' % (
                name, e[2] if e[0] == 'c' else e[1], cur)))
            break
    if helper not in ('chunk', 'send'):
        from pyipmi.msgs import constants as c
        seen_done = False
        for e in ev:
            if e[0] != 'c':
                continue
            if e[1] == c.REPOSITORY_GET_ERASE_STATUS and not seen_done:
                bad.append(('poll-before-erase:%s' % name, 'erase status polled before an initiate-erase completed'))
                break
            if e[1] == c.REPOSITORY_INITIATE_ERASE and e[3] == 'C':
                seen_done = True
        last = ev[-1] if ev else None
        last_ok = bool(last and last[0] == 'c' and last[1] == c.REPOSITORY_GET_ERASE_STATUS and last[3] == 'C')
        if (tag == 'ok') != last_ok:
            bad.append(('success-vs-last-status:%s' % name,
                        'returned %s but the last call was %s' % (tag, trace[-1] if trace else 'none')))
    # unexpected codes propagate; exhaustion
    expected = {'chunk': ('C', 'P', 'R', 'T', 'U'), 'send': ('C', 'P', 'B')}.get(helper, ('C', 'P', 'R'))
    letters = [e[-1] for e in ev if e[0] in 'ckx']
    for i, l in enumerate(letters):
        if l not in expected and code_of(l) not in [code_of(x) for x in expected]:
            want = 'CompletionCodeError:%d' % code_of(l)
            if tag != want or i != len(letters) - 1:
                sig = 'retry-after-non-busy' if helper == 'send' else 'code-not-propagated'
                bad.append(('%s:%s' % (name, sig) if helper == 'send' else '%s:%s' % (sig, name),
                            '%s got completion code 0x%02x (call %d of %d) and ended with %s instead of raising it' % (
                                name, code_of(l), i + 1, len(letters), tag)))
            break
    else:
        retry_letters = {'chunk': ('R', 'T', 'U'), 'send': ('B',)}.get(helper, ('P', 'R'))
        if letters and all(code_of(l) in [code_of(x) for x in retry_letters] and l not in ('C',) for l in letters) \
                and not (helper == 'chunk' and any(l in ('C', 'P') for l in letters)) and tag != 'RetryError':
            bad.append(('exhaustion:%s' % name, '%s saw only retry outcomes and ended with %s' % (name, tag)))
    if helper in ('send', 'chunk') and letters and letters[-1] in ('C', 'P') and tag != 'ok':
        # the last request the helper made was answered OK (within the budget, see the bound above): that answer
        # is the result - the retry-exhausted error is for a run in which every attempt was refused
        bad.append(('success-reported-as-error:%s' % name,
                    '%s: request %d of at most %d was answered OK but the helper ended with %s' % (
                        name, len(letters), lim, tag)))
    if helper == 'send':
        for l in letters[:-1]:
            if code_of(l) != 0xC0:
                bad.append(('send_message:retry-after-non-busy',
                            'send_message repeated the transfer after completion code 0x%02x' % code_of(l)))
                break
    return bad


# ---------------------------------------------------------------------------------------
def explore(run_fn, depth):
    stack = [()]
    while stack:
        p = stack.pop()
        try:
            res = run_fn(p, None)
        except dev11.NeedMore:
            if len(p) < depth:
                for l in reversed(ALPHABET):
                    stack.append(p + (l,))
            else:
                for t in ALPHABET:
                    yield p, t, run_fn(p, t)
            continue
        yield p, None, res


def probe_send_variant():
    """True = as shipped (a non-busy completion code is retried)."""
    tag, trace = run_send(3, ('O193',), 'C')
    return not (tag == 'CompletionCodeError:193' and len(trace) == 1)


def _live_constants():
    import pyipmi
    import pyipmi.helper as H
    from pyipmi.msgs import constants as c

    def dflt(fn, name):
        return inspect.signature(fn).parameters[name].default
    return [c.CC_OK, dflt(H.get_sdr_chunk_helper, 'retry'), c.CC_RES_CANCELED, c.CC_TIMEOUT, c.CC_RESP_COULD_NOT_BE_PRV,
            dflt(H.clear_repository_helper, 'retry'), c.CC_RES_CANCELED, c.REPOSITORY_INITIATE_ERASE,
            c.REPOSITORY_GET_ERASE_STATUS, c.REPOSITORY_ERASURE_IN_PROGRESS, c.REPOSITORY_ERASURE_COMPLETED,
            dflt(pyipmi.Ipmi.send_message, 'retry'), c.CC_NODE_BUSY]


class _Found(object):
    def __init__(self):
        self.best = {}

    def add(self, sig, what, case, expected, observed):
        k = (len(case['script']), case['budget'], case['tail'] or '')
        if sig not in self.best or k < self.best[sig][0]:
            self.best[sig] = (k, what, case, expected, observed)

    def flush(self, ctx):
        for sig, (_, what, case, expected, observed) in sorted(self.best.items()):
            ctx.violate('C13:' + sig, what, case, expected=expected, observed=observed)


def _check_batch(ctx, drv, batch, send_variant, found):
    lines = [model_line(h, b, rv, p, t or 'C', send_variant) for (h, b, rv, p, t, _) in batch]
    models = drv.ask_many(lines) if drv is not None else [None] * len(lines)
    for (h, b, rv, p, t, (tag, trace)), m in zip(batch, models):
        case = {'helper': h, 'budget': b, 'reservation': rv, 'script': list(p), 'tail': t}
        ctx.case((h, b, rv, p, t), nontrivial=len(trace) > 0)
        ctx.count('helper:' + h)
        ctx.count('outcome:' + (tag.split(':')[0]))
        ctx.count('consumed:%d' % sum(1 for e in trace if e[0] != 'r'))
        code_s = '%s %s' % (tag, ','.join(trace) or '-')
        for sig, what in oracle(h, b, rv, tag, trace):
            found.add(sig, what, case, 'see property clause', code_s)
        if m is not None and m != code_s:
            ctx.disagree('%s budget=%d' % (h, b), case, m, code_s)
        if len(ctx.samples) < 6 and len(p) >= 3 and (len(ctx.samples) % 2 == 0) == (tag == 'ok'):
            ctx.sample({'case': case, 'code': code_s, 'model': m})


def run(ctx):
    drv = _try_driver(ctx)
    found = _Found()
    with dev11.no_sleep():
        # constants as seen by the driver (translator) vs the live objects
        live = _live_constants()
        if drv is not None:
            got = [int(x) for x in drv.ask('consts').split()]
            if got != live:
                ctx.disagree('constants', {'order': 'ccOk chunkRetry renew t1 t2 clearRetry renew initiate status inprog done sendRetry busy'},
                             got, live)
        send_variant = probe_send_variant()
        ctx.extra['send_message_variant'] = 'asShipped' if send_variant else 'intended'
        if _gen is not None and _gen['retryAnyCode'] != send_variant:
            ctx.disagree('send_message variant: source reading vs behaviour', {}, _gen['retryAnyCode'], send_variant)
        depth = 5 if ctx.tier == 'quick' else 8
        glue_depth = 3 if ctx.tier == 'quick' else 5
        plans = []
        for b in range(1, 7):
            plans.append(('chunk', b, 3, depth))
            plans.append(('clear', b, None, depth))
            plans.append(('clear', b, 7, depth))
            plans.append(('send', b, None, depth))
            plans.append(('clear_sel', b, None, glue_depth))
            plans.append(('clear_sdr_repository', b, None, glue_depth))
        for h, b, rv, d in plans:
            batch = []
            for p, t, res in explore(runner(h, b, rv), d):
                batch.append((h, b, rv, p, t, res))
                if len(batch) >= 4000:
                    _check_batch(ctx, drv, batch, send_variant, found)
                    batch = []
            _check_batch(ctx, drv, batch, send_variant, found)
            if ctx.time_left() < 20:
                ctx.notes.append('time budget reached during exhaustive exploration at %s budget %d' % (h, b))
                break
        # seeded longer sequences, random other-codes, larger budgets
        rng = ctx.rng('c13')
        named = (0x00, 0xC0, 0xC3, 0xC5, 0xCE)
        n = 3000 if ctx.tier == 'quick' else 40000
        batch = []
        for _ in range(n):
            h = rng.choice(['chunk', 'clear', 'clear', 'send', 'clear_sel', 'clear_sdr_repository'])
            b = rng.randrange(1, 13)
            rv = 3 if h == 'chunk' else (rng.choice([None, rng.randrange(1, 60000)]) if h == 'clear' else None)
            k = rng.randrange(0, 2 * b + 3)
            weights = {'chunk': 'RRTTUUCPBO', 'send': 'BBBBBCPRTUO'}.get(h, 'PPPRRRCCBTUO')
            letters = []
            for _i in range(k):
                l = rng.choice(weights)
                letters.append(l if l != 'O' else 'O%d' % rng.choice([c for c in range(1, 256) if c not in named]))
            t = rng.choice(ALPHABET)
            batch.append((h, b, rv, tuple(letters), t, runner(h, b, rv)(tuple(letters), t)))
            ctx.count('random')
        _check_batch(ctx, drv, batch, send_variant, found)
    found.flush(ctx)


def _try_driver(ctx):
    try:
        return ctx.driver('drv_c13')
    except lean.LeanError:
        ctx.notes.append('driver unavailable: property oracle only')
        return None


def search(ctx):
    """The property oracle already judged the real code on every explored sequence in `run`."""
    return


def replay(ctx, v):
    case = v['case']
    h, b, rv = case['helper'], case['budget'], case.get('reservation')
    with dev11.no_sleep():
        tag, trace = runner(h, b, rv)(tuple(case['script']), case['tail'] or 'C')
    print('%s budget=%d reservation=%s outcomes=%s then %s for ever' % (h, b, rv, ','.join(case['script']) or '-', case['tail'] or 'C'))
    print('  real code: %s  calls: %s' % (tag, ','.join(trace) or '-'))
    bad = oracle(h, b, rv, tag, trace)
    for sig, what in bad:
        print('  property: ' + what)
    want = v['signature'][len('C13:'):]
    return any(sig == want for sig, _ in bad)
