"""C13 — Retry/reservation loops terminate and follow protocol for all outcome sequences."""
import inspect
import itertools

from ..lib import lean
from ..sim import dev11
from ..translate import loops11
from ..translate import loops10

ID = 'C13'
TARGETS = ['PyIpmi.Props.C13', 'drv_c13']
LEVEL = 'proof'
RULE = ('the real helpers are called with scripted callables / a scripted interface; the outcome tree over the 8-letter '
        'alphabet {completed, in-progress, reservation-cancelled, timeout AS A COMPLETION CODE (C3h), timeout AS NO ANSWER '
        '(letter N: the callable - send_fn / clear_fn / reserve_fn / interface.send_and_receive / the byte-level interface - '
        'RAISES pyipmi.errors.IpmiTimeoutError, as the rmcp / ipmb / aardvark interfaces do for a silent target), '
        'response-unavailable, node-busy, other(0xC1)} is explored depth-first and pruned to reachable prefixes (a prefix is extended only if the helper asked for one '
        'more outcome), to depth 5 (quick) / 8 (thorough), for budgets 1..6, with and without a caller-supplied reservation; '
        'every prefix still alive at full depth is continued with each of the 7 letters repeated for ever (call-count guard '
        'against hangs); plus seeded longer sequences with random other-codes and budgets up to 12.  Compared with the Lean '
        'model: exact call sequence (callable, arguments, outcome) and final result/exception.  The property oracle '
        '(bounds, freshness, erase-before-poll, success iff last status complete, propagation, exhaustion, repeat only '
        'after busy) is evaluated on the real trace of every case.  Distinct by (helper, budget, reservation, sequence, tail); '
        'non-trivial = at least one call was made.  RECORD-CHUNK FETCHING ABOVE THE CHUNK HELPER: get_repository_sdr / '
        'get_device_sdr (get_sdr_data_helper over the chunk readers; with and without a caller reservation) and '
        'sdr_repository_entries / device_sdr_entries on the real Ipmi object against a scripted byte-level device (Reserve '
        'grants consecutive ids; every Get (Device) SDR consumes one letter: code 0 serves the requested bytes of a 30- and a '
        '10-byte record, any other letter is answered with its code; alphabet + 0xCA), same exploration (depth 4 / 6, tails, '
        'seeded longer sequences); compared with the Lean model (Model/SdrXfer.lean on SdrXfer.scriptX, variant probed): '
        'outcome, returned bytes and every exchange (reservation id, record id, offset, count, code).  Oracle on the real '
        'trace: every Get carries the id of the most recent Reserve of the operation (the caller\'s before the first), at '
        'most 161 exchanges per record, unexpected codes propagate, a returned record is the stored one.  '
        'THE TWO LOOPS OF pyipmi/sel.py: Sel.get_sel_entry (partial reads: FFh, 16, 15 ... on CAh) and '
        'Sel.get_and_clear_sel_entry (reserve / read / delete, repeated on C5h; every retry budget 1..6 and the default) on '
        'the real Ipmi object against a scripted byte-level SEL device (one 16-byte record; each Get / Delete SEL Entry '
        'consumes one letter; "completed" = COMPLETED WITH k BYTES, 0 <= k <= requested: C serves exactly the bytes asked '
        'for, S<k> at most k of them - S5 and S1 a device that truncates, S0 the answer `00 next-lo next-hi` without a '
        'record byte; the Reserve SEL requests have their own outcome list: first Reserve / renewals refused with node '
        'busy, timeout, other), same exploration (alphabet + 0xCA + S0 S1 S5, depth 4 / 6, tails, seeded longer sequences '
        'with S0..S20); compared with the Lean model (Model/SelXfer.lean on SelXfer.scriptSend, variant - floor, budget, '
        'empty-answer stop - probed on the real code and read from the source): outcome, every request and the number of '
        'record bytes every answer carried.  Oracle: at most 33 requests per get_sel_entry and 35 per round of '
        'get-and-clear, at most `retry` rounds, RetryError (never a loop that goes on: the request cap is the model\'s '
        'fuel - 64 Get SEL Entry per read, 90 rounds - beyond every bound of the repaired loops) and RetryError only '
        'behind a refused 1-byte read or a completed answer without data, every Get / Delete carries the most recent '
        'reservation, unexpected codes (also on Reserve SEL) propagate and end the call, a result is the stored record '
        '(also when it arrived in truncated pieces).  '
        'FIRST POSITION x EVERY BUDGET: for budgets 1..12 and every helper with a budget, every outcome in the first position '
        '(and in the second behind each retried outcome) x every tail, before the depth-first exploration (a defect that '
        'needs one budget and one outcome at one position is met whatever the exploration is cut to).  WAITS: the stand-in '
        'for time.sleep accepts / refuses durations as the real one (negative, NaN -> ValueError; non-number -> TypeError) and '
        'records them; judged per run.  '
        'RESERVE OUTCOMES for the three helpers too: reserve_fn raises CompletionCodeError (node busy / timeout / other) at '
        'its k-th call, k = 0..2 (compared with the model, judged: the error propagates, nothing is called after it); '
        'the same with reserve_fn raising IpmiTimeoutError (N).  NO ANSWER (N) is a letter of every stream above (first '
        'position x budgets 1..12, depth-first exploration, tails, seeded sequences; SDR and SEL byte-level devices too): '
        'chunk / clear / send / the clear glue are compared with the Lean model over the extended alphabet '
        '(Model/RetryNoAnswer.lean), the SDR / SEL operations are judged by the oracle only.  Oracle for N: the request cap '
        'turns "still sending" into <helper>:unbounded:timeout-exception; the bounds count unanswered requests like any '
        'other; IpmiTimeoutError is an accepted end only when the LAST call got no answer; an operation whose last call got '
        'no answer ends with IpmiTimeoutError or RetryError, never with a result; send_message and the SEL loops send '
        'nothing behind an unanswered request.  search(): when a tie broke and run left no violation, every helper x budgets '
        '1..12 x sequences of up to 3 outcomes containing N x every tail is tried again, oracle only.')
ASSUMPTIONS = [
    'control flow of helper.get_sdr_chunk_helper/_clear_repository/clear_repository_helper and Ipmi.send_message is modelled by hand '
    '(Model/Retry.lean) and tied by this correspondence run; constants, loop tests and call sites are re-read from the source by '
    'harness/translate/loops11.py on every run',
    'reserve_fn grants consecutive ids (so a stale reservation is visible) unless the case schedules a failure for its k-th '
    'call; time.sleep is substituted by a recorder that costs no time but treats its ARGUMENT as the real time.sleep '
    'does (harness/sim/realsleep.py: ValueError for a negative / NaN duration, TypeError for a non-number, OverflowError '
    'beyond 2^63 ns) - so a wait the real function refuses ends the helper here as it does in production; the waits of '
    'every run are recorded and judged by the oracle (refused duration = the operation ends with a foreign exception '
    'instead of the repeat; more than 3600 s of waiting in one call = does not end in practice).  The Lean model has no '
    'waits (Model/Retry.lean: sleep is not an effect of the model); durations are judged on the real code only',
    'an outcome sequence is a finite prefix followed by one letter repeated for ever; the theorems quantify over all of them and all '
    'budgets, the exploration over the prefixes a run can consume',
    '"timeout" of the property\'s alphabet has two forms - a response with completion code C3h (letter T) and no answer at all '
    '(letter N: the callable raises pyipmi.errors.IpmiTimeoutError) - and the property does not say which: both are letters.  '
    'On the clean tree N propagates to the caller after that request (the library\'s own error type, bounded): accepted as '
    '"propagate"; a bounded repeat where the helper repeats timeouts would be accepted by the oracle too (the model tie would '
    'still report the change).  The byte-level SDR / SEL devices of the Lean model have no letter N: oracle only there',
    'get_sdr_chunk_helper with retry=0 counts below zero and is outside the model (budgets are >= 1)',
    'record-chunk fetching = the SDR path (get_sdr_chunk_helper, get_sdr_data_helper over _get_sdr_chunk / _get_device_sdr_chunk, '
    'the entries generators) AND the two loops of the anchor file pyipmi/sel.py (get_sel_entry: chunk fetching by partial reads; '
    'get_and_clear_sel_entry: reservation loop) - audit findings c13/finding_2 and finding_3',
    'the scripted SEL device answers a letter with completion code 0 with bytes of its one record, from the offset asked for, '
    'never more than asked for: all of them (C) or at most k (S<k>, k = 0 included - c13/round2/finding_1: "completed" is a '
    'letter of the alphabet, the loop advances by the bytes it received and zero is the boundary).  Answers LONGER than asked '
    'for are not generated; the theorem sel_entry_bounded_any_peer covers them (any peer, any answer)',
    'a loop that does not end is detected by a request cap equal to the model\'s fuel (64 requests per get_sel_entry, 90 rounds '
    'of get-and-clear on a tree without retry budget); both are beyond the bounds proved for the repaired loops (33 / 5 rounds)',
    'clear helper: an initiate-erase answered "erase in progress" is initiated AGAIN instead of being polled (spec_audit_a3 C13 '
    'item 2: a slow-erasing BMC is sent several erase commands and never a status poll).  The letter of the property ("initiate '
    'before polling", bounded, success only after a status read saying completed) is met; recorded as an observation, not judged',
    'the scripted SDR device answers a letter with completion code 0 by serving exactly the requested bytes of its records; what '
    'a real device does about limits and reservations is C11\'s reference device, not this one',
]
TRUSTED = ['harness/translate/loops11.py', 'harness/sim/dev11.py']

# "timeout" has two forms and the property does not say which: T = a response with completion code C3h, N = NO ANSWER
# at all - the callable (send_fn / clear_fn / interface.send_and_receive / the byte-level interface) RAISES
# pyipmi.errors.IpmiTimeoutError, which is what the rmcp / ipmb / aardvark interfaces do when the target is silent
ALPHABET = ['C', 'P', 'R', 'T', 'U', 'B', 'O193', 'N']
NOANS = -1                      # "completion code" of N in the traces (there is none)
# exhaustive exploration of the SDR reads: "other error" includes 0xCA, which get_sdr_data_helper adapts to;
# "in progress" is completion code 0 like "completed" for a Get (the seeded sequences use it)
ALPHABET_SDR = ['C', 'R', 'T', 'U', 'B', 'O193', 'O202', 'N']
# the SEL loops: "completed" is completed with k bytes, 0 <= k <= requested - C = all, S<k> = at most k
ALPHABET_SEL = ALPHABET_SDR + ['S0', 'S1', 'S5']
CODE = {'C': 0x00, 'P': 0x00, 'R': 0xC5, 'T': 0xC3, 'U': 0xCE, 'B': 0xC0}

MODEL_N = True                  # the Lean driver follows outcome sequences with N (Model/RetryNoAnswer.lean)
_gen = None
_gen10 = None
_clock = None                   # the dev11.FakeTime in place while the helpers run (run / replay)
WAIT_BOUND_S = 3600.0           # one helper call asking for more than an hour of waiting does not end in practice


class Res(tuple):
    """(tag, trace) of one run of a helper + what it asked time.sleep for: `waits` (accepted durations, seconds) and
    `rejected` ((repr of the argument, exception name, message) of a call the real time.sleep refuses)."""
    waits = ()
    rejected = ()


def code_of(letter):
    if letter == 'N':               # no answer: IpmiTimeoutError is raised, there is no completion code
        return NOANS
    if letter[0] == 'S':            # completed (with at most <k> record bytes)
        return 0
    return CODE[letter] if letter in CODE else int(letter[1:])


def _no_answer():
    from pyipmi.errors import IpmiTimeoutError
    return IpmiTimeoutError()


def cap_of(letter):
    """S<k> -> k (the answer to a Get SEL Entry carries at most k record bytes); any other letter -> None"""
    return int(letter[1:]) if letter[0] == 'S' and letter != 'N' else None


def translate(ctx):
    global _gen, _gen10
    _gen = loops11.generate()
    _gen10 = loops10.generate(need='sel')


# ---------------------------------------------------------------------------------------
class Script(object):
    def __init__(self, letters, tail, cap, rplan=()):
        self.letters = list(letters)
        self.tail = tail
        self.i = 0
        self.cap = cap
        self.trace = []
        self.last = 0
        self.rplan = list(rplan)        # outcomes of the reserve calls, in order; afterwards every one is granted

    def next(self):
        if len(self.trace) > self.cap:
            raise dev11.HangGuard('more than %d calls' % self.cap)
        if self.i < len(self.letters):
            l = self.letters[self.i]
        elif self.tail is None:
            raise dev11.NeedMore()
        else:
            l = self.tail
        self.i += 1
        return l

    def reserve_code(self):
        """completion code of the next Reserve (0 = granted), consuming one entry of the plan"""
        if len(self.trace) > self.cap:
            raise dev11.HangGuard('more than %d calls' % self.cap)
        c = code_of(self.rplan.pop(0)) if self.rplan else 0
        if c != 0:
            self.trace.append('f%d' % c)
        return c

    def reserve(self):
        """reserve_fn(): grants the next id, or raises CompletionCodeError as the plan says"""
        c = self.reserve_code()
        if c == NOANS:
            raise _no_answer()
        if c != 0:
            from pyipmi.errors import CompletionCodeError
            raise CompletionCodeError(c)
        return self.grant()

    def grant(self):
        self.last += 1
        self.trace.append('r%d' % self.last)
        return self.last


class _Rsp(object):
    def __init__(self, cc):
        self.completion_code = cc


class _Req(object):
    def __init__(self, res):
        self.reservation_id = res


def run_chunk(budget, res0, letters, tail, rplan=()):
    import pyipmi.helper as H
    s = Script(letters, tail, 4 * budget + 40, rplan)
    s.last = res0
    req = _Req(res0)

    def send_fn(r):
        l = s.next()
        s.trace.append('k%d:%s' % (r.reservation_id, l))
        if l == 'N':
            raise _no_answer()
        return _Rsp(code_of(l))
    tag, _ = dev11.outcome_of(lambda: H.get_sdr_chunk_helper(send_fn, req, s.reserve, retry=budget) and None)
    return tag, s.trace


def _clear_fn(s):
    from pyipmi.msgs import constants
    from pyipmi.errors import CompletionCodeError

    def clear_fn(ctrl, res):
        l = s.next()
        s.trace.append('c%d:%d:%s' % (ctrl, res, l))
        if l == 'C':
            return constants.REPOSITORY_ERASURE_COMPLETED
        if l == 'P':
            return constants.REPOSITORY_ERASURE_IN_PROGRESS
        if l == 'N':
            raise _no_answer()
        raise CompletionCodeError(code_of(l))
    return clear_fn


def run_clear(budget, rv, letters, tail, rplan=()):
    import pyipmi.helper as H
    s = Script(letters, tail, 8 * budget + 40, rplan)
    s.last = rv if rv is not None else 0
    tag, val = dev11.outcome_of(lambda: H.clear_repository_helper(s.reserve, _clear_fn(s), retry=budget, reservation=rv))
    if tag == 'ok' and val is not None:
        tag = 'py:returned-%r' % (val,)
    return tag, s.trace


def run_send(budget, letters, tail):
    import pyipmi
    from pyipmi.errors import CompletionCodeError
    from pyipmi.msgs.bmc import GetDeviceIdReq, GetDeviceIdRsp
    s = Script(letters, tail, 4 * budget + 40)
    rsp = GetDeviceIdRsp()

    class Iface(object):
        def send_and_receive(self, req):
            l = s.next()
            s.trace.append('x%s' % l)
            c = code_of(l)
            if c == 0:
                return rsp
            if c == NOANS:
                raise _no_answer()
            raise CompletionCodeError(c)
    ipmi = pyipmi.Ipmi(interface=Iface())
    ipmi.target = None
    tag, val = dev11.outcome_of(lambda: ipmi.send_message(GetDeviceIdReq(), retry=budget))
    if tag == 'ok' and val is not rsp:
        tag = 'py:returned-other-object'
    return tag, s.trace


GLUE = {
    # name: (netfn, reserve cmd, clear cmd, method)
    'clear_sel': (0x0A, dev11.CMD_RESERVE_SEL, dev11.CMD_CLEAR_SEL),
    'clear_sdr_repository': (0x0A, dev11.CMD_RESERVE, dev11.CMD_CLEAR_SDR),
}


def run_glue(name, budget, letters, tail, rplan=()):
    """Sel.clear_sel / Sdr.clear_sdr_repository through a scripted byte-level interface."""
    netfn, cmd_res, cmd_clr = GLUE[name]
    s = Script(letters, tail, 8 * budget + 40, rplan)
    notes = []

    def handler(nf, cmd, data):
        if nf == netfn and cmd == cmd_res and len(data) == 0:
            c = s.reserve_code()
            if c == NOANS:
                raise _no_answer()
            if c != 0:
                return bytes([c])           # the Reserve command itself is refused
            r = s.grant()
            return bytes([0, r & 0xFF, r >> 8])
        if nf == netfn and cmd == cmd_clr and len(data) == 6:
            if data[2:5] != b'CLR':
                notes.append('clear request without the CLR key: %s' % data.hex())
            l = s.next()
            s.trace.append('c%d:%d:%s' % (data[5], data[0] + 256 * data[1], l))
            if l == 'C':
                return bytes([0x00, 0x01])
            if l == 'P':
                return bytes([0x00, 0x00])
            if l == 'N':
                raise _no_answer()
            return bytes([code_of(l)])
        notes.append('unexpected request %02x %02x %s' % (nf, cmd, data.hex()))
        return bytes([0xC1])
    ipmi, _ = dev11.make_ipmi(handler)
    tag, val = dev11.outcome_of(lambda: getattr(ipmi, name)(retry=budget))
    if notes:
        tag = 'py:' + notes[0]
    return tag, s.trace


# ---- record-chunk fetching above the chunk helper: real Ipmi object, scripted byte-level SDR device ----------
RECP = dev11.make_record(1, 0xC0, bytes(bytearray(range(1, 26))))      # 30 bytes: header, 20, 5
RECQ = dev11.make_record(2, 0xC0, bytes(bytearray([9, 8, 7, 6, 5])))   # 10 bytes: header, 5
SDR_RECS = [RECP, RECQ]
SDR_HELPERS = ('data:r', 'data:d', 'list:r', 'list:d')
SDR_NETFN = {'r': dev11.NETFN_STORAGE, 'd': dev11.NETFN_SENSOR}
SDR_GET = {dev11.NETFN_STORAGE: dev11.CMD_GET_SDR, dev11.NETFN_SENSOR: dev11.CMD_GET_DEVICE_SDR}
SDR_BOUND = 161                 # Lean: data_requests_bounded


def _sdr_lookup(rid):
    ids = [dev11.rec_id(r) for r in SDR_RECS]
    i = 0 if rid == 0 else (ids.index(rid) if rid in ids else None)
    if i is None:
        return None
    return SDR_RECS[i], (ids[i + 1] if i + 1 < len(ids) else 0xFFFF)


def run_sdr(helper, rv, letters, tail):
    """get_repository_sdr / get_device_sdr (record 1) or the entries generator of store `helper[-1]`."""
    kind, store = helper.split(':')
    s = Script(letters, tail, 2 * SDR_BOUND * len(SDR_RECS) + 40)
    s.last = rv if rv is not None else 0

    def handler(nf, cmd, data):
        mine = nf == SDR_NETFN[store]
        if nf in SDR_GET and cmd == dev11.CMD_RESERVE and len(data) == 0:
            r = s.reserve()
            if not mine:
                s.trace[-1] = 'w%d' % r
            return bytes([0, r & 0xFF, r >> 8])
        if nf in SDR_GET and cmd == SDR_GET[nf] and len(data) == 6:
            res, rid, off, cnt = data[0] | data[1] << 8, data[2] | data[3] << 8, data[4], data[5]
            l = s.next()
            c = code_of(l)
            s.trace.append('%s%d:%d:%d:%d:%d' % ('g' if mine else 'h', res, rid, off, cnt, c))
            if c == NOANS:
                raise _no_answer()
            if c != 0:
                return bytes([c])
            hit = _sdr_lookup(rid)
            if hit is None:
                return bytes([0xCB])
            served = hit[0][off:off + cnt]
            if cap_of(l) is not None:       # S<k>: completed with at most k bytes (the boundary probes below; no model line)
                served = served[:cap_of(l)]
            return bytes([0, hit[1] & 0xFF, hit[1] >> 8]) + served
        s.trace.append('?')
        return bytes([0xC1])
    ipmi, _ = dev11.make_ipmi(handler)

    def op():
        if kind == 'data':
            fn = ipmi.get_repository_sdr if store == 'r' else ipmi.get_device_sdr
            x = fn(1, rv)
            return '%d:%s' % (x.next_id, lean.hexs(bytes(bytearray(x.data.array))))
        g = ipmi.sdr_repository_entries() if store == 'r' else ipmi.device_sdr_entries()
        return ';'.join(lean.hexs(bytes(bytearray(x.data.array))) for x in g) or '-'
    tag, val = dev11.outcome_of(op)
    if tag == 'ok':
        tag = 'ok=%s' % val
    return tag, s.trace


# ---- the two loops of pyipmi/sel.py: real Ipmi object, scripted byte-level SEL device -------------------------
SEL_REC = bytes(bytearray([0x01, 0x00, 0x02, 1, 2, 3, 4, 0x20, 0, 4, 1, 0x10, 0x6F, 0xA1, 0xB2, 0xC3]))
SEL_NEXT = 0xFFFF
SEL_HELPERS = ('sel:entry', 'sel:gac')
SEL_ENTRY_FUEL = 64             # Lean: SelXfer.entryFuel - Get SEL Entry requests of one get_sel_entry the model follows
SEL_GAC_FUEL = 90               # rounds of get-and-clear followed on a tree without retry budget (`while True`)
SEL_ENTRY_BOUND = 33            # Lean: sel_entry_bounded
SEL_ROUND_BOUND = 35            # Lean: sel_get_and_clear_bounded (per round)
SEL_DEFAULT_ROUNDS = 5          # Variant.intended.budget
SEL_VARIANT = {'floor': None, 'budget': None, 'empty': False}


def run_sel(helper, budget, rv, letters, tail, rplan=()):
    """get_sel_entry(1, rv) / get_and_clear_sel_entry(1[, retry=budget]) against the scripted SEL device.
    budget None = the call without `retry`.  A loop that does not end is stopped where the model's fuel ends."""
    s = Script(letters, tail, 100000, rplan)
    s.last = rv or 0
    gets = [0]
    rounds = [0]
    max_rounds = SEL_GAC_FUEL if SEL_VARIANT['budget'] is None else None

    def handler(nf, cmd, data):
        if nf != dev11.NETFN_STORAGE:
            s.trace.append('?')
            return bytes([0xC1])
        if cmd == dev11.CMD_RESERVE_SEL and len(data) == 0:
            if max_rounds is not None and rounds[0] >= max_rounds:
                raise dev11.HangGuard('more than %d rounds' % max_rounds)
            rounds[0] += 1
            gets[0] = 0
            c = s.reserve_code()
            if c == NOANS:
                raise _no_answer()
            if c != 0:
                return bytes([c])
            r = s.grant()
            return bytes([0, r & 0xFF, r >> 8])
        if cmd == 0x43 and len(data) == 6:
            if gets[0] >= SEL_ENTRY_FUEL:
                raise dev11.HangGuard('more than %d Get SEL Entry in one read' % SEL_ENTRY_FUEL)
            gets[0] += 1
            res, rid, off, cnt = data[0] | data[1] << 8, data[2] | data[3] << 8, data[4], data[5]
            l = s.next()
            c = code_of(l)
            if c != 0:
                s.trace.append('g%d:%d:%d:%d:%d:0' % (res, rid, off, cnt, c))
                if c == NOANS:
                    raise _no_answer()
                return bytes([c])
            served = SEL_REC[off:] if cnt == 0xFF else SEL_REC[off:off + cnt]
            if cap_of(l) is not None:
                served = served[:cap_of(l)]
            s.trace.append('g%d:%d:%d:%d:%d:%d' % (res, rid, off, cnt, c, len(served)))
            return bytes([0, SEL_NEXT & 0xFF, SEL_NEXT >> 8]) + served
        if cmd == 0x46 and len(data) == 4:
            res, rid = data[0] | data[1] << 8, data[2] | data[3] << 8
            l = s.next()
            c = code_of(l)
            s.trace.append('d%d:%d:%d' % (res, rid, c))
            if c == NOANS:
                raise _no_answer()
            if c != 0:
                return bytes([c])
            return bytes([0, data[2], data[3]])
        s.trace.append('?')
        return bytes([0xC1])
    ipmi, _ = dev11.make_ipmi(handler)

    def op():
        if helper == 'sel:entry':
            e, nxt = ipmi.get_sel_entry(1, rv)
            return '%s:%d' % (lean.hexs(bytes(bytearray(e.data.array))), nxt)
        if budget is None:
            e = ipmi.get_and_clear_sel_entry(1)
        else:
            e = ipmi.get_and_clear_sel_entry(1, retry=budget)
        return lean.hexs(bytes(bytearray(e.data.array)))
    tag, val = dev11.outcome_of(op)
    if tag == 'ok':
        tag = 'ok=%s' % val
    elif tag == 'py:Hang':
        tag = 'py:nontermination'           # the model's word for "out of fuel"
    return tag, s.trace


def probe_sel_variant():
    """floor: every Get SEL Entry answered CAh - RetryError behind a last request of F+1 bytes means the length has the
    floor F, no end within the cap means none.  budget: every Get answered C5h, call without `retry` - RetryError after N
    Reserve SEL means a budget with default N.  empty: every Get completed without a record byte - RetryError behind the
    first such answer means the loop has the empty-answer stop, no end within the cap means it has not."""
    SEL_VARIANT.update(floor=None, budget=None, empty=False)
    tag, trace = run_sel('sel:entry', None, 7, (), 'O202')
    floor = None
    if tag == 'RetryError' and trace and trace[-1][0] == 'g':
        floor = int(trace[-1].split(':')[3]) - 1
    tag, trace = run_sel('sel:gac', None, None, (), 'R')
    budget = sum(1 for e in trace if e[0] == 'r') if tag == 'RetryError' else None
    tag, trace = run_sel('sel:entry', None, 7, (), 'S0')
    empty = tag == 'RetryError' and len(trace) == 1
    SEL_VARIANT.update(floor=floor, budget=budget, empty=empty)
    return dict(SEL_VARIANT)


def probe_stale_variant():
    """True = as shipped: after a renewal the next chunk is requested with the cancelled id again."""
    seen = set()
    for h in SDR_HELPERS:
        _, trace = run_sdr(h, None, ('C', 'R'), 'C')
        # r1 g(header) g(chunk: C5h) r2 g(chunk repeated with 2) | what the requests after that carry
        if len(trace) < 6 or trace[3] != 'r2':
            return None
        seen.update(int(e[1:].split(':')[0]) != 2 for e in trace[5:] if e[0] == 'g')
    return seen.pop() if len(seen) == 1 else None


def _runner(helper, budget, rv, rplan=()):
    if helper in SDR_HELPERS:
        return lambda p, t: run_sdr(helper, rv, p, t)
    if helper in SEL_HELPERS:
        return lambda p, t: run_sel(helper, budget, rv, p, t, rplan)
    if helper == 'chunk':
        return lambda p, t: run_chunk(budget, rv, p, t, rplan)
    if helper == 'clear':
        return lambda p, t: run_clear(budget, rv, p, t, rplan)
    if helper == 'send':
        return lambda p, t: run_send(budget, p, t)
    return lambda p, t: run_glue(helper, budget, p, t, rplan)


def runner(helper, budget, rv, rplan=()):
    """-> fn(prefix, tail) -> Res: the run together with the waits it asked for (the stand-in for time.sleep accepts
    and refuses durations as the real one does, sim/realsleep.py)."""
    fn = _runner(helper, budget, rv, rplan)

    def run_one(p, t):
        if _clock is not None:
            del _clock.sleeps[:]
            del _clock.rejected[:]
        res = Res(fn(p, t))
        if _clock is not None:
            res.waits = tuple(_clock.sleeps)
            res.rejected = tuple(_clock.rejected)
        return res
    return run_one


def model_line(helper, budget, rv, letters, tail, send_variant, stale_variant=True, rplan=()):
    ls = ','.join(letters) or '-'
    rp = ','.join(rplan) or '-'
    if helper in SEL_HELPERS:
        fl = '%s %d' % ('-' if SEL_VARIANT['floor'] is None else str(SEL_VARIANT['floor']), 1 if SEL_VARIANT['empty'] else 0)
        common = '%d %s %d %s %s %s' % (rv or 0, lean.hexs(SEL_REC), SEL_NEXT, rp, ls, tail)
        if helper == 'sel:entry':
            return 'selentry %s 1 %d %s' % (fl, rv or 0, common)
        if SEL_VARIANT['budget'] is None:
            return 'selgac %s f%d 1 %s' % (fl, SEL_GAC_FUEL, common)
        return 'selgac %s b%d 1 %s' % (fl, SEL_VARIANT['budget'] if budget is None else budget, common)
    if ('N' in letters or tail == 'N' or 'N' in rplan) and helper not in SDR_HELPERS:
        # the alphabet with N = no answer: Model/RetryNoAnswer.lean
        if helper == 'chunk':
            return 'chunkx %d %d %s %s %s' % (budget, rv, rp, ls, tail)
        if helper == 'send':
            return 'sendx %d %d %s %s' % (1 if send_variant else 0, budget, ls, tail)
        return 'clearx %d %s %s %s %s' % (budget, '-' if rv is None else rv, rp, ls, tail)
    if rplan and helper == 'chunk':
        return 'chunkr %d %d %s %s %s' % (budget, rv, rp, ls, tail)
    if rplan and helper not in SDR_HELPERS and helper != 'send':
        return 'clearr %d %s %s %s %s' % (budget, '-' if rv is None else rv, rp, ls, tail)
    if helper in SDR_HELPERS:
        kind, store = helper.split(':')
        recs = ','.join(lean.hexs(r) for r in SDR_RECS)
        st = 1 if stale_variant else 0
        if kind == 'data':
            return 'data %s %d 1 %s %d %s %s %s' % (store, st, '-' if rv is None else rv, rv or 0, recs, ls, tail)
        return 'dlist %s %d %d %d %s %s %s' % (store, st, len(SDR_RECS) + 1, 0, recs, ls, tail)
    if helper == 'chunk':
        return 'chunk %d %d %s %s' % (budget, rv, ls, tail)
    if helper == 'send':
        return 'send %d %d %s %s' % (1 if send_variant else 0, budget, ls, tail)
    return 'clear %d %s %s %s' % (budget, '-' if rv is None else rv, ls, tail)


# ---------------------------------------------------------------------------------------
# Property oracle on a real trace (written from the property text, independent of the Lean model)
def _events(trace):
    out = []
    for e in trace:
        if e[0] == 'r':
            out.append(('r', int(e[1:])))
        elif e[0] == 'c':
            a, b, l = e[1:].split(':')
            out.append(('c', int(a), int(b), l))
        elif e[0] == 'k':
            a, l = e[1:].split(':')
            out.append(('k', int(a), l))
        elif e[0] == 'f':
            out.append(('f', int(e[1:])))
        else:
            out.append(('x', e[1:]))
    return out


def oracle_sdr(helper, rv, tag, trace):
    """Record-chunk fetching above the chunk helper, judged on the exchanges the scripted device saw."""
    bad = []
    kind, store = helper.split(':')
    name = {'data:r': 'get_repository_sdr', 'data:d': 'get_device_sdr', 'list:r': 'sdr_repository_entries',
            'list:d': 'device_sdr_entries'}[helper]
    noans = [i for i, e in enumerate(trace) if e[0] == 'g' and e.endswith(':%d' % NOANS)]
    limit = SDR_BOUND if kind == 'data' else 1 + (SDR_BOUND - 1) * len(SDR_RECS)
    na_repeated = bool(noans) and (len(noans) > 1 or noans[-1] != len(trace) - 1)
    if na_repeated and (tag.startswith('py:Hang') or len(trace) > limit):
        bad.append(_unbounded_noanswer(helper, name, len(trace), len(noans), limit, tag))
    elif tag.startswith('py:Hang'):
        bad.append(('unbounded:%s' % name, '%s does not stop (call guard hit)' % name))
    elif tag == 'IpmiTimeoutError' and noans and noans[-1] == len(trace) - 1:
        pass                            # the target did not answer the last request: the library's own error propagates
    elif not tag.startswith('ok=') and tag != 'RetryError' and not tag.startswith('CompletionCodeError:'):
        bad.append(('other-exception:%s' % name, '%s ends with %s' % (name, tag)))
    if len(trace) > limit and not na_repeated:
        bad.append(('unbounded:%s' % name, '%s made %d requests (bound %d)' % (name, len(trace), limit)))
    if noans and noans[-1] == len(trace) - 1 and tag not in ('IpmiTimeoutError', 'RetryError') and not tag.startswith('py:Hang'):
        bad.append(('%s:timeout-exception-swallowed' % helper, '%s: the last request got no answer (IpmiTimeoutError raised by the '
                    'interface) and the operation ended with %s' % (name, tag)))
    if any(e[0] in 'wh?' for e in trace):
        bad.append(('data_helper:request-to-other-store', '%s sent %s' % (
            name, [e for e in trace if e[0] in 'wh?'][0])))
    # most recently obtained reservation: every Get carries the id of the last Reserve (the caller's before the first)
    held, renewed_in, nrec, prev_off = rv, None, 0, None
    gets = []
    for i, e in enumerate(trace):
        if e[0] == 'r':
            held = int(e[1:])
            if i > 0 and trace[i - 1][0] == 'g' and trace[i - 1].endswith(':197'):
                renewed_in = nrec
        elif e[0] == 'g':
            res, rid, off, cnt, c = [int(x) for x in e[1:].split(':')]
            if off == 0 and prev_off != 0:
                nrec += 1               # the header read of the next record (both records have more than a header)
            prev_off = off
            gets.append((i, c))
            if res != held:
                where = 'entries' if renewed_in is not None and nrec != renewed_in else 'data_helper'
                bad.append(('%s:stale-reservation-after-renewal' % where,
                            '%s: request %d (Get record %d offset %d) carries reservation %d while the most recently obtained '
                            'one is %s%s' % (name, i, rid, off, res, held, '' if renewed_in is None else
                                             ' (renewed during the read of record number %d, this is number %d)' % (renewed_in, nrec))))
                break
    # unexpected completion codes propagate (0xC5 / 0xC3 / 0xCE are retried, 0xCA shrinks the request)
    for i, c in gets:
        if c not in (0x00, 0xC5, 0xC3, 0xCE, 0xCA, NOANS):
            if tag != 'CompletionCodeError:%d' % c or i != len(trace) - 1:
                bad.append(('code-not-propagated:%s' % name, '%s got completion code 0x%02x at request %d of %d and ended with %s' % (
                    name, c, i, len(trace), tag)))
            break
    if tag.startswith('ok='):
        want = '%d:%s' % (dev11.rec_id(RECQ), lean.hexs(RECP)) if kind == 'data' else ';'.join(lean.hexs(r) for r in SDR_RECS)
        if tag[3:] != want:
            bad.append(('data_helper:wrong-data', '%s returned %s, the device holds %s' % (name, tag[3:][:80], want[:80])))
    return bad


def oracle_sel(helper, budget, rv, tag, trace):
    """The two loops of pyipmi/sel.py, judged on the exchanges the scripted device saw (r<id> Reserve granted, f<cc>
    Reserve refused, g<res>:<rid>:<off>:<len>:<cc>:<record bytes in the answer> Get SEL Entry, d<res>:<rid>:<cc> Delete SEL
    Entry)."""
    bad = []
    entry = helper == 'sel:entry'
    name = 'get_sel_entry' if entry else 'get_and_clear_sel_entry'
    # rounds: [reserve event or None, gets, delete or None]
    rounds, cur = [], None
    for i, e in enumerate(trace):
        if e[0] in 'rf' or cur is None:
            cur = {'res': e if e[0] in 'rf' else None, 'gets': [], 'del': None}
            rounds.append(cur)
            if e[0] in 'rf':
                continue
        if e[0] == 'g':
            cur['gets'].append([int(x) for x in e[1:].split(':')])
        elif e[0] == 'd':
            cur['del'] = [int(x) for x in e[1:].split(':')]
    allowed_rounds = (SEL_DEFAULT_ROUNDS if budget is None else budget)
    noans = [i for i, e in enumerate(trace) if (e[0] == 'g' and e.split(':')[4] == str(NOANS)) or
             (e[0] == 'd' and e.split(':')[2] == str(NOANS)) or e == 'f%d' % NOANS]
    last_noans = bool(noans) and noans[-1] == len(trace) - 1
    if noans and not (last_noans and len(noans) == 1) and (tag == 'py:nontermination' or len(trace) > SEL_ROUND_BOUND * allowed_rounds):
        bad.append(_unbounded_noanswer(helper, name, len(trace), len(noans), SEL_ROUND_BOUND * allowed_rounds, tag))
    elif noans and not last_noans:
        # the SEL loops repeat behind C5h / CAh only (a C3h answer propagates): nothing is sent behind "no answer"
        bad.append(('%s:request-after-timeout-exception' % helper, '%s: request %d of %d got no answer (IpmiTimeoutError raised by '
                    'the interface) and the operation went on sending; it ended with %s' % (name, noans[0] + 1, len(trace), tag)))
    if last_noans and tag != 'IpmiTimeoutError' and tag != 'py:nontermination':
        bad.append(('%s:timeout-exception-swallowed' % helper, '%s: the last request got no answer (IpmiTimeoutError raised by the '
                    'interface) and the operation ended with %s' % (name, tag)))
    # bounded; the retry-exhausted error instead of a loop that goes on
    long_read = [r for r in rounds if len(r['gets']) > SEL_ENTRY_BOUND]
    if long_read or (entry and tag == 'py:nontermination'):
        n = len(long_read[0]['gets']) if long_read else len(trace)
        gets = (long_read[0] if long_read else rounds[-1])['gets']
        tail_gets = gets[-8:]
        if tail_gets and all(g[4] == 0 and g[5] == 0 for g in tail_gets):
            # the last requests were all "completed" without a record byte - and identical
            sig = 'get_sel_entry:unbounded-on-empty-answer'
            bad.append((sig, 'get_sel_entry is still asking after %d Get SEL Entry requests: the device answers "completed" '
                        'without a record byte (00 next-lo next-hi), the offset stays at %d and the identical request (%d '
                        'bytes from offset %d) is sent again and again; expected RetryError (a bounded loop needs at most %d '
                        'requests)' % (n, tail_gets[-1][2], tail_gets[-1][3], tail_gets[-1][2], SEL_ENTRY_BOUND)))
        else:
            sig = 'get_sel_entry:unbounded-after-CAh' if any(g[4] == 0xCA for g in gets) else 'unbounded:get_sel_entry'
            bad.append((sig, 'get_sel_entry is still asking after %d Get SEL Entry requests (a repaired loop needs at most %d: '
                        'the 17 lengths FFh, 16 ... 1 and one request per byte); lengths asked for: %s ...' % (
                            n, SEL_ENTRY_BOUND, ' '.join('%02x' % g[3] for g in gets[:22]))))
    elif not entry and (tag == 'py:nontermination' or len(rounds) > allowed_rounds
                        or len(trace) > SEL_ROUND_BOUND * allowed_rounds):
        last = [r for r in rounds if r['gets'] or r['del']][-3:]
        after = any((r['gets'] and r['gets'][-1][4] == 0xC5) or (r['del'] and r['del'][2] == 0xC5) for r in last)
        sig = 'get_and_clear_sel_entry:unbounded-after-C5h' if after else 'unbounded:get_and_clear_sel_entry'
        bad.append((sig, 'get_and_clear_sel_entry is in round %d after %d requests and has not given up (retry budget %s: at most %d '
                    'rounds, %d requests)' % (len(rounds), len(trace), 'default' if budget is None else budget, allowed_rounds,
                                              SEL_ROUND_BOUND * allowed_rounds)))
    elif tag == 'IpmiTimeoutError' and last_noans:
        pass                            # no answer to the last request: the library's own error propagates
    elif not tag.startswith('ok=') and tag != 'RetryError' and not tag.startswith('CompletionCodeError:'):
        bad.append(('other-exception:%s' % name, '%s ends with %s' % (name, tag)))
    if any(e == '?' for e in trace):
        bad.append(('unexpected-request:%s' % name, '%s sent a request that is neither Reserve / Get / Delete SEL Entry' % name))
    # most recently obtained reservation (the caller's for get_sel_entry)
    held = rv
    for e in trace:
        if e[0] == 'r':
            held = int(e[1:])
        elif e[0] in 'gd':
            res = int(e[1:].split(':')[0])
            if res != held:
                bad.append(('stale-reservation:%s' % name, '%s sent reservation %d while the most recently obtained one is %s (%s)' % (
                    name, res, held, e)))
                break
    # unexpected completion codes propagate and end the call; C5h restarts get-and-clear, CAh shrinks the read
    for i, e in enumerate(trace):
        c = None
        if e[0] == 'f':
            c = int(e[1:])
        elif e[0] in 'gd':
            c = int(e.split(':')[4 if e[0] == 'g' else 2])
            if c == 0 or (e[0] == 'g' and c == 0xCA) or (not entry and c == 0xC5):
                c = None
        if c == NOANS:
            break                       # judged above
        if c is not None:
            if tag != 'CompletionCodeError:%d' % c or i != len(trace) - 1:
                bad.append(('code-not-propagated:%s' % name, '%s got completion code 0x%02x at request %d of %d (%s) and ended with %s' % (
                    name, c, i + 1, len(trace), e, tag)))
            break
    # RetryError only when something was exhausted
    if tag == 'RetryError':
        last = trace[-1] if trace else ''
        lg = [int(x) for x in last[1:].split(':')] if last[:1] == 'g' else None
        # the read is given up behind a refusal (CAh) or behind a completed answer that brought no byte
        gave_up_read = lg is not None and (lg[4] == 0xCA or (lg[4] == 0 and lg[5] == 0))
        if entry and not gave_up_read:
            bad.append(('retry-error-unfounded:%s' % name, 'get_sel_entry raised RetryError although its last request (%s) was '
                        'neither refused with CAh nor completed without data' % (last or 'none')))
        if not entry and not gave_up_read and len(rounds) < allowed_rounds:
            bad.append(('retry-error-unfounded:%s' % name, 'get_and_clear_sel_entry raised RetryError after %d of %d rounds' % (
                len(rounds), allowed_rounds)))
    # a length of 1 byte is still tried before the read is given up (C12: partial-read limits 1..16)
    if tag == 'RetryError' and trace and trace[-1][:1] == 'g' and int(trace[-1].split(':')[4]) == 0xCA \
            and int(trace[-1].split(':')[3]) != 1:
        bad.append(('gives-up-early:get_sel_entry', 'the read was given up with RetryError after a refused request of %s bytes: '
                    'shorter reads were never tried' % trace[-1].split(':')[3]))
    # a result is the stored record, and for get-and-clear the last request was the acknowledged delete
    if tag.startswith('ok='):
        want = '%s:%d' % (lean.hexs(SEL_REC), SEL_NEXT) if entry else lean.hexs(SEL_REC)
        if tag[3:] != want:
            bad.append(('wrong-data:%s' % name, '%s returned %s, the device holds %s' % (name, tag[3:][:60], want)))
        if not entry and not (trace and trace[-1][0] == 'd' and trace[-1].endswith(':0')):
            bad.append(('result-without-delete:%s' % name, 'get_and_clear_sel_entry returned a record but its last request was %s' % (
                trace[-1] if trace else 'none')))
    return bad


def _unbounded_noanswer(helper, name, ncalls, n_noans, bound, tag):
    """-> (signature, text): the operation is still sending / sent more than its bound, and the target gave NO ANSWER
    (the interface raised IpmiTimeoutError) to some of the requests."""
    return ('%s:unbounded:timeout-exception' % helper,
            '%s made %d requests%s, %d of them got no answer at all (the callable raised pyipmi.errors.IpmiTimeoutError - the '
            'exception form of "timeout", as the rmcp / ipmb / aardvark interfaces report a silent target) and %s; expected: a '
            'bounded number of requests, then the retry-exhausted error or the IpmiTimeoutError itself' % (
                name, ncalls, '' if bound is None else ' (bound %d)' % bound, n_noans,
                'it is still sending (request cap hit)' if tag.startswith(('py:Hang', 'py:nontermination')) else 'ended with ' + tag))


HELPER_NAME = {'chunk': 'get_sdr_chunk_helper', 'clear': 'clear_repository_helper', 'send': 'send_message',
               'data:r': 'get_repository_sdr', 'data:d': 'get_device_sdr', 'list:r': 'sdr_repository_entries',
               'list:d': 'device_sdr_entries', 'sel:entry': 'get_sel_entry', 'sel:gac': 'get_and_clear_sel_entry'}


def oracle_waits(helper, tag, trace, waits, rejected):
    """The waits between the requests: a duration the real time.sleep refuses (negative, NaN, not a number) ends the
    operation in production with that ValueError / TypeError - after the requests made so far, without the repeat the
    property asks for and with an exception that is neither the completed result, nor the propagated completion code,
    nor RetryError; a call that asks for more than WAIT_BOUND_S of waiting does not end in practice."""
    name = HELPER_NAME.get(helper, helper)
    bad = []
    if rejected:
        arg, exc, msg = rejected[0]
        bad.append(('bad-wait-duration:%s' % name,
                    '%s called time.sleep(%s) after %d request(s): the real time.sleep raises %s(%r) - the operation ends '
                    'with %s instead of repeating the request / raising RetryError or the completion code' % (
                        name, arg, sum(1 for e in trace if e[0] not in 'rf'), exc, msg, tag)))
    total = sum(waits)
    if total > WAIT_BOUND_S:
        bad.append(('unbounded-wait:%s' % name, '%s asked for %.0f s of waiting in one call (%d waits, longest %.0f s)' % (
            name, total, len(waits), max(waits))))
    return bad


def oracle(helper, budget, rv, tag, trace, waits=(), rejected=()):
    """-> list of (signature-suffix, what)."""
    bad = _oracle(helper, budget, rv, tag, trace)
    w = oracle_waits(helper, tag, trace, waits, rejected)
    if rejected and tag == 'py:' + rejected[0][1]:
        # the unexpected exception IS the refused wait: report it under the specific signature only
        bad = [b for b in bad if not b[0].startswith(('other-exception:', 'exhaustion:'))]
    return w + bad


def _oracle(helper, budget, rv, tag, trace):
    if helper in SDR_HELPERS:
        return oracle_sdr(helper, rv, tag, trace)
    if helper in SEL_HELPERS:
        return oracle_sel(helper, budget, rv, tag, trace)
    bad = []
    ev = _events(trace)
    name = {'chunk': 'get_sdr_chunk_helper', 'clear': 'clear_repository_helper', 'send': 'send_message'}.get(helper, helper)
    ncalls = sum(1 for e in ev if e[0] in 'ckx')
    nres = sum(1 for e in ev if e[0] in 'rf')
    noans = [i for i, e in enumerate(ev) if (e[0] in 'ckx' and e[-1] == 'N') or (e[0] == 'f' and e[1] == NOANS)]
    last_noans = bool(noans) and noans[-1] == len(ev) - 1
    # the unanswered calls are to blame for a broken bound only if something was sent BEHIND one of them
    na_repeated = bool(noans) and (len(noans) > 1 or not last_noans)
    if tag.startswith('py:Hang') and na_repeated:
        bad.append(_unbounded_noanswer(helper, name, ncalls, len(noans), None, tag))
    elif tag.startswith('py:Hang'):
        bad.append(('unbounded:%s' % name, '%s does not stop (call guard hit)' % name))
    elif tag == 'IpmiTimeoutError' and last_noans:
        pass                            # no answer to the last request: the library's own error type propagates
    elif tag not in ('ok', 'RetryError') and not tag.startswith('CompletionCodeError:'):
        bad.append(('other-exception:%s' % name, '%s ends with %s' % (name, tag)))
    if last_noans and tag not in ('IpmiTimeoutError', 'RetryError') and not tag.startswith('py:Hang'):
        bad.append(('%s:timeout-exception-swallowed' % helper, '%s: the last call got no answer (IpmiTimeoutError raised) and '
                    'the helper ended with %s' % (name, tag)))
    res_failed = False
    for i, e in enumerate(ev):
        if e[0] == 'f':
            # reserve_fn failed: that CompletionCodeError is what the helper ends with, nothing is called after it
            res_failed = True
            if e[1] == NOANS:
                if tag != 'IpmiTimeoutError' or i != len(ev) - 1:
                    bad.append(('reserve-failure-not-propagated:%s' % name,
                                '%s: reserve_fn raised IpmiTimeoutError (no answer) at call %d of %d and the helper ended '
                                'with %s' % (name, i + 1, len(ev), tag)))
            elif tag != 'CompletionCodeError:%d' % e[1] or i != len(ev) - 1:
                bad.append(('reserve-failure-not-propagated:%s' % name,
                            '%s: reserve_fn raised CompletionCodeError(0x%02x) at call %d of %d and the helper ended with %s' % (
                                name, e[1], i + 1, len(ev), tag)))
            break
    if helper == 'chunk':
        lim, rlim = budget - 1, budget - 1
    elif helper == 'send':
        lim, rlim = budget, 0
    else:
        lim, rlim = 2 * (budget - 1), 2 * (budget - 1) + 1
    if (ncalls > lim or nres > rlim) and na_repeated:
        if not tag.startswith('py:Hang'):
            bad.append(_unbounded_noanswer(helper, name, ncalls, len(noans), lim, tag))
    elif ncalls > lim or nres > rlim:
        bad.append(('unbounded:%s' % name, '%s made %d requests and %d reservations with budget %d (bound %d / %d)' % (
            name, ncalls, nres, budget, lim, rlim)))
    # most recently obtained reservation
    cur = rv
    for e in ev:
        if e[0] == 'r':
            cur = e[1]
        elif e[0] == 'c' and e[2] != cur or e[0] == 'k' and e[1] != cur:
            bad.append(('stale-reservation:%s' % name, '%s sent reservation %s while the most recent one is %s' % (
                name, e[2] if e[0] == 'c' else e[1], cur)))
            break
    if res_failed:
        return bad
    if helper not in ('chunk', 'send'):
        from pyipmi.msgs import constants as c
        seen_done = False
        for e in ev:
            if e[0] != 'c':
                continue
            if e[1] == c.REPOSITORY_GET_ERASE_STATUS and not seen_done:
                bad.append(('poll-before-erase:%s' % name, 'erase status polled before an initiate-erase completed'))
                break
            if e[1] == c.REPOSITORY_INITIATE_ERASE and e[3] == 'C':
                seen_done = True
        last = ev[-1] if ev else None
        last_ok = bool(last and last[0] == 'c' and last[1] == c.REPOSITORY_GET_ERASE_STATUS and last[3] == 'C')
        if (tag == 'ok') != last_ok:
            bad.append(('success-vs-last-status:%s' % name,
                        'returned %s but the last call was %s' % (tag, trace[-1] if trace else 'none')))
    # unexpected codes propagate; exhaustion
    expected = {'chunk': ('C', 'P', 'R', 'T', 'U'), 'send': ('C', 'P', 'B')}.get(helper, ('C', 'P', 'R'))
    letters = [e[-1] for e in ev if e[0] in 'ckx']
    for i, l in enumerate(letters):
        if l == 'N':
            # no answer (exception form of "timeout"): propagating it is fine, so is a bounded repeat where the helper
            # repeats timeouts (judged by the bound above); send_message repeats only after node busy (below)
            continue
        if l not in expected and code_of(l) not in [code_of(x) for x in expected]:
            want = 'CompletionCodeError:%d' % code_of(l)
            if tag != want or i != len(letters) - 1:
                sig = 'retry-after-non-busy' if helper == 'send' else 'code-not-propagated'
                bad.append(('%s:%s' % (name, sig) if helper == 'send' else '%s:%s' % (sig, name),
                            '%s got completion code 0x%02x (call %d of %d) and ended with %s instead of raising it' % (
                                name, code_of(l), i + 1, len(letters), tag)))
            break
    else:
        retry_letters = {'chunk': ('R', 'T', 'U'), 'send': ('B',)}.get(helper, ('P', 'R'))
        if letters and all(code_of(l) in [code_of(x) for x in retry_letters] and l not in ('C',) for l in letters) \
                and not (helper == 'chunk' and any(l in ('C', 'P') for l in letters)) and tag != 'RetryError':
            bad.append(('exhaustion:%s' % name, '%s saw only retry outcomes and ended with %s' % (name, tag)))
    if helper in ('send', 'chunk') and letters and letters[-1] in ('C', 'P') and tag != 'ok':
        # the last request the helper made was answered OK (within the budget, see the bound above): that answer
        # is the result - the retry-exhausted error is for a run in which every attempt was refused
        bad.append(('success-reported-as-error:%s' % name,
                    '%s: request %d of at most %d was answered OK but the helper ended with %s' % (
                        name, len(letters), lim, tag)))
    if helper == 'send':
        for l in letters[:-1]:
            if code_of(l) != 0xC0:
                bad.append(('send_message:retry-after-non-busy',
                            'send_message repeated the transfer after %s' % (
                                'no answer (IpmiTimeoutError)' if l == 'N' else 'completion code 0x%02x' % code_of(l))))
                break
    return bad


# ---------------------------------------------------------------------------------------
def explore(run_fn, depth, alphabet=None):
    alphabet = alphabet or ALPHABET
    stack = [()]
    while stack:
        p = stack.pop()
        try:
            res = run_fn(p, None)
        except dev11.NeedMore:
            if len(p) < depth:
                for l in reversed(alphabet):
                    stack.append(p + (l,))
            else:
                for t in alphabet:
                    yield p, t, run_fn(p, t)
            continue
        yield p, None, res


def probe_send_variant():
    """True = as shipped (a non-busy completion code is retried)."""
    tag, trace = run_send(3, ('O193',), 'C')
    return not (tag == 'CompletionCodeError:193' and len(trace) == 1)


def _live_constants():
    import pyipmi
    import pyipmi.helper as H
    from pyipmi.msgs import constants as c

    def dflt(fn, name):
        return inspect.signature(fn).parameters[name].default
    return [c.CC_OK, dflt(H.get_sdr_chunk_helper, 'retry'), c.CC_RES_CANCELED, c.CC_TIMEOUT, c.CC_RESP_COULD_NOT_BE_PRV,
            dflt(H.clear_repository_helper, 'retry'), c.CC_RES_CANCELED, c.REPOSITORY_INITIATE_ERASE,
            c.REPOSITORY_GET_ERASE_STATUS, c.REPOSITORY_ERASURE_IN_PROGRESS, c.REPOSITORY_ERASURE_COMPLETED,
            dflt(pyipmi.Ipmi.send_message, 'retry'), c.CC_NODE_BUSY]


class _Found(object):
    def __init__(self):
        self.best = {}

    def add(self, sig, what, case, expected, observed):
        # witnesses inside the property's quantifier (budgets 1..6) before the seeded larger budgets
        k = ((case['budget'] or 0) > 6, len(case['script']), len(case.get('reserve_plan', ())), case['budget'] or 0,
             case['tail'] or '')
        if sig not in self.best or k < self.best[sig][0]:
            self.best[sig] = (k, what, case, expected, observed)

    def flush(self, ctx):
        # a loop that does not end first (the report shows the first 8 signatures), the helper named by the property
        # before the operations above it
        def order(item):
            sig, case = item[0], item[1][2]
            return ('unbounded' not in sig, case['helper'] not in ('chunk', 'clear', 'send'), sig)
        for sig, (_, what, case, expected, observed) in sorted(self.best.items(), key=order):
            ctx.violate('C13:' + sig, what, case, expected=expected, observed=observed)


def _check_batch(ctx, drv, batch, send_variant, found, stale_variant=True):
    batch = [x if len(x) == 7 else x + ((),) for x in batch]
    lines = [model_line(h, b, rv, p, t or 'C', send_variant, stale_variant, rp) for (h, b, rv, p, t, _, rp) in batch]
    if drv is None:
        models = [None] * len(lines)
    else:
        # sequences with N (no answer): chunk / clear / send / the clear glue are followed by Model/RetryNoAnswer.lean; the
        # byte-level SDR / SEL devices of the model have no such letter - those cases are judged by the oracle only
        ask = [i for i, (h, b, rv, p, t, _, rp) in enumerate(batch)
               if not ('N' in p or t == 'N' or 'N' in rp) or (MODEL_N and h not in SDR_HELPERS and h not in SEL_HELPERS)]
        got = drv.ask_many([lines[i] for i in ask])
        models = [None] * len(lines)
        for i, m in zip(ask, got):
            models[i] = m
    for (h, b, rv, p, t, res, rp), m in zip(batch, models):
        tag, trace = res
        waits, rejected = getattr(res, 'waits', ()), getattr(res, 'rejected', ())
        case = {'helper': h, 'budget': b, 'reservation': rv, 'script': list(p), 'tail': t}
        if rp:
            case['reserve_plan'] = list(rp)
            ctx.count('reserve-refused:%s' % ('first' if code_of(rp[0]) else 'renewal'))
        ctx.case((h, b, rv, p, t, rp), nontrivial=len(trace) > 0)
        ctx.count('helper:' + h)
        if 'N' in p or t == 'N' or 'N' in rp:
            ctx.count('no-answer(IpmiTimeoutError raised):%s' % ('oracle-only' if m is None else 'model+oracle'))
        ctx.count('outcome:' + (tag.split(':')[0]))
        ctx.count('consumed:%s' % (lambda n: n if n < 12 else '12+')(sum(1 for e in trace if e[0] != 'r')))
        code_s = '%s %s' % (tag, ','.join(trace) or '-')
        ctx.count('waits:%s' % ('refused-by-time.sleep' if rejected else 'none' if not waits else
                                'zero' if not any(waits) else 'positive'))
        for sig, what in oracle(h, b, rv, tag, trace, waits, rejected):
            found.add(sig, what, case, 'see property clause',
                      (code_s + ('  waits: %s' % (list(waits),) if waits or rejected else '') +
                       ('  refused: time.sleep(%s)' % rejected[0][0] if rejected else ''))[:700])
        if m is not None and m != code_s:
            ctx.disagree('%s budget=%s' % (h, b), case, m, code_s[:700])
        if len(ctx.samples) < 6 and len(p) >= 3 and (len(ctx.samples) % 2 == 0) == (tag == 'ok'):
            ctx.sample({'case': case, 'code': code_s, 'model': m})


def run(ctx):
    global _clock
    drv = _try_driver(ctx)
    found = _Found()
    with dev11.no_sleep() as clock:
        _clock = clock
        # constants as seen by the driver (translator) vs the live objects
        live = _live_constants()
        if drv is not None:
            got = [int(x) for x in drv.ask('consts').split()]
            if got != live:
                ctx.disagree('constants', {'order': 'ccOk chunkRetry renew t1 t2 clearRetry renew initiate status inprog done sendRetry busy'},
                             got, live)
        send_variant = probe_send_variant()
        ctx.extra['send_message_variant'] = 'asShipped' if send_variant else 'intended'
        if _gen is not None and _gen['retryAnyCode'] != send_variant:
            ctx.disagree('send_message variant: source reading vs behaviour', {}, _gen['retryAnyCode'], send_variant)
        stale_variant = probe_stale_variant()
        ctx.extra['renewed_reservation_variant'] = {
            'probed_on_real_code': {True: 'dropped (as shipped)', False: 'handed on (intended)', None: 'inconsistent'}[stale_variant],
            'read_from_source': None if _gen is None else ('dropped' if _gen['staleRes'] else 'handed on')}
        if stale_variant is None:
            ctx.disagree('renewed reservation id: handed on in some operations only', {}, 'all or none', 'mixed')
            stale_variant = _gen['staleRes'] if _gen is not None else True
        elif _gen is not None and _gen['staleRes'] != stale_variant:
            ctx.disagree('renewed reservation variant: source reading vs behaviour', {}, _gen['staleRes'], stale_variant)
        sel_variant = probe_sel_variant()
        read = None if _gen10 is None else {'floor': _gen10['sel']['floor'], 'budget': _gen10['sel']['budget'],
                                            'empty': bool(_gen10['sel'].get('emptyStop'))}
        ctx.extra['sel_loops_variant'] = {'probed_on_real_code': dict(sel_variant), 'read_from_source': read}
        if read is not None and read != sel_variant:
            ctx.disagree('variant of the SEL loops: source reading vs behaviour', {}, read, sel_variant)
        depth = 5 if ctx.tier == 'quick' else 8
        glue_depth = 3 if ctx.tier == 'quick' else 5
        plans = []
        for b in range(1, 7):
            plans.append(('chunk', b, 3, depth))
            plans.append(('clear', b, None, depth))
            plans.append(('clear', b, 7, depth))
            plans.append(('send', b, None, depth))
            plans.append(('clear_sel', b, None, glue_depth))
            plans.append(('clear_sdr_repository', b, None, glue_depth))
        sdr_depth = 4 if ctx.tier == 'quick' else 6
        for h in SDR_HELPERS:
            plans.append((h, 5, None, sdr_depth))
            if h.startswith('data'):
                plans.append((h, 5, 700, sdr_depth - 1))
        # the two SEL loops: get_sel_entry under a caller reservation; get-and-clear for every budget 1..6 and the default
        sel_depth = 4 if ctx.tier == 'quick' else 6
        plans.append(('sel:entry', None, 7, sel_depth + 1))
        gac_budgets = [None] if sel_variant['budget'] is None else [None, 1, 2, 3, 4, 5, 6]
        for b in gac_budgets:
            plans.append(('sel:gac', b, None, sel_depth if b in (None, 2) else sel_depth - 1))
        # reserve outcomes: the k-th Reserve (k = 0, 1, 2) refused with node busy / timeout / another code
        rdepth = 3 if ctx.tier == 'quick' else 5
        for k in range(3):
            for l in ('B', 'T', 'O209', 'N'):
                rp = ('C',) * k + (l,)
                for b in (2, 4):
                    plans.append(('chunk', b, 3, rdepth, rp))
                    plans.append(('clear', b, None, rdepth, rp))
                    plans.append(('clear', b, 7, rdepth, rp))
                plans.append(('clear_sel', 4, None, rdepth - 1, rp))
                plans.append(('clear_sdr_repository', 4, None, rdepth - 1, rp))
                plans.append(('sel:gac', None if sel_variant['budget'] is None else 4, None, rdepth, rp))
        # the two constant outcome sequences of the audit findings first (they are the shortest witnesses)
        _check_batch(ctx, drv, [('sel:entry', None, 7, (), 'O202', runner('sel:entry', None, 7)((), 'O202')),
                                ('sel:gac', None, None, (), 'R', runner('sel:gac', None, None)((), 'R')),
                                ('sel:entry', None, 7, (), 'S0', runner('sel:entry', None, 7)((), 'S0')),
                                ('sel:gac', gac_budgets[-1] and 1, None, (), 'S0',
                                 runner('sel:gac', gac_budgets[-1] and 1, None)((), 'S0'))],
                     send_variant, found, stale_variant)
        # the same boundary in the sibling loop, get_sdr_data_helper (bounded by its chunk counter `retry = 20`; theorem
        # data_requests_bounded: any transport): body chunks completed with k < requested bytes, k = 0 included - judged by
        # the oracle only (the scripted SDR device of the model serves exactly the bytes asked for)
        # every budget of the quantifier (1..6, and 7..12) x every outcome in the FIRST position (and in the second behind
        # each retried outcome) x every tail, for every helper with a budget: a defect that needs one budget together with
        # one outcome at one position (a wait computed from the counter: 0.1 * (4 - retry) is negative only for retry = 6
        # and CEh first) is met whatever the exploration below is cut to
        batch = []
        for b in range(1, 13):
            for h, rv in (('chunk', 3), ('clear', None), ('clear', 7), ('send', None), ('clear_sel', None),
                          ('clear_sdr_repository', None)):
                fn = runner(h, b, rv)
                pre = [(l,) for l in ALPHABET] + [(r, l) for r in ('R', 'T', 'U', 'P', 'B') for l in ALPHABET]
                for p in pre:
                    for t in (ALPHABET if len(p) == 1 else ('C', p[-1])):
                        batch.append((h, b, rv, p, t, fn(p, t)))
                        ctx.count('first-position:budget-%s' % (b if b <= 6 else '7..12'))
        _check_batch(ctx, drv, batch, send_variant, found, stale_variant)
        for h in SDR_HELPERS:
            _check_batch(ctx, None, [(h, 5, None, p, t, runner(h, 5, None)(p, t))
                                     for p in (('C',), ('C', 'S3'), ('C', 'O202', 'S1'), ('C', 'R', 'S2'))
                                     for t in ('S0', 'S1', 'S7')], send_variant, found, stale_variant)
            ctx.count('sdr-short-answers', 12)
        for plan in plans:
            h, b, rv, d = plan[:4]
            rp = plan[4] if len(plan) > 4 else ()
            batch = []
            alphabet = ALPHABET_SEL if h in SEL_HELPERS else ALPHABET_SDR if h in SDR_HELPERS else None
            for p, t, res in explore(runner(h, b, rv, rp), d, alphabet):
                batch.append((h, b, rv, p, t, res, rp))
                if len(batch) >= 4000:
                    _check_batch(ctx, drv, batch, send_variant, found, stale_variant)
                    batch = []
            _check_batch(ctx, drv, batch, send_variant, found, stale_variant)
            if ctx.time_left() < 20:
                ctx.notes.append('time budget reached during exhaustive exploration at %s budget %d' % (h, b))
                break
        # seeded longer sequences, random other-codes, larger budgets
        rng = ctx.rng('c13')
        named = (0x00, 0xC0, 0xC3, 0xC5, 0xCE)
        n = 3000 if ctx.tier == 'quick' else 40000
        batch = []
        for _ in range(n):
            h = rng.choice(['chunk', 'clear', 'clear', 'send', 'clear_sel', 'clear_sdr_repository'])
            b = rng.randrange(1, 13)
            rv = 3 if h == 'chunk' else (rng.choice([None, rng.randrange(1, 60000)]) if h == 'clear' else None)
            k = rng.randrange(0, 2 * b + 3)
            weights = {'chunk': 'RRTTUUCPBON', 'send': 'BBBBBCPRTUON'}.get(h, 'PPPRRRCCBTUON')
            letters = []
            for _i in range(k):
                l = rng.choice(weights)
                letters.append(l if l != 'O' else 'O%d' % rng.choice([c for c in range(1, 256) if c not in named]))
            t = rng.choice(ALPHABET)
            batch.append((h, b, rv, tuple(letters), t, runner(h, b, rv)(tuple(letters), t)))
            ctx.count('random')
        _check_batch(ctx, drv, batch, send_variant, found)
        # ... and for record-chunk fetching above the chunk helper: mostly completed / cancelled / 0xCA, a few others
        batch = []
        for _ in range(n // 3):
            h = rng.choice(SDR_HELPERS)
            rv = rng.choice([None, None, rng.randrange(1, 0xFFF0)]) if h.startswith('data') else None
            letters = []
            for _i in range(rng.randrange(0, 24)):
                l = rng.choice('CCCCCCPRRRTUAAON')
                letters.append({'A': 'O202', 'O': 'O%d' % rng.choice([0xC0, 0xC1, 0xC9, 0xCB, 0xFF, 0x80])}.get(l, l))
            t = rng.choice(['C', 'C', 'C', 'P', 'R', 'T', 'O202'])
            batch.append((h, 5, rv, tuple(letters), t, runner(h, 5, rv)(tuple(letters), t)))
            ctx.count('random-sdr')
        _check_batch(ctx, drv, batch, send_variant, found, stale_variant)
        # ... and for the SEL loops: mostly completed / cancelled / 0xCA, Reserve outcomes now and then
        batch = []
        for _ in range(n // 3):
            h = rng.choice(SEL_HELPERS)
            b = None if h == 'sel:entry' or sel_variant['budget'] is None else rng.choice([None, rng.randrange(1, 9)])
            rv = rng.randrange(1, 0xFFF0) if h == 'sel:entry' else None
            letters = []
            for _i in range(rng.randrange(0, 40)):
                l = rng.choice('CCCCCPRRRAAAAAATUOSSSSSN')
                letters.append({'A': 'O202', 'O': 'O%d' % rng.choice([0xC0, 0xC1, 0xC9, 0xCB, 0xCC, 0xFF, 0x80]),
                                'S': 'S%d' % rng.choice([0, 1, 1, 2, 3, 4, 7, 8, 15, 16, 20])}.get(l, l))
            t = rng.choice(['C', 'C', 'C', 'P', 'R', 'T', 'O202', 'O202', 'S0', 'S1', 'S3'])
            rp = ()
            if h == 'sel:gac' and rng.random() < 0.3:
                rp = tuple(rng.choice(['C', 'C', 'C', 'B', 'T', 'R', 'O%d' % rng.choice([0xC1, 0xD3, 0xFF])])
                           for _i in range(rng.randrange(1, 5)))
            batch.append((h, b, rv, tuple(letters), t, runner(h, b, rv, rp)(tuple(letters), t), rp))
            ctx.count('random-sel')
        _check_batch(ctx, drv, batch, send_variant, found, stale_variant)
    _clock = None
    found.flush(ctx)


def _try_driver(ctx):
    try:
        return ctx.driver('drv_c13')
    except lean.LeanError:
        ctx.notes.append('driver unavailable: property oracle only')
        return None


def search(ctx):
    """The property oracle already judged the real code on every explored sequence in `run`.  When a tie broke and `run`
    left no concrete violation (cut short by the time budget, driver unavailable ...), the class the ties are blind to is
    tried once more on its own: every helper x budgets 1..12 x (reservation) x every sequence of up to 3 outcomes that
    contains N (the callable RAISES IpmiTimeoutError) x every tail - oracle only."""
    global _clock
    found = _Found()
    with dev11.no_sleep() as clock:
        _clock = clock
        try:
            pre = [p for n in (0, 1, 2, 3) for p in itertools.product(ALPHABET, repeat=n)]
            for b in range(1, 13):
                for h, rv in (('chunk', 3), ('clear', None), ('clear', 7), ('send', None), ('clear_sel', None),
                              ('clear_sdr_repository', None)):
                    fn = runner(h, b, rv)
                    for p in pre:
                        for t in (ALPHABET if 'N' in p else ('N',)):
                            res = fn(p, t)
                            ctx.count('search:no-answer')
                            case = {'helper': h, 'budget': b, 'reservation': rv, 'script': list(p), 'tail': t}
                            for sig, what in oracle(h, b, rv, res[0], res[1], res.waits, res.rejected):
                                found.add(sig, what, case, 'see property clause', ('%s %s' % (res[0], ','.join(res[1])))[:700])
            for h in SDR_HELPERS + SEL_HELPERS:
                b, rv = (None, 7) if h == 'sel:entry' else (None, None) if h == 'sel:gac' else (5, None)
                fn = runner(h, b, rv)
                for p in [q for n in (0, 1, 2) for q in itertools.product(('C', 'R', 'T', 'O202', 'N'), repeat=n)]:
                    for t in (('C', 'N') if 'N' in p else ('N',)):
                        res = fn(p, t)
                        ctx.count('search:no-answer')
                        case = {'helper': h, 'budget': b, 'reservation': rv, 'script': list(p), 'tail': t}
                        for sig, what in oracle(h, b, rv, res[0], res[1], res.waits, res.rejected):
                            found.add(sig, what, case, 'see property clause', ('%s %s' % (res[0], ','.join(res[1])))[:700])
        finally:
            _clock = None
    found.flush(ctx)


def replay(ctx, v):
    case = v['case']
    h, b, rv = case['helper'], case['budget'], case.get('reservation')
    rp = tuple(case.get('reserve_plan', ()))
    global _clock
    with dev11.no_sleep() as clock:
        if h in SEL_HELPERS:
            probe_sel_variant()
        _clock = clock
        try:
            res = runner(h, b, rv, rp)(tuple(case['script']), case['tail'] or 'C')
        finally:
            _clock = None
        tag, trace = res
    print('%s budget=%s reservation=%s outcomes=%s then %s for ever%s' % (
        h, b, rv, ','.join(case['script']) or '-', case['tail'] or 'C',
        '' if not rp else '; Reserve outcomes %s then granted' % ','.join(rp)))
    shown = trace if len(trace) <= 60 else trace[:40] + ['... (%d more)' % (len(trace) - 40)]
    print('  real code: %s  calls: %s' % (tag, ','.join(shown) or '-'))
    if res.waits or res.rejected:
        print('  waits asked for (s): %s%s' % (list(res.waits), ''.join(
            '; time.sleep(%s) -> %s: %s (as the real time.sleep)' % r for r in res.rejected)))
    bad = oracle(h, b, rv, tag, trace, res.waits, res.rejected)
    for sig, what in bad:
        print('  property: ' + what)
    if h in SDR_HELPERS:
        print('  (r<id> = Reserve answered with <id>; g<reservation>:<record>:<offset>:<count>:<completion code> = Get (Device) SDR)')
    if h in SEL_HELPERS:
        print('  (r<id> = Reserve SEL answered with <id>, f<cc> refused; g<reservation>:<record>:<offset>:<bytes to read>:<completion '
              'code>:<record bytes in the answer> = Get SEL Entry; d<reservation>:<record>:<completion code> = Delete SEL Entry; '
              'outcome S<k> = completed with at most k record bytes)')
    want = v['signature'][len('C13:'):]
    return any(sig == want for sig, _ in bad)
