"""C17 — Sensor reading conversion implements the IPMI formula and its inverse."""
import math

from .. import sdr_common
from ..lib import lean
from ..translate import sdr as sdr_t
from ..translate import sdrexpr

ID = 'C17'
TARGETS = ['PyIpmi.Props.C17', 'drv_c17']
LEVEL = 'proof'
RULE = ('forward: for all 256 exponent pairs (K1, K2 in -8..7) x the formats unsigned / 1s / 2s (+ code 3) x all 256 '
        'raw bytes with M, B cycling through a boundary set (-512, -511, -256, -129, -128, -2, -1, 1, 2, 3, 127, 128, '
        '255, 256, 511; B also 0), seeded random records x all raws, all 256 linearisation codes, all twelve '
        'linearisations on seeded records, every non-linear linearisation x every analog format x all 256 raws with '
        'M = +1 and -1 (arguments of both signs: the cube root of negative arguments for every format, directed '
        'witnesses first), None; inverse: the real forward value of every such linear M != 0 case is '
        'converted back, plus seeded free values (negative, fractional, out of range, M = 0, non-linear).  The real '
        'code is compared with the Lean model (tie) and with Spec.Sensor / the round-trip law (property).  HISTORIES '
        'on ONE record object (hidden state): construction path (blank record + assigned attributes | '
        'SdrFullSensorRecord(data) from list / bytes / array | SdrCommon.from_data; the bytes come from the '
        'specification\'s encoder Spec.Sdr.FullSensor.encode, driver op encfull) x first change (each of m, b, k1, k2, '
        'analog_data_format, linearization, tolerance reassigned to a different value | _from_data of other bytes into '
        'the same object | none) x 3 seeds, followed by the conversions made before the change (same readings again) '
        'and new ones, forward and forward+inverse interleaved, plus 60 longer free histories (3..9 further changes / '
        'conversions / free inverse values); every conversion is judged by Spec.Sensor over the values the record\'s '
        'attributes have AT THAT MOMENT and tied to the history model (Sensor.runHistory, driver op hist); a failure is '
        'named by the smallest set of attributes whose EARLIER value explains the result (C17:forward:stale-factors:k2 '
        '...) and reported with the shortest sub-history that still shows it.  A case is '
        'distinct by (direction, fmt, lin, M, B, K1, K2, raw or value) and non-trivial when M*x or B is non-zero.  '
        'thorough: additionally the FULL product boundary M (15) x boundary B (16) x all 256 (K1, K2) x 3 formats '
        '(184 320 records) on 8 boundary + 8 seeded random raws each, forward and inverse (the quick exponent grid '
        'takes one (M, B) per (K1, K2, format)); every (M, B) in [-512, 511]^2 at K1 = K2 = 0 and on a stride at '
        'three other exponent pairs, formats cycling, eight boundary raws each (all time-guarded; evidence '
        'exponent_product / exhaustive_MB_K0 say how far they got); 40 histories per (path, first change) + 1500 free '
        'ones.  search() (a tie broke, no failing input yet) runs 20 per combination + 1200 longer histories more.')
ASSUMPTIONS = [
    'IEEE-754 double rounding of the Python arithmetic is modelled, not verified: the Lean model is exact (Rat); the '
    'forward argument is accepted when |python - exact| <= 2^-40 * (|M*x| + |B|*10^K1) * 10^K2 (condition-aware bound, '
    'zero tolerance when both terms vanish)',
    'round() is modelled as round-half-even on the exact value; when the exact pre-rounding value is within 2^-30 of a '
    'half-integer and code and model differ the case is counted as rounding-ambiguous, not compared',
    'the transcendental functions (math.log, exp, pow, sqrt, cube root) are parameters of the theorems; the run checks '
    'which function is applied: the real result must equal the harness\'s own math function of that table code applied '
    'to the real (validated) argument within relative 2^-40, or raise the same exception class.  The oracle of code 0Bh '
    'is the REAL cube root (math.cbrt: defined for negative arguments, odd) - what the theorems assume of F.cubert '
    '(Spec.Sensor.Fns.RealCubeRoot: defined everywhere, odd) and nothing else; ln / log / sqrt raise where the '
    'mathematical function has no real value, e^x / 10^x / 2^x where the double overflows (judged: same exception class)',
    'the model side of the tie applies the host function named by the function TAG the translator derived from the '
    'shape of each lambda (tag 11 math.pow(x, 1.0/3) vs tag 12 math.copysign(math.pow(abs(x), 1.0/3), x)): the '
    'generated table says which cube root the working tree contains, the run also probes it (cube_root_probed)',
    'GENERATED every run from the AST of the working tree (harness/translate/sdrexpr.py -> Gen/SensorExpr.lean, one '
    'Lean definition per source statement, fail closed outside its grammar): the two sign conversions and the argument '
    '(self.m * raw + (self.b * 10**self.k1)) * 10**self.k2 of convert_sensor_raw_to_value; the linearisation mask, the '
    'inverse formula, the two negative encodings with the variable their `if ... < 0` tests and both guards '
    '(is-not-linear, raw > 0xff) of convert_sensor_value_to_raw; _convert_complement.  Theorems gen_signedRaw_eq, '
    'gen_arg_eq, gen_convert_eq, gen_rawQ_eq, gen_encodeSigned_eq, gen_valueToRaw_eq, gen_convertComplement_eq prove '
    'that the model (Variant.intended) is these expressions; gen_signed_spec, gen_forward_argument, '
    'gen_inverse_roundtrip restate the property for the generated definitions',
    'typing of the generated definitions (the domain the model covers): raw is a Nat (a reading byte), value a Rat, '
    'self.m / b / k1 / k2 are Int, analog_data_format / linearization Nat; `/` is exact rational division (sdr.py has '
    '`from __future__ import division`, checked), 10**k is exact (reciprocal for k < 0), & | ^ on a possibly negative '
    'int follow Python\'s two\'s-complement rule (Model/PyInt.lean); `int(round(x))` is an opaque cut (the model '
    'rounds half-to-even on the exact value)',
    'hand-written (lean/PyIpmi/Model/Sensor.lean) and tied by this correspondence run only: the control skeleton '
    '(order of guards, ZeroDivisionError for M = 0, None -> None), round(), the call of self.lin; the linearisation '
    'dispatch table is regenerated (Gen/SdrTables.lean)',
    'the record OBJECT is modelled by the tuple of the six attributes the conversions read (Sensor.Rec; histories: '
    'Sensor.Step / runHistory / stateAfter): no other conversion-relevant state exists in the model.  Theorems '
    'history_split, history_forward_current, history_roundtrip_current, history_other_irrelevant state the property for '
    'every history; that the real object has no such state either is tied by the history stream of this run only',
    'the deviations of the ORIGINAL pinned source stay in the model as Variant flags (inverse formula, negative '
    'encoding, cube root as math.pow(x, 1.0/3)): inverse_*_counterexample, cubert_negative_counterexample and '
    'shipped_cubert_rejects_negatives are theorems about the frozen asShipped variant; the generated expressions / the '
    'generated lin table are equated with Variant.intended (gen_*_eq, gen_lin_table_intended, lin_table); the run '
    'still probes the real code, so a returning defect is reported with a concrete input while those theorems stop '
    'building',
]
TRUSTED = ['harness/translate/sdr.py', 'harness/translate/sdrexpr.py', 'harness/props/c17.py']

TOL_BITS = 40
BOUNDARY_M = [-512, -511, -256, -129, -128, -2, -1, 1, 2, 3, 127, 128, 255, 256, 511]
BOUNDARY_B = BOUNDARY_M + [0]
FMT_NAME = {0: 'unsigned', 1: 'ones', 2: 'twos', 3: 'none'}

def real_cbrt(x):
    """The REAL cube root (table 43-1 byte 24 code 0Bh, `cube-1(x)`): defined for every real argument,
    odd.  Written without sdr.py and without `pow(x, 1/3)` on a negative base: the interpreter's
    math.cbrt where it exists (Python >= 3.11), else sign(x) * |x|^(1/3) refined by one Newton step."""
    if hasattr(math, 'cbrt'):
        return math.cbrt(x)
    if x == 0 or x != x or x in (float('inf'), float('-inf')):
        return x
    a = abs(x)
    y = math.exp(math.log(a) / 3.0)
    y -= (y * y * y - a) / (3.0 * y * y)
    return -y if x < 0 else y


# The harness's own reading of table 43-1 byte 24 (the mathematical function per table CODE),
# independent of sdr.py: the property oracle.
ORACLE_FN = {
    0: lambda x: x,
    1: lambda x: math.log(x),
    2: lambda x: math.log(x, 10),
    3: lambda x: math.log(x, 2),
    4: lambda x: math.exp(x),
    5: lambda x: math.pow(10, x),
    6: lambda x: math.pow(2, x),
    7: lambda x: 1.0 / x,
    8: lambda x: math.pow(x, 2),
    9: lambda x: math.pow(x, 3),
    10: lambda x: math.sqrt(x),
    11: real_cbrt,
}
# The host function each function TAG of the model stands for (tag = shape of the lambda in the source,
# harness/translate/sdr.py): used for the tie only.  Tags 0..10 are the table codes; the cube root has two
# shapes: 11 `math.pow(x, 1.0/3)` (ValueError below 0), 12 `math.copysign(math.pow(abs(x), 1.0/3), x)`.
SHAPE_FN = dict(ORACLE_FN)
SHAPE_FN[11] = lambda x: math.pow(x, 1.0 / 3)
SHAPE_FN[12] = lambda x: math.copysign(math.pow(abs(x), 1.0 / 3), x)
EXACT_TAGS = (0, 7, 8, 9)

_tab = None
_last_run = None


def translate(ctx):
    global _tab
    _tab = sdr_t.generate()
    # the expressions of the two conversion functions, re-translated from the AST (Gen/SensorExpr.lean; theorems gen_*)
    names = sdrexpr.generate('C17')
    ctx.extra['generated_expressions'] = names
    ctx.extra['generated_expression_count'] = sum(len(v) for v in names.values())


# ---------------------------------------------------------------------------------------------
# real code

def _mkrec(fmt, lin, m, b, k1, k2):
    from pyipmi.sdr import SdrFullSensorRecord
    s = SdrFullSensorRecord()
    s.analog_data_format = fmt
    s.linearization = lin
    s.m = m
    s.b = b
    s.k1 = k1
    s.k2 = k2
    return s


def _call(f, *a):
    """('ok', value) | ('err', exception class name)."""
    try:
        return ('ok', f(*a))
    except Exception as e:  # noqa
        return ('err', type(e).__name__)


def _err_tag(name):
    return 'DecodingError' if name == 'DecodingError' else 'py:' + name


def probe():
    """Which variant of the inverse does the working tree implement?  (formulaShipped, signShipped)
    0 = intended, 1 = as shipped, None = neither (the correspondence will then disagree)."""
    a = _call(_mkrec(0, 0, 2, 3, 0, 0).convert_sensor_value_to_raw, 23.0)
    formula = 0 if a == ('ok', 10) else 1 if a == ('ok', 8) else None
    b = _call(_mkrec(2, 0, 1, -10, 0, 0).convert_sensor_value_to_raw, -5.0)
    sign = 0 if b == ('ok', 5) else 1 if b == ('ok', -123) else None
    return formula, sign, a, b


def probe_cubert():
    """Which cube root does the working tree contain?  Witness of cubert_negative_counterexample:
    2's complement, linearisation 0Bh, M = 1, B = 0, reading F8h (-8).  0 = intended (-2), 1 = as shipped
    (ValueError), None = neither."""
    c = _call(_mkrec(2, 11, 1, 0, 0, 0).convert_sensor_raw_to_value, 0xF8)
    if c[0] == 'ok' and isinstance(c[1], float) and _rel_close(c[1], -2.0):
        return 0, c
    return (1 if c == ('err', 'ValueError') else None), c


# ---------------------------------------------------------------------------------------------
# exact helpers (integers only)

def _p10(k):
    return (10 ** k, 1) if k >= 0 else (1, 10 ** (-k))


def _scale(m, b, k1, k2, x):
    """(|M*x| + |B|*10^K1) * 10^K2 as a fraction (num, den)."""
    a1, b1 = _p10(k1)
    a2, b2 = _p10(k2)
    return (abs(m * x) * b1 + abs(b) * a1) * a2, b1 * b2


def _signed(fmt, r):
    if fmt == 1:
        return r if r < 128 else r - 255
    if fmt == 2:
        return r if r < 128 else r - 256
    return r


def _close(py, mn, md, sn, sd):
    """|py - mn/md| <= 2^-TOL * sn/sd, all exact."""
    if py != py or py in (float('inf'), float('-inf')):
        return False
    pn, pd = py.as_integer_ratio()
    return (abs(pn * md - mn * pd) << TOL_BITS) * sd <= sn * pd * md


def _rel_close(a, b):
    if a == b:
        return True
    if a != a or b != b or a in (float('inf'), float('-inf')) or b in (float('inf'), float('-inf')):
        return False
    return abs(a - b) <= math.ldexp(max(abs(a), abs(b)), -TOL_BITS)


def _rat(tok):
    n, d = tok.split('/')
    return int(n), int(d)


def _frac_tok(x):
    n, d = float(x).as_integer_ratio()
    return '%d/%d' % (n, d)


def _near_half(qn, qd, rec=None, value=None):
    """The exact pre-rounding value q is so close to k + 1/2 that the double computation may round
    the other way: distance <= 2^-30 + 2^-40 * (|value*10^-K2 / M| + |B*10^K1|)  (the magnitudes
    whose rounding errors enter the Python's result)."""
    from fractions import Fraction
    r = (2 * qn - qd) % (2 * qd)          # (q - 1/2) mod 1, scaled by 2*qd
    dist = Fraction(min(r, 2 * qd - r), 2 * qd)
    thr = Fraction(1, 1 << 30)
    if rec is not None and rec[2] != 0:
        a1, b1 = _p10(rec[4])
        a2, b2 = _p10(-rec[5])
        mag = abs(Fraction(value)) * Fraction(a2, b2) / abs(rec[2]) + abs(rec[3]) * Fraction(a1, b1)
        thr += mag / (1 << 40)
    return dist <= thr


# ---------------------------------------------------------------------------------------------
# judging

class _Run(object):
    def __init__(self, ctx, drv, variant):
        self.ctx = ctx
        self.drv = drv
        self.fs, self.ss = variant
        self.sig_seen = set()
        self.n_classified = 0
        self.present = set(n for n, f in (('C17:inverse-roundtrip:formula', self.fs),
                                          ('C17:inverse-roundtrip:negative-encoding', self.ss)) if f)

    defer = None

    def violate(self, sig, what, case, expected, observed):
        # keep the first (most directed) witness of every signature; count the rest
        self.ctx.count('violations:' + sig)
        if self.defer is not None:
            if sig not in self.sig_seen:
                self.defer.append((sig, what, case, expected, observed))
            return
        if sig not in self.sig_seen:
            self.sig_seen.add(sig)
            self.ctx.violate(sig, what, case, expected=expected, observed=observed)

    # ---- forward -----------------------------------------------------------------------
    def forward_batch(self, recs, raws=None, inverse=True, label='grid'):
        """recs: list of (fmt, lin, m, b, k1, k2).  raws None = all 256."""
        ctx = self.ctx
        if raws is None:
            xs = list(range(256))
            mk = lambda op, r: '%s %d %d %d %d %d %d' % ((op + 'all',) + r)   # noqa
        else:
            xs = list(raws)
            sel = ','.join(str(x) for x in xs)
            mk = lambda op, r: '%s %d %d %d %d %d %d %s' % ((op + 'sel',) + r + (sel,))   # noqa
        mans = self.drv.ask_many([mk('fwd', r) for r in recs])
        sans = self.drv.ask_many([mk('spec', r) for r in recs])
        inv_jobs = []
        for rec, ml, sl in zip(recs, mans, sans):
            fmt, lin, m, b, k1, k2 = rec
            obj = _mkrec(*rec)
            # the linear argument as computed by the real code (same expression for every tag)
            if lin & 0x7f:
                lin_obj = _mkrec(fmt, 0, m, b, k1, k2)
            else:
                lin_obj = obj
            mparts = ml.split(' ; ')
            sparts = sl.split(' ; ')
            ctx.count('fmt:' + FMT_NAME.get(fmt, str(fmt)))
            ctx.count('stream:' + label)
            for s, v in (('M<0', m < 0), ('B<0', b < 0), ('K1<0', k1 < 0), ('K2<0', k2 < 0), ('B=0', b == 0)):
                if v:
                    ctx.count(s)
            values = []
            for x, mp, sp in zip(xs, mparts, sparts):
                case = {'op': 'forward', 'fmt': fmt, 'lin': lin, 'm': m, 'b': b, 'k1': k1, 'k2': k2, 'raw': x}
                sx = _signed(fmt, x)
                ctx.case(('f',) + rec + (x,), nontrivial=(m * sx != 0 or b != 0))
                real = _call(obj.convert_sensor_raw_to_value, x)
                # ---- unknown linearisation
                if mp == 'DecodingError' or sp == 'DecodingError':
                    ctx.count('lin:unknown')
                    code = ('DecodingError' if real[1] == 'DecodingError' else 'py:' + real[1]) \
                        if real[0] == 'err' else 'ok'
                    m_out = 'DecodingError' if mp == 'DecodingError' else 'ok'
                    s_out = 'DecodingError' if sp == 'DecodingError' else 'ok'
                    if m_out != code:
                        ctx.disagree('forward-unknown-lin', case, mp, str(real))
                    if s_out != code:
                        self.violate('C17:forward:lin:bit7-not-masked' if lin >= 0x80 else 'C17:forward:lin=%d' % lin,
                                     'linearisation code %d: table 43-1 says %s, the code answers %s'
                                     % (lin & 0x7f, 'one of the twelve functions' if s_out == 'ok' else 'not defined (decoding error)',
                                        real), case, sp, str(real))
                    values.append(None)
                    continue
                _, mt, marg, mres = mp.split(' ')
                _, st, sarg, sres = sp.split(' ')
                mt, st = int(mt), int(st)
                ctx.count('lin:%s' % sdr_t.FN_NAMES[st])
                # ---- the argument (M*x + B*10^K1)*10^K2, via the linear call of the real code
                rarg = real if lin_obj is obj else _call(lin_obj.convert_sensor_raw_to_value, x)
                sn, sd = _scale(m, b, k1, k2, sx)
                if rarg[0] != 'ok' or not isinstance(rarg[1], float):
                    ctx.disagree('forward-arg', case, marg, str(rarg))
                    self.violate('C17:forward:arg:%s' % FMT_NAME.get(fmt, fmt),
                                 'linear conversion does not return a float', case, sarg, str(rarg))
                    values.append(None)
                    continue
                pyarg = rarg[1]
                mn, md = _rat(marg)
                if not _close(pyarg, mn, md, sn, sd):
                    ctx.disagree('forward-arg', case, marg, repr(pyarg))
                an, ad = _rat(sarg)
                if not _close(pyarg, an, ad, sn, sd):
                    self.violate('C17:forward:arg:%s%s' % (FMT_NAME.get(fmt, fmt), ':raw>=128' if x >= 128 else ''),
                                 '(M*x + B*10^K1)*10^K2 with x read as %s is %s/%s, the code computes %r'
                                 % (FMT_NAME.get(fmt, fmt), an, ad, pyarg), case, sarg, repr(pyarg))
                    values.append(None)
                    continue
                if st == 11 and pyarg < 0:
                    ctx.count('cubert:negative-argument:' + FMT_NAME.get(fmt, str(fmt)))
                # ---- the linearisation applied to that argument
                if st == 0 and mt == 0:
                    values.append(pyarg)
                    continue
                values.append(None)
                for tag, who in ((mt, 'model'), (st, 'spec')):
                    fns = SHAPE_FN if who == 'model' else ORACLE_FN
                    want = _call(fns[tag], pyarg) if tag in fns else ('err', 'TieBroken')
                    if who == 'model' and mres.startswith('py:') and tag not in EXACT_TAGS:
                        # the Lean model itself decides the domain of this tag (tag 11: ValueError below 0)
                        if want != ('err', mres[3:]):
                            ctx.disagree('forward-lin-domain', case, 'tag %d -> %s' % (tag, mres), str(want))
                        want = ('err', mres[3:])
                    if tag in EXACT_TAGS:
                        # exact tags: the Lean function evaluated at the real argument
                        lres = self.drv.ask('lin %d %s' % (tag, _frac_tok(pyarg)))
                        if lres.startswith('py:'):
                            okk = real == ('err', lres[3:])
                        else:
                            ln, ld = _rat(lres)
                            okk = real[0] == 'ok' and _close(real[1], ln, ld, abs(ln), ld)
                        want = lres
                    elif want[0] == 'err':
                        okk = real == want
                        ctx.count('forward:exception:' + want[1])
                    else:
                        okk = real[0] == 'ok' and _rel_close(real[1], want[1])
                    if okk:
                        continue
                    if who == 'model':
                        ctx.disagree('forward-lin', case, 'tag %d -> %s' % (tag, want), str(real))
                    else:
                        # L has a value at this negative argument and the code raises: the domain of L is cut
                        has_value = (not want.startswith('py:')) if tag in EXACT_TAGS else want[0] == 'ok'
                        cut = pyarg < 0 and real[0] == 'err' and has_value
                        self.violate('C17:forward:lin=%d%s' % (lin & 0x7f, ':negative-argument' if cut else ''),
                                     'linearisation %d must be %s of the argument %r%s'
                                     % (lin & 0x7f, sdr_t.FN_NAMES[tag], pyarg,
                                        ' (L is defined for negative arguments; the code raises %s)' % real[1] if cut else ''),
                                     case, str(want), str(real))
            if inverse and (lin & 0x7f) == 0 and m != 0:
                inv_jobs.append((rec, xs, values))
        if inv_jobs:
            self.inverse_roundtrip(inv_jobs)

    # ---- inverse ∘ forward ---------------------------------------------------------------
    def classify(self, rec, value, raw):
        """Which of the two known deviations explains a failed round trip: the Lean model with that
        deviation repaired (and the other one as probed) recovers the raw byte.  Candidates whose exact
        pre-rounding value sits on a rounding boundary say nothing and are ignored."""
        out = []
        self.n_classified += 1
        for name, fs, ss in (('formula', 0, self.ss or 0), ('negative-encoding', self.fs or 0, 0)):
            if (fs, ss) == (self.fs or 0, self.ss or 0):
                continue          # that is the code as it is: it just failed
            r = self.drv.ask('inv %d %d %d %d %d %d %d %d %s' % ((fs, ss) + rec + (_frac_tok(value),))).split(' ')
            if r[:2] == ['ok', str(raw)] and not _near_half(*_rat(r[2]), rec=rec, value=value):
                out.append(name)
        return out

    def inverse_roundtrip(self, jobs):
        ctx = self.ctx
        fs, ss = self.fs or 0, self.ss or 0
        lines = []
        for rec, xs, values in jobs:
            toks = [_frac_tok(v) if v is not None else '0/1' for v in values]
            lines.append('invall %d %d %d %d %d %d %d %d %s' % ((fs, ss) + rec + (' '.join(toks),)))
        answers = self.drv.ask_many(lines)
        for (rec, xs, values), ans in zip(jobs, answers):
            fmt, lin, m, b, k1, k2 = rec
            obj = _mkrec(*rec)
            for x, v, a in zip(xs, values, ans.split(' ; ')):
                if v is None:
                    continue
                case = {'op': 'roundtrip', 'fmt': fmt, 'lin': lin, 'm': m, 'b': b, 'k1': k1, 'k2': k2, 'raw': x}
                ctx.case(('i',) + rec + (x,), nontrivial=True)
                real = _call(obj.convert_sensor_value_to_raw, v)
                code = 'ok %d' % real[1] if real[0] == 'ok' and isinstance(real[1], int) else \
                    _err_tag(real[1]) if real[0] == 'err' else 'ok %r' % (real[1],)
                # ---- tie
                at = a.split(' ')
                model = ' '.join(at[:2]) if at[0] == 'ok' else a
                if model != code:
                    if at[0] == 'ok' and _near_half(*_rat(at[2]), rec=rec, value=v):
                        ctx.count('inverse:rounding-ambiguous')
                    else:
                        ctx.disagree('inverse', dict(case, value=repr(v)), model, code)
                # ---- property
                if fmt == 1 and x == 0xff:
                    ctx.count('inverse:negzero-excluded')
                    continue
                ctx.count('inverse:checked')
                if real != ('ok', x):
                    why = []
                    if fmt not in (1, 2):
                        why = ['formula']
                    elif m == 1 or b == 0:
                        why = ['negative-encoding']
                    elif (self.present and self.present <= self.sig_seen) or self.n_classified >= 300:
                        # every deviation the probe found already has its (directed) witness: the mixed
                        # cases are not classified one by one
                        ctx.count('violations:C17:inverse-roundtrip:(mixed case, not classified)')
                        continue
                    else:
                        why = self.classify(rec, v, x) or \
                            (['formula', 'negative-encoding'] if (self.fs and self.ss) else ['other'])
                    for w in why:
                        self.violate('C17:inverse-roundtrip:%s' % w,
                                     'value_to_raw(raw_to_value(%d)) = %s for fmt=%s M=%d B=%d K1=%d K2=%d (value %r)'
                                     % (x, code, FMT_NAME.get(fmt, fmt), m, b, k1, k2, v),
                                     case, 'ok %d' % x, code)

    # ---- inverse on free values (tie only) ---------------------------------------------------
    def inverse_free(self, items):
        ctx = self.ctx
        fs, ss = self.fs or 0, self.ss or 0
        lines = ['inv %d %d %d %d %d %d %d %d %s' % ((fs, ss) + rec + (_frac_tok(v),)) for rec, v in items]
        for (rec, v), a in zip(items, self.drv.ask_many(lines)):
            case = {'op': 'inverse', 'fmt': rec[0], 'lin': rec[1], 'm': rec[2], 'b': rec[3], 'k1': rec[4],
                    'k2': rec[5], 'value': repr(v)}
            ctx.case(('v',) + rec + (v,), nontrivial=True)
            real = _call(_mkrec(*rec).convert_sensor_value_to_raw, v)
            code = 'ok %d' % real[1] if real[0] == 'ok' else _err_tag(real[1])
            at = a.split(' ')
            model = ' '.join(at[:2]) if at[0] == 'ok' else a
            ctx.count('inverse-free:' + (code if real[0] == 'err' else 'ok'))
            if model != code:
                if at[0] == 'ok' and _near_half(*_rat(at[2]), rec=rec, value=v):
                    ctx.count('inverse:rounding-ambiguous')
                else:
                    ctx.disagree('inverse-free', case, model, code)



# ---------------------------------------------------------------------------------------------
# record HISTORIES (hidden state): ONE record object per history; construction path x later reassignment of every
# factor attribute x re-decoding into the same object x forward / inverse conversions interleaved.  Every conversion is
# judged by Spec.Sensor over the values the record's attributes have AT THAT MOMENT ("from the record's own factors").

FULL_ORDER = ['rid', 'ver', 'oid', 'ch', 'lun', 'num', 'eid', 'einst', 'ini', 'cap', 'st', 'et', 'am', 'dm', 'rm',
              'fmt', 'rate', 'mod', 'pct', 'bu', 'mu', 'lin', 'm', 'tol', 'b', 'acc', 'accx', 'dir', 'rexp', 'bexp',
              'af', 'nom', 'nmax', 'nmin', 'smax', 'smin', 'unr', 'ucr', 'unc', 'lnr', 'lcr', 'lnc', 'ph', 'nh', 'oem']
# attribute of the record object -> (short name, key of the abstract record the Spec encoder takes)
HIST_ATTRS = [('m', 'm'), ('b', 'b'), ('k1', 'bexp'), ('k2', 'rexp'), ('analog_data_format', 'fmt'),
              ('linearization', 'lin'), ('tolerance', 'tol')]
FACTOR_ATTRS = ('analog_data_format', 'linearization', 'm', 'b', 'k1', 'k2')
SHORT = {'analog_data_format': 'fmt', 'linearization': 'lin', 'm': 'm', 'b': 'b', 'k1': 'k1', 'k2': 'k2',
         'tolerance': 'tolerance'}
HIST_PATHS = ['blank', 'decoded:list', 'decoded:bytes', 'decoded:array', 'from_data:list', 'from_data:bytes']


def _hist_spec_line(f, idc):
    return 'encfull %s %s' % (' '.join(str(f[k]) for k in FULL_ORDER), ','.join(str(c) for c in idc) if idc else '-')


def _hist_u8(rng):
    return rng.choice((0, 1, 0x7f, 0x80, 0xfe, 0xff)) if rng.random() < 0.3 else rng.randrange(256)


def _hist_factors(rng, blank=False):
    r = rng.random()
    lin = 0 if r < 0.7 else rng.randrange(1, 12) if r < 0.95 else rng.randrange(12, 128)
    if blank and rng.random() < 0.2:
        lin |= 0x80
    b = rng.choice(BOUNDARY_B) if rng.random() < 0.4 else rng.randrange(-512, 512)
    m = rng.choice(BOUNDARY_M + [0]) if rng.random() < 0.4 else rng.randrange(-512, 512)
    return {'analog_data_format': rng.choice((0, 1, 2, 2, 1, 0, 3)), 'linearization': lin, 'm': m, 'b': b,
            'k1': rng.randrange(-8, 8), 'k2': rng.randrange(-8, 8), 'tolerance': rng.randrange(64)}


def _hist_abstract(rng, fac):
    """An abstract full sensor record (argument of the specification's encoder) with the given factors."""
    u8 = lambda: _hist_u8(rng)   # noqa
    f = dict(rid=rng.randrange(65536), ver=0x51, oid=u8(), ch=rng.randrange(16), lun=rng.randrange(4), num=u8(),
             eid=u8(), einst=u8(), ini=u8(), cap=u8(), st=u8(), et=u8(), am=rng.randrange(65536),
             dm=rng.randrange(65536), rm=rng.randrange(65536), fmt=fac['analog_data_format'], rate=rng.randrange(8),
             mod=rng.randrange(4), pct=rng.randrange(2), bu=u8(), mu=u8(), lin=fac['linearization'] & 0x7f,
             m=fac['m'], tol=fac['tolerance'], b=fac['b'], acc=rng.choice((0, 63, 64, 1023, rng.randrange(1024))),
             accx=rng.randrange(4), dir=rng.randrange(4), rexp=fac['k2'], bexp=fac['k1'], af=rng.randrange(8),
             nom=u8(), nmax=u8(), nmin=u8(), smax=u8(), smin=u8(), unr=u8(), ucr=u8(), unc=u8(), lnr=u8(), lcr=u8(),
             lnc=u8(), ph=u8(), nh=u8(), oem=u8())
    idc = [rng.randrange(0x20, 0x7f) for _ in range(rng.choice((0, 1, 5, 16, rng.randrange(17))))]
    return _hist_spec_line(f, idc)


def _hist_new_value(rng, attr, old):
    for _ in range(50):
        if attr in ('m', 'b'):
            v = rng.choice(BOUNDARY_B) if rng.random() < 0.4 else rng.randrange(-512, 512)
        elif attr in ('k1', 'k2'):
            v = rng.randrange(-8, 8)
        elif attr == 'analog_data_format':
            v = rng.randrange(4)
        elif attr == 'linearization':
            r = rng.random()
            v = rng.choice((0, 0x80)) if r < 0.5 else rng.randrange(1, 12) | rng.choice((0, 0x80)) if r < 0.9 \
                else rng.randrange(12, 128)
        else:
            v = rng.randrange(64)
        if v != old:
            return v
    return v


def _hist_raw(rng):
    return rng.choice((0, 1, 2, 127, 128, 129, 254, 255)) if rng.random() < 0.4 else rng.randrange(256)


def gen_history(rng, path, first, extra):
    """One history as a list of abstract steps.  `first` is the first mutation ('set:<attr>' | 'decode' | None),
    `extra` the number of further random steps.  Every mutation is followed by the conversions made before it
    (same raw readings again) and a new one."""
    fac = _hist_factors(rng, blank=(path == 'blank'))
    h = {'op': 'history', 'path': path, 'init': dict(fac), 'steps': []}
    if path != 'blank':
        fac['linearization'] &= 0x7f
        h['init'] = dict(fac)
        h['abstract'] = _hist_abstract(rng, fac)
    cur = dict(fac)
    seen = []

    def conv():
        x = _hist_raw(rng)
        seen.append(x)
        h['steps'].append([rng.choice(('fwd', 'rt', 'rt')), x])

    def again():
        for x in seen[-3:]:
            h['steps'].append([rng.choice(('fwd', 'rt')), x])

    def mutate(kind):
        if kind == 'decode':
            nf = _hist_factors(rng)
            nf['linearization'] &= 0x7f
            h['steps'].append(['decode', _hist_abstract(rng, nf), dict(nf)])
            cur.update(nf)
        else:
            attr = kind.split(':')[1]
            v = _hist_new_value(rng, attr, cur[attr])
            h['steps'].append(['set', attr, v])
            cur[attr] = v

    for _ in range(rng.randrange(0, 3)):
        conv()
    if first:
        mutate(first)
        again()
        conv()
    for _ in range(extra):
        r = rng.random()
        if r < 0.45:
            mutate('set:' + rng.choice(HIST_ATTRS)[0])
            again()
        elif r < 0.55:
            mutate('decode')
            again()
        elif r < 0.65:
            h['steps'].append(['inv', repr(float(rng.randrange(-600, 600)) / rng.choice((1, 1, 8)))])
        else:
            conv()
    again()
    return h


def _container(data, how):
    if how == 'bytes':
        return bytes(bytearray(data))
    if how == 'array':
        import array
        return array.array('B', data)
    return list(data)


def _py_forward_expect(fns, fac, x):
    """The harness's own reading of the forward clause for a factor tuple (classification of a failure only; the
    verdict comes from Spec.Sensor): ('err', 'DecodingError') | _expect(...)."""
    code = fac['linearization'] & 0x7f
    if code > 11:
        return ('err', 'DecodingError')
    sx = _signed(fac['analog_data_format'], x)
    a1, b1 = _p10(fac['k1'])
    a2, b2 = _p10(fac['k2'])
    an, ad = (fac['m'] * sx * b1 + fac['b'] * a1) * a2, b1 * b2
    sn, sd = _scale(fac['m'], fac['b'], fac['k1'], fac['k2'], sx)
    return _expect(fns, code, an, ad, sn, sd)


def _expect(fns, tag, an, ad, sn, sd):
    """What function `tag` of `fns` gives on the exact argument an/ad known to the double arithmetic within
    delta = 2^-TOL * sn/sd: ('ok', lo, hi) | ('err', class) | ('ambiguous',)."""
    from fractions import Fraction
    if tag not in fns:
        return ('err', 'TieBroken')
    a = float(Fraction(an, ad))
    d = float(Fraction(sn, sd)) * 2.0 ** -TOL_BITS
    pts = [a - d, a, a + d]
    if tag == 8 and a - d < 0 < a + d:
        pts.append(0.0)
    if tag == 7 and d > 0 and a - d <= 0 <= a + d:
        return ('ambiguous',)
    res = [_call(fns[tag], p) for p in pts]
    if all(r[0] == 'err' for r in res):
        return ('err', res[0][1]) if len(set(r[1] for r in res)) == 1 else ('ambiguous',)
    if any(r[0] == 'err' for r in res):
        return ('ambiguous',)
    vals = [r[1] for r in res]
    return ('ok', min(vals), max(vals))


def _match(real, exp):
    """True / False / None (ambiguous)."""
    if exp[0] == 'ambiguous':
        return None
    if exp[0] == 'err':
        return real == exp
    if real[0] != 'ok' or not isinstance(real[1], float) or real[1] != real[1]:
        return False
    lo, hi = exp[1], exp[2]
    slack = math.ldexp(max(abs(lo), abs(hi)), -(TOL_BITS - 2))
    return lo - slack <= real[1] <= hi + slack


def _py_inverse(fac, v):
    """Exact inverse clause for a factor tuple (classification only): raw byte or None."""
    from fractions import Fraction
    if fac['m'] == 0 or fac['linearization'] & 0x7f:
        return None
    a1, b1 = _p10(fac['k1'])
    a2, b2 = _p10(-fac['k2'])
    q = (Fraction(v) * Fraction(a2, b2) - fac['b'] * Fraction(a1, b1)) / fac['m']
    r = int(round(q))          # Fraction.__round__: half to even
    fmt = fac['analog_data_format']
    if r < 0 and fmt == 1:
        return (r + 255) & 0xff
    if r < 0 and fmt == 2:
        return (r + 256) & 0xff
    return r


class _History(object):
    """Executes one history on ONE record object of the real code and judges every conversion."""

    def __init__(self, run, h, specs, index=None):
        self.run = run
        self.h = h
        self.specs = specs          # abstract line -> bytes (from the specification's encoder)
        self.index = index
        self.snapshots = []         # factor tuples the record had earlier in this history
        self.kept = []              # (step, raw, factors, result) of earlier conversions

    def build(self):
        from pyipmi.sdr import SdrFullSensorRecord, SdrCommon
        h = self.h
        kind, _, how = h['path'].partition(':')
        if kind == 'blank':
            obj = SdrFullSensorRecord()
            for a in FACTOR_ATTRS + ('tolerance',):
                setattr(obj, a, h['init'][a])
            return obj
        data = _container(self.specs[h['abstract']], how)
        if kind == 'decoded':
            return SdrFullSensorRecord(data)
        return SdrCommon.from_data(data)

    @staticmethod
    def factors(obj):
        return dict((a, getattr(obj, a, None)) for a in FACTOR_ATTRS)

    def execute(self, verbose=False):
        run, ctx, h = self.run, self.run.ctx, self.h
        obj = self.build()
        if type(obj).__name__ != 'SdrFullSensorRecord':
            ctx.count('history:not-a-full-record')      # record classes are C16's property
            return
        shadow = dict((a, h['init'][a]) for a in FACTOR_ATTRS)
        ctx.count('history:path:' + h['path'])
        self.snapshots.append(dict(shadow))
        # pass 1: the specification's / the model's answers for the factor tuple every conversion step should see
        # (the shadow); pass 2 executes and asks again where the record's attributes differ from the shadow
        plan = []
        sh = dict(shadow)
        for st in h['steps']:
            if st[0] == 'set' and st[1] in sh:
                sh[st[1]] = st[2]
            elif st[0] == 'decode':
                sh.update((a, st[2][a]) for a in FACTOR_ATTRS)
            plan.append(dict(sh))
        lines = []
        hist = ['hist %d %d' % (run.fs or 0, run.ss or 0)] + [str(shadow[a]) for a in FACTOR_ATTRS]
        for st, fac in zip(h['steps'], plan):
            if st[0] in ('fwd', 'rt'):
                lines.append('spec %d %d %d %d %d %d %d' % (tuple(fac[a] for a in FACTOR_ATTRS) + (st[1],)))
                hist += ['F', str(st[1])]
            elif st[0] == 'set':
                hist += ['S', SHORT[st[1]], str(st[2])] if st[1] in FACTOR_ATTRS else ['O']
            elif st[0] == 'decode':
                hist += ['D'] + [str(st[2][a]) for a in FACTOR_ATTRS]
            elif st[0] == 'inv':
                hist += ['I', _frac_tok(float(st[1]))]
        # the whole history goes through the history model (Sensor.runHistory) in ONE request
        got = run.drv.ask_many(lines + [' '.join(hist)])
        answers = iter(got[:-1])
        manswers = iter(got[-1].split(' ; ') if got[-1] else [])
        last_mut = None
        for i, (st, fac) in enumerate(zip(h['steps'], plan)):
            if st[0] == 'set':
                setattr(obj, st[1], st[2])
                ctx.count('history:set:' + SHORT[st[1]])
                last_mut = 'set:' + SHORT[st[1]]
                if verbose:
                    print('  step %d: record.%s = %r' % (i, st[1], st[2]))
            elif st[0] == 'decode':
                obj._from_data(list(self.specs[st[1]]))
                ctx.count('history:re-decode')
                last_mut = 're-decode'
                if verbose:
                    print('  step %d: record._from_data(<%d bytes, factors %s>)' % (i, len(self.specs[st[1]]), st[2]))
            if st[0] in ('set', 'decode'):
                now = self.factors(obj)
                if now not in self.snapshots and all(isinstance(now[a], int) for a in FACTOR_ATTRS):
                    self.snapshots.append(now)
            elif st[0] == 'inv':
                self.inverse_free(obj, i, float(st[1]), verbose, next(manswers, 'missing'), fac)
            else:
                sp, mp = next(answers), next(manswers, 'missing')
                now = self.factors(obj)
                if now != fac:
                    if not all(isinstance(now[a], int) for a in FACTOR_ATTRS):
                        ctx.count('history:attributes-not-integers')
                        continue
                    # the decoding gave other attribute values than the encoder was given: C16's property; the
                    # conversion is judged by the record's own (current) attributes
                    ctx.count('history:attributes-differ-from-encoded')
                    t = tuple(now[a] for a in FACTOR_ATTRS) + (st[1],)
                    sp = run.drv.ask('spec %d %d %d %d %d %d %d' % t)
                    mp = run.drv.ask('fwd %d %d %d %d %d %d %d' % t)
                if now not in self.snapshots:
                    self.snapshots.append(dict(now))
                self.convert(obj, i, st, now, sp, mp, last_mut, verbose)

    def case(self, i):
        c = dict(self.h)
        c['fail_step'] = i
        return c

    def convert(self, obj, i, st, fac, sp, mp, last_mut, verbose):
        run, ctx = self.run, self.run.ctx
        x = st[1]
        fmt, lin, m, b, k1, k2 = (fac[a] for a in FACTOR_ATTRS)
        rec = (fmt, lin, m, b, k1, k2)
        sx = _signed(fmt, x)
        ctx.case(('h', self.h['path'], last_mut, i > 0) + rec + (x,), nontrivial=(m * sx != 0 or b != 0))
        ctx.count('history:forward-after:' + (last_mut or 'construction'))
        real = _call(obj.convert_sensor_raw_to_value, x)
        if verbose:
            print('  step %d: convert_sensor_raw_to_value(%d) -> %s   [record: fmt=%s lin=%d M=%d B=%d K1=%d K2=%d; '
                  'Spec.Sensor: %s]' % ((i, x, real, FMT_NAME.get(fmt, fmt)) + rec[1:] + (sp,)))
        sn, sd = _scale(m, b, k1, k2, sx)
        # ---- property (Spec.Sensor over the current attributes)
        if sp == 'DecodingError':
            sexp = ('err', 'DecodingError')
        else:
            _, stag, sarg, _ = sp.split(' ')
            sexp = _expect(ORACLE_FN, int(stag), *(_rat(sarg) + (sn, sd)))
        ok = _match(real, sexp)
        if ok is None:
            ctx.count('history:forward-ambiguous')
        # ---- tie (the model is a function of the current factor tuple only)
        if mp == 'DecodingError':
            mexp = ('err', 'DecodingError')
        else:
            _, mtag, marg, mres = mp.split(' ')
            mexp = ('err', mres[3:]) if mres.startswith('py:') and int(mtag) not in EXACT_TAGS else \
                _expect(SHAPE_FN, int(mtag), *(_rat(marg) + (sn, sd)))
        if _match(real, mexp) is False:
            ctx.disagree('forward-history', dict(self.case(i), factors=fac), str(mexp), str(real))
        value = None
        if ok is False:
            # does a FRESH blank record with the same current factors fail too?  then the defect does not depend on
            # the history: the signature of the grid streams names it (and their directed witnesses come first)
            fresh = _call(_mkrec(*rec).convert_sensor_raw_to_value, x)
            stateless = _match(fresh, sexp) is False
            stale = None if stateless else self.classify_forward(real, fac, x)
            if stale == 'cap':
                ctx.count('violations:C17:forward:(history, not classified)')
                self.kept.append((i, x, dict(fac), real))
                return
            if stateless:
                ctx.count('history:failure-independent-of-history')
                if sexp[0] == 'err' or (lin & 0x7f):
                    cut = sexp[0] == 'ok' and real[0] == 'err' and sp.split(' ')[2].startswith('-')
                    sig = 'C17:forward:lin:bit7-not-masked' if (sexp[0] == 'ok' and lin >= 0x80 and real ==
                                                                ('err', 'DecodingError')) else \
                        'C17:forward:lin=%d%s' % ((lin & 0x7f) if sexp[0] == 'ok' else lin,
                                                   ':negative-argument' if cut else '')
                else:
                    sig = 'C17:forward:arg:%s%s' % (FMT_NAME.get(fmt, fmt), ':raw>=128' if x >= 128 else '')
            else:
                sig = 'C17:forward:stale-factors:%s' % '+'.join(stale) if stale else \
                    'C17:forward:history:%s' % self.h['path'].split(':')[0]
            run.violate(sig,
                        'step %d of a history on one record (%s%s): convert_sensor_raw_to_value(%d) = %s, the formula over '
                        'the record\'s current factors fmt=%s lin=%d M=%d B=%d K1=%d K2=%d gives %s%s'
                        % (i, self.h['path'], ', last change: %s' % last_mut if last_mut else '', x, real,
                           FMT_NAME.get(fmt, fmt), lin, m, b, k1, k2, sexp,
                           '; the result is the formula with the EARLIER value of %s' % ', '.join(stale) if stale else ''),
                        self.case(i), str(sexp), str(real))
        elif ok and (lin & 0x7f) == 0 and real[0] == 'ok':
            value = real[1]
        # ---- earlier results stay what they were (kept, compared again)
        for (j, x0, fac0, real0) in self.kept:
            if x0 == x and fac0 == fac and real0 != real and not (real0[0] == 'ok' and real[0] == 'ok' and
                                                                 _rel_close(real0[1], real[1])):
                if ok is not False:
                    run.violate('C17:forward:history:not-repeatable',
                                'the same reading %d with the same factors gave %s at step %d and %s at step %d'
                                % (x, real0, j, real, i), self.case(i), str(real0), str(real))
        self.kept.append((i, x, dict(fac), real))
        # ---- inverse of that value on the same object
        if st[0] == 'rt' and value is not None and m != 0:
            back = _call(obj.convert_sensor_value_to_raw, value)
            code = 'ok %d' % back[1] if back[0] == 'ok' and isinstance(back[1], int) else \
                _err_tag(back[1]) if back[0] == 'err' else 'ok %r' % (back[1],)
            if verbose:
                print('  step %d: convert_sensor_value_to_raw(%r) -> %s   [property: %d]' % (i, value, back, x))
            a = run.drv.ask('inv %d %d %d %d %d %d %d %d %s' % ((run.fs or 0, run.ss or 0) + rec + (_frac_tok(value),)))
            at = a.split(' ')
            model = ' '.join(at[:2]) if at[0] == 'ok' else a
            if model != code:
                if at[0] == 'ok' and _near_half(*_rat(at[2]), rec=rec, value=value):
                    ctx.count('inverse:rounding-ambiguous')
                else:
                    ctx.disagree('inverse-history', dict(self.case(i), factors=fac, value=repr(value)), model, code)
            if fmt == 1 and x == 0xff:
                ctx.count('inverse:negzero-excluded')
                return
            ctx.count('history:roundtrip-checked')
            if back != ('ok', x):
                if _call(_mkrec(*rec).convert_sensor_value_to_raw, value) != ('ok', x):
                    # a fresh blank record with these factors fails too: independent of the history, the grid
                    # streams (all 256 readings x exponent grid, directed witnesses) name it
                    ctx.count('history:failure-independent-of-history')
                    if not any(y.startswith('C17:inverse-roundtrip:') for y in run.sig_seen):
                        run.violate('C17:inverse-roundtrip:other',
                                    'value_to_raw(raw_to_value(%d)) = %s for fmt=%s M=%d B=%d K1=%d K2=%d (value %r)'
                                    % (x, code, FMT_NAME.get(fmt, fmt), m, b, k1, k2, value), self.case(i),
                                    'ok %d' % x, code)
                    return
                stale = self.classify_inverse(back, fac, value)
                if stale == 'cap':
                    ctx.count('violations:C17:inverse-roundtrip:(history, not classified)')
                    return
                if stale:
                    sig = 'C17:inverse-roundtrip:stale-factors:%s' % '+'.join(stale)
                elif run.present:
                    # a known deviation of the inverse is present (probed): the directed witnesses name it
                    ctx.count('violations:C17:inverse-roundtrip:(history, known deviation present)')
                    return
                else:
                    sig = 'C17:inverse-roundtrip:history:%s' % self.h['path'].split(':')[0]
                run.violate(sig,
                            'step %d of a history on one record (%s%s): value_to_raw(raw_to_value(%d)) = %s with the '
                            'current factors fmt=%s M=%d B=%d K1=%d K2=%d (value %r)%s'
                            % (i, self.h['path'], ', last change: %s' % last_mut if last_mut else '', x, code,
                               FMT_NAME.get(fmt, fmt), m, b, k1, k2, value,
                               '; that is the inverse with the EARLIER value of %s' % ', '.join(stale) if stale else ''),
                            self.case(i), 'ok %d' % x, code)

    def inverse_free(self, obj, i, v, verbose, a, planned):
        """tie only: the history model's inverse (over the record's current attributes)."""
        run, ctx = self.run, self.run.ctx
        fac = self.factors(obj)
        if not all(isinstance(fac[a_], int) for a_ in FACTOR_ATTRS):
            return
        rec = tuple(fac[a_] for a_ in FACTOR_ATTRS)
        real = _call(obj.convert_sensor_value_to_raw, v)
        if verbose:
            print('  step %d: convert_sensor_value_to_raw(%r) -> %s' % (i, v, real))
        code = 'ok %d' % real[1] if real[0] == 'ok' and isinstance(real[1], int) else \
            _err_tag(real[1]) if real[0] == 'err' else 'ok %r' % (real[1],)
        if fac != planned:
            a = run.drv.ask('inv %d %d %d %d %d %d %d %d %s' % ((run.fs or 0, run.ss or 0) + rec + (_frac_tok(v),)))
        at = a.split(' ')
        model = ' '.join(at[:2]) if at[0] == 'ok' else a
        ctx.count('history:inverse-free')
        if model != code:
            if at[0] == 'ok' and _near_half(*_rat(at[2]), rec=rec, value=v):
                ctx.count('inverse:rounding-ambiguous')
            else:
                ctx.disagree('inverse-history', dict(self.case(i), factors=fac, value=repr(v)), model, code)

    def _hybrids(self, fac):
        """current factors with a non-empty subset of attributes taken from an earlier state of this record,
        smallest subsets first."""
        import itertools
        names = ('b', 'k1', 'k2', 'm', 'analog_data_format', 'linearization')
        for n in range(1, len(names) + 1):
            for sub in itertools.combinations(names, n):
                for old in self.snapshots:
                    if all(old[a] != fac[a] for a in sub):
                        hy = dict(fac)
                        hy.update((a, old[a]) for a in sub)
                        yield sub, hy

    def classify_forward(self, real, fac, x):
        if self.run.n_classified >= 300:
            return 'cap'
        self.run.n_classified += 1
        for sub, hy in self._hybrids(fac):
            if _match(real, _py_forward_expect(ORACLE_FN, hy, x)):
                return [SHORT[a] for a in sub]
        return None

    def classify_inverse(self, back, fac, value):
        if back[0] != 'ok':
            return None
        if self.run.n_classified >= 300:
            return 'cap'
        self.run.n_classified += 1
        for sub, hy in self._hybrids(fac):
            if _py_inverse(hy, value) == back[1]:
                return [SHORT[a] for a in sub]
        return None


def _histories(run, rng, per_combo, free, label='histories'):
    """construction path x first mutation (every factor attribute, tolerance, re-decode, none) x seeds, then free
    histories; the bytes come from the specification's encoder (driver op encfull)."""
    ctx = run.ctx
    hs = []
    firsts = ['set:' + a for a, _ in HIST_ATTRS] + ['decode', None]
    for path in HIST_PATHS:
        for first in firsts:
            for _ in range(per_combo):
                hs.append(gen_history(rng, path, first, rng.randrange(0, 4)))
    for _ in range(free):
        hs.append(gen_history(rng, rng.choice(HIST_PATHS), rng.choice(firsts), rng.randrange(3, 10)))
    specs = _encode_all(run.drv, hs)
    for n, h in enumerate(hs):
        ctx.count('stream:' + label)
        run.defer = []
        try:
            _History(run, h, specs, n).execute()
        finally:
            found, run.defer = run.defer, None
        for sig in sorted(set(f[0] for f in found)):
            if sig in run.sig_seen:
                continue
            # report the shortest history that still shows this signature (steps dropped greedily)
            small = None
            if ':stale-factors:' in sig and '+' in sig:
                # several attributes changed in this history: look for a sub-history that shows ONE stale attribute
                prefix = sig.rsplit(':', 1)[0] + ':'
                small = _shrink(run, h, lambda y: y.startswith(prefix) and '+' not in y, specs, strict=True)
                if small is not None and small[0] in run.sig_seen:
                    continue
            small = small or _shrink(run, h, lambda y: y == sig, specs)
            ctx.violate(*small)
            run.sig_seen.add(small[0])
    return len(hs)


def _scratch_violations(run, h, specs):
    c2 = run.ctx.__class__('C17', 'quick', 0)
    r2 = _Run(c2, run.drv, (run.fs, run.ss))
    r2.n_classified = -10 ** 6
    _History(r2, h, specs).execute()
    return c2.violations


def _shrink(run, h, pred, specs, strict=False):
    def shows(hh):
        for y in _scratch_violations(run, hh, specs):
            if pred(y['signature']):
                return (y['signature'], y['what'], y['case'], y['expected'], y['observed'])
        return None

    def first_step(hh):
        # the conversion-free prefix cannot be cut; candidates: drop one step
        for i in reversed(range(len(hh['steps']))):
            cand = dict(hh, steps=hh['steps'][:i] + hh['steps'][i + 1:])
            got = shows(cand)
            if got is not None:
                return cand, got
        return None
    best = shows(h)
    cur = dict(h)
    if best is None:
        if not strict:      # not reproducible on a fresh object?  should not happen: report as found
            sigs = [y for y in _scratch_violations(run, h, specs)]
            y = sigs[0] if sigs else {'signature': 'C17:forward:history:not-reproducible', 'what': 'history',
                                      'case': dict(h), 'expected': '', 'observed': ''}
            return (y['signature'], y['what'], y['case'], y['expected'], y['observed'])
        # the wanted (single-attribute) signature may only appear after steps are dropped
        for _ in range(len(h['steps'])):
            nxt = first_step(cur)
            if nxt is not None:
                cur, best = nxt
                break
            return None
        if best is None:
            return None
    cur = dict(cur, steps=list(cur['steps'][:best[2]['fail_step'] + 1]))
    best = shows(cur) or best
    changed = True
    while changed:
        changed = False
        for i in reversed(range(len(cur['steps']))):
            cand = dict(cur, steps=cur['steps'][:i] + cur['steps'][i + 1:])
            got = shows(cand)
            if got is not None:
                cur, best, changed = cand, got, True
    return best


def _encode_all(drv, hs):
    lines = []
    for h in hs:
        if 'abstract' in h:
            lines.append(h['abstract'])
        lines.extend(st[1] for st in h['steps'] if st[0] == 'decode')
    lines = sorted(set(lines))
    specs = {}
    for ln, ans in zip(lines, drv.ask_many(lines)):
        if not ans.startswith('ok '):
            raise lean.LeanError('Spec.Sdr encoder refused %r: %s' % (ln, ans), '')
        specs[ln] = lean.unhex(ans[3:]) if hasattr(lean, 'unhex') else list(bytearray.fromhex(ans[3:]))
    return specs


# ---------------------------------------------------------------------------------------------

def _witnesses(run):
    """Directed, minimal cases first: they become the replays of the known signatures."""
    run.forward_batch([(0, 0, 2, 3, 0, 0)], raws=[10], label='witness')
    run.forward_batch([(2, 0, 1, -10, 0, 0)], raws=[5], label='witness')
    run.forward_batch([(1, 0, -1, 0, 0, 0)], raws=[5], label='witness')
    run.forward_batch([(2, 0, 1, 0, 0, 0), (1, 0, 1, 0, 0, 0)], raws=[0, 1, 127, 128, 129, 254, 255], label='witness')
    # the cube root of a negative argument, once per analog format (2's / 1's complement reading -8,
    # unsigned with negative M, unsigned with negative B, result exponent 3)
    run.forward_batch([(2, 11, 1, 0, 0, 0)], raws=[0xF8], inverse=False, label='witness')
    run.forward_batch([(1, 11, 1, 0, 0, 0)], raws=[0xF7], inverse=False, label='witness')
    run.forward_batch([(0, 11, -1, 0, 0, 0)], raws=[27], inverse=False, label='witness')
    run.forward_batch([(0, 11, 1, -64, 0, 0)], raws=[0], inverse=False, label='witness')
    run.forward_batch([(2, 11, 1, 0, 0, 3)], raws=[0xFF], inverse=False, label='witness')


def run(ctx):
    from pyipmi.sdr import SdrFullSensorRecord
    drv = sdr_common.fast(ctx, 'drv_c17')
    formula, sign, pa, pb = probe()
    ctx.extra['inverse_variant_probed'] = {
        'formula': {0: 'intended', 1: 'asShipped', None: 'neither (%s)' % (pa,)}[formula],
        'sign_rule': {0: 'intended', 1: 'asShipped', None: 'neither (%s)' % (pb,)}[sign]}
    cub, pc = probe_cubert()
    ctx.extra['cube_root_probed'] = {0: 'intended (real cube root)', 1: 'asShipped (math.pow(x, 1.0/3): ValueError below 0)',
                                     None: 'neither (%s)' % (pc,)}[cub]
    gen_tag = dict(_tab['lin']).get(11) if _tab else None
    ctx.extra['cube_root_generated_tag'] = gen_tag
    if cub is not None and gen_tag in (11, 12) and (gen_tag == 11) != (cub == 1):
        ctx.disagree('cube-root-shape', {'op': 'forward', 'fmt': 2, 'lin': 11, 'm': 1, 'b': 0, 'k1': 0, 'k2': 0, 'raw': 0xF8},
                     'function tag %d' % gen_tag, str(pc))
    run_ = _Run(ctx, drv, (formula, sign))
    rng = ctx.rng('c17')

    # None -> None
    ctx.case(('none',), nontrivial=False)
    got = _call(_mkrec(2, 0, 5, 7, 1, -1).convert_sensor_raw_to_value, None)
    if drv.ask('fwd 2 0 5 7 1 -1 n') != 'none':
        ctx.disagree('forward-none', {'op': 'none'}, 'model does not answer none', 'none')
    if got != ('ok', None):
        run_.violate('C17:forward:absent', 'an absent reading must convert to an absent value',
                     {'op': 'none'}, 'None', str(got))

    _witnesses(run_)

    # all 256 linearisation codes on one record (dispatch, mask, unknown codes)
    run_.forward_batch([(2, c, 3, -7, 1, -1) for c in range(256)], raws=[0, 1, 100, 128, 200, 255],
                       inverse=False, label='all-lin-codes')

    # all exponent pairs x formats x all raws, boundary M, B cycling
    recs = []
    i = 0
    for k1 in range(-8, 8):
        for k2 in range(-8, 8):
            for fmt in (0, 1, 2):
                m = BOUNDARY_M[(i * 7 + fmt) % len(BOUNDARY_M)]
                b = BOUNDARY_B[(i * 5 + 3 * fmt + rng.randrange(4)) % len(BOUNDARY_B)]
                recs.append((fmt, 0, m, b, k1, k2))
                i += 1
    for j in range(0, len(recs), 64):
        run_.forward_batch(recs[j:j + 64], label='exponent-grid')

    # seeded random records (incl. fmt 3, lin with bit 7 set, M = 0 forward only)
    n_rand = 120 if ctx.tier == 'quick' else 1200
    recs = []
    for _ in range(n_rand):
        m = rng.choice(BOUNDARY_M + [0]) if rng.random() < 0.3 else rng.randrange(-512, 512)
        b = rng.choice(BOUNDARY_B) if rng.random() < 0.3 else rng.randrange(-512, 512)
        recs.append((rng.choice((0, 1, 2, 2, 1, 3)), rng.choice((0, 0, 0, 0x80)), m, b,
                     rng.randrange(-8, 8), rng.randrange(-8, 8)))
    for j in range(0, len(recs), 64):
        run_.forward_batch(recs[j:j + 64], label='random')

    # all twelve linearisations on seeded records (small exponents keep exp/pow in range on part of them)
    n_lin = 4 if ctx.tier == 'quick' else 24
    recs = []
    for tag in range(1, 12):
        for j in range(n_lin):
            wide = j % 2 == 1
            recs.append((rng.choice((0, 1, 2)), tag | rng.choice((0, 0x80)),
                         rng.choice(BOUNDARY_M) if wide else rng.randrange(-5, 6),
                         rng.choice(BOUNDARY_B) if wide else rng.randrange(-20, 21),
                         rng.randrange(-8, 8) if wide else rng.randrange(-2, 2),
                         rng.randrange(-8, 8) if wide else rng.randrange(-3, 1)))
    for j in range(0, len(recs), 32):
        run_.forward_batch(recs[j:j + 32], inverse=False, label='nonlinear')

    # every linearisation on arguments of both signs: all 256 raws x every analog format, M = +-1 (so the
    # argument runs through -255..255 / -128..127 / -127..127), and one seeded record with negative M or B
    # per format; the cube root (0Bh) has a value on all of them, ln / log / sqrt only on the positive ones,
    # 1/x everywhere but 0
    recs = []
    for fmt in (0, 1, 2, 3):
        for tag in (11, 11 | 0x80, 1, 2, 3, 7, 8, 9, 10):
            recs.append((fmt, tag, 1, 0, 0, 0))
            recs.append((fmt, tag, -1, 0, 0, 0))
        recs.append((fmt, 11, rng.choice((-512, -129, -3, 511)), rng.choice((-512, -100, -1, 100)), rng.randrange(-2, 3),
                     rng.randrange(-3, 3)))
        recs.append((fmt, 11, rng.randrange(1, 512), -rng.randrange(1, 512), rng.randrange(0, 3), rng.randrange(-8, 4)))
    for j in range(0, len(recs), 20):
        run_.forward_batch(recs[j:j + 20], inverse=False, label='both-signs')

    # inverse on free values
    items = []
    for _ in range(400 if ctx.tier == 'quick' else 4000):
        rec = (rng.choice((0, 1, 2, 3)), rng.choice((0, 0, 0, 0, 0x80, 1, 7)),
               rng.choice(BOUNDARY_M + [0]) if rng.random() < 0.4 else rng.randrange(-512, 512),
               rng.choice(BOUNDARY_B) if rng.random() < 0.4 else rng.randrange(-512, 512),
               rng.randrange(-3, 4), rng.randrange(-3, 4))
        r = rng.random()
        if r < 0.4:
            v = float(rng.randrange(-600, 600))
        elif r < 0.7:
            v = rng.uniform(-300.0, 300.0) * 10.0 ** rng.randrange(-3, 4)
        else:
            v = float(rng.randrange(-70000, 70000)) / 8
        items.append((rec, v))
    run_.inverse_free(items)

    # histories on ONE record object (hidden state between decoding, attribute changes and conversions)
    global _last_run
    _last_run = run_
    quick = ctx.tier == 'quick'
    ctx.extra['histories'] = _histories(run_, ctx.rng('c17-histories'), 3 if quick else 40, 60 if quick else 1500)

    if ctx.tier == 'thorough':
        _thorough(ctx, run_, rng)
    ctx.extra['signatures_seen'] = sorted(run_.sig_seen)
    assert SdrFullSensorRecord is not None


def _exponent_product(ctx, run_, rng):
    """The FULL product the quantifier names at the boundary values: every (K1, K2) in -8..7 x every boundary M x
    every boundary B x the three formats (184 320 records), each on the 8 boundary raws + 8 seeded random raws
    (forward, and the inverse of every linear M != 0 value).  The quick tier's exponent grid takes ONE (M, B) per
    (K1, K2, format); the theorems cover the product algebraically, this covers it for the doubles of the real
    code.  Exponent pairs with an extreme component first, so that a cut by the time budget loses the middle."""
    bnd = [0, 1, 2, 127, 128, 129, 254, 255]
    pairs = [(k1, k2) for k1 in range(-8, 8) for k2 in range(-8, 8)]
    rng.shuffle(pairs)
    pairs.sort(key=lambda p: 0 if (p[0] in (-8, 7) or p[1] in (-8, 7)) else 1)
    total = len(pairs) * len(BOUNDARY_M) * len(BOUNDARY_B) * 3
    done = pairs_done = 0
    for k1, k2 in pairs:
        if ctx.time_left() < 420:
            break
        raws = bnd + sorted(rng.sample([x for x in range(256) if x not in bnd], 8))
        batch = [(fmt, 0, m, b, k1, k2) for m in BOUNDARY_M for b in BOUNDARY_B for fmt in (0, 1, 2)]
        run_.forward_batch(batch, raws=raws, label='exponent-product')
        done += len(batch)
        pairs_done += 1
    ctx.extra['exponent_product'] = {'records_done': done, 'records_total': total, 'exponent_pairs_done': pairs_done,
                                     'exponent_pairs_total': len(pairs), 'boundary_M': len(BOUNDARY_M),
                                     'boundary_B': len(BOUNDARY_B), 'formats': 3, 'raws_per_record': 16}
    if done < total:
        ctx.notes.append('thorough: boundary (M, B) x exponent product cut by the time budget after %d of %d exponent '
                         'pairs (%d of %d records)' % (pairs_done, len(pairs), done, total))


def _thorough(ctx, run_, rng):
    """The full boundary product over all exponent pairs (_exponent_product); every (M, B) in [-512, 511]^2 at
    K1 = K2 = 0, formats cycling, eight boundary raws; then a stride through (M, B) at three other exponent
    pairs.  Time-guarded."""
    _exponent_product(ctx, run_, ctx.rng('c17-exponent-product'))
    raws = [0, 1, 2, 127, 128, 129, 254, 255]
    done = 0
    total = 1024 * 1024
    batch = []
    i = 0
    for m in range(-512, 512):
        if ctx.time_left() < 240:
            break
        for b in range(-512, 512):
            batch.append(((i % 3), 0, m, b, 0, 0))
            i += 1
        run_.forward_batch(batch, raws=raws, label='exhaustive-MB-K0')
        done += len(batch)
        batch = []
    ctx.extra['exhaustive_MB_K0'] = {'records_done': done, 'records_total': total, 'raws': raws}
    if done < total:
        ctx.notes.append('thorough: exhaustive (M, B) sweep cut by the time budget after %d of %d records' % (done, total))
    for (k1, k2) in ((-8, 7), (7, -8), (-3, 3)):
        batch = []
        for m in range(-512, 512, 13):
            for b in range(-512, 512, 17):
                batch.append((rng.choice((0, 1, 2)), 0, m, b, k1, k2))
        if ctx.time_left() < 120:
            ctx.notes.append('thorough: stride sweep at exponents (%d, %d) skipped (time budget)' % (k1, k2))
            continue
        for j in range(0, len(batch), 512):
            run_.forward_batch(batch[j:j + 512], raws=raws, label='stride-MB-K(%d,%d)' % (k1, k2))


def search(ctx):
    """A tie broke (translator, theorem over the generated table, or correspondence) and run()
    saw no violation: promote code/model disagreements that the proved model = spec theorems
    (forward_formula, lin_table) make property violations."""
    if not ctx.lean_ok:
        ctx.notes.append('Lean obligations are broken; the always-on spec run of run() already judged the real code '
                         'against Spec.Sensor on every generated case')
        return
    for d in ctx.disagreements:
        if d['what'].startswith('forward'):
            ctx.violate('C17:forward:model-mismatch', 'forward conversion differs from the proved model',
                        d['case'], expected=d['model'], observed=d['code'])
            d['explained_by'] = 'forward_formula'
    if not ctx.violations and _last_run is not None:
        # the expression tie (or a theorem) broke and no stream of run() has a failing input: the expressions of the
        # conversion functions left the translator's grammar.  A frequent reason is state kept between calls, so dig
        # deeper in the history class (Spec-judged, like run()): ten times the quick amount, longer histories
        n = _histories(_last_run, ctx.rng('c17-histories-search'), 20, 1200, label='histories-search')
        ctx.notes.append('search: %d further record histories (construction path x attribute change x re-decoding x '
                         'interleaved conversions) judged by Spec.Sensor: %s'
                         % (n, 'violation found' if ctx.violations else 'no violation'))


def replay(ctx, v):
    case = v['case']
    drv = sdr_common.fast(ctx, 'drv_c17')
    if case.get('op') == 'history':
        c2 = ctx.__class__('C17', 'quick', 0)
        formula, sign, _, _ = probe()
        r2 = _Run(c2, drv, (formula, sign))
        h = dict((k, x) for k, x in case.items() if k != 'fail_step')
        print('history on one record object, construction path %s, initial factors %s' % (h['path'], h['init']))
        _History(r2, h, _encode_all(drv, [h])).execute(verbose=True)
        for y in c2.violations:
            print('  VIOLATED: ' + y['what'])
        return v['signature'] in [y['signature'] for y in c2.violations]
    if case.get('op') == 'none':
        got = _call(_mkrec(2, 0, 5, 7, 1, -1).convert_sensor_raw_to_value, None)
        print('convert_sensor_raw_to_value(None) -> %s; property: None' % (got,))
        return got != ('ok', None)
    rec = (case['fmt'], case['lin'], case['m'], case['b'], case['k1'], case['k2'])
    print('record fmt=%s lin=%d M=%d B=%d K1=%d K2=%d' % ((FMT_NAME.get(rec[0], rec[0]),) + rec[1:]))
    c2 = ctx.__class__('C17', 'quick', 0)
    formula, sign, _, _ = probe()
    r2 = _Run(c2, drv, (formula, sign))
    if case['op'] in ('forward', 'roundtrip'):
        x = case['raw']
        fwd = _call(_mkrec(*rec).convert_sensor_raw_to_value, x)
        print('  convert_sensor_raw_to_value(%d) -> %s' % (x, fwd))
        print('  Spec.Sensor: %s' % drv.ask('spec %d %d %d %d %d %d %d' % (rec + (x,))))
        if fwd[0] == 'ok' and (rec[1] & 0x7f) == 0:
            back = _call(_mkrec(*rec).convert_sensor_value_to_raw, fwd[1])
            print('  convert_sensor_value_to_raw(%r) -> %s; property: %d' % (fwd[1], back, x))
        r2.forward_batch([rec], raws=[x], label='replay')
    for y in c2.violations:
        print('  VIOLATED: ' + y['what'])
    sigs = [y['signature'] for y in c2.violations]
    return v['signature'] in sigs or (bool(sigs) and v['signature'].endswith('model-mismatch'))
