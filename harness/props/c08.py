"""C08 — Errors reported by the BMC are never mistaken for success.

Part A: calling every public operation of `pyipmi.Ipmi` on the fault interface
        (`public_ops`, argument recipes, `execute`, `canon`).
Part B: the check -- exhaustive single-fault injection (every operation x every request position
        x every code of the tier's alphabet), directed and sampled double faults, the property
        oracle, and the correspondence with the Lean models (skeleton trace inclusion, skeleton
        replay under faults, the handler models, the SEL / SDR operation models of
        lean/PyIpmi/Model/ProgOps.lean: outcome, returned bytes and the full request trace).
"""
import contextlib
import inspect
import io
import os
import types
from array import array
from enum import Enum

from ..lib import lean, repo
from ..sim import fault_iface as fi
from ..translate import api, registry

ID = 'C08'
TARGETS = ['PyIpmi.Props.C08', 'drv_c08']
LEVEL = 'proof'
RULE = ('every public method of the live pyipmi.Ipmi class is called (arguments from a recipe table keyed by '
        'parameter name / operation) on a stateless scripted BMC whose OK answers carry non-default values; '
        'then once more per (request position of the fault-free run x completion code of the tier alphabet: '
        'quick = the 12 codes any handler tests for + 0x83 + 0xCE + the band edges 01/7E/7F/BE/BF/D6/D7/FE of table 5-2, thorough = 0x01..0xFF), with that request '
        'answered by the bare code (sampled: code + payload); double faults: at every later position of every '
        'run that recovered, plus seeded pairs.  Oracle = the property: CompletionCodeError with that code, '
        'RetryError, HpmError, or the fault-free result AND evidence of a retry/adaptation in the request trace AND every code the run went on after is one the documented handlers of that operation name '
        'AND, for an HPM.1 request answered 80h, the BMC\'s Get Upgrade Status reported the end of the long duration command with 00h (device variants busyhpm / failhpm report 80h for ever / the final code 82h: completing normally there is taking a failure for success). '
        'A case is distinct by (operation, recipe, device variant, fault list) and non-trivial when the fault '
        'position is reached.')
ASSUMPTIONS = [
    'Prog models of the handlers and of the SEL / SDR operations (lean/PyIpmi/Model/Prog.lean, ProgMore.lean, '
    'ProgOps.lean) are hand-written and tied by the correspondence run (outcome, returned bytes, request trace on the '
    'same fault scripts); skeletons, shape classes, own handler kinds, handler codes and loop constants are '
    'regenerated from the source each run (Gen/ApiShapes.lean)',
    'every public operation is covered by a theorem (kernel-decided table_covered): checked / nosend skeletons, the '
    'modelled leaves (operations with handlers of their own), compositions of covered operations '
    '(composition_fault_safe / composition_multi_safe: every resolution of the generated skeleton, provided each '
    'modelled leaf is safe on the states it is reached in -- the device hypotheses of the leaf theorems are assumed '
    'there: consistent FRU / SEL / SDR storage, the HPM action and status query succeed fault-free); primitives '
    '(send_message, raw_command hand the code to the caller) and transport operations (open, close, '
    'is_ipmc_accessible, wait_until_ipmb_is_accessible exchange no IPMI message) are listed with that reason',
    'get_sel_entry / get_and_clear_sel_entry: the theorems (SelFaults, GacFaults) admit EVERY fault set on a source whose '
    'get_sel_entry gives up with RetryError once the request length 1 has been refused and whose get-and-clear runs on a retry '
    'budget (the source as it is now: Props.C13.source_variant; fault scripts with 17 and more answers CAh / more C5h than the '
    'budget are compared with the model).  On a source WITHOUT that floor / budget (the pinned one) they admit at most 16 '
    'answers CAh and faults below a position the fuel exceeds, and scripts beyond that are not generated: there the code does '
    'not end (C13:get_sel_entry:unbounded-after-CAh, C13:get_and_clear_sel_entry:unbounded-after-C5h - C13\'s clause, not a '
    'completion code lost) and this model saturates max_req_len at 0 where Python goes negative.  The third repair of that loop '
    '(C13:get_sel_entry:unbounded-on-empty-answer: RetryError on a "completed" answer without a record byte) is not in this '
    'model (Model/ProgMore.selStep): a fault here is a completion code and the scripted BMC serves every fault-free read with '
    'at least one byte (SelStorage), so the statement is never reached; SelFaults is unchanged',
    'the BMC is a fixed script (answers depend on the request only); a faulted answer is the bare code '
    '(sampled: code followed by the OK payload)',
    'SDR reads: the scripted BMC grants ONE reservation id for ever and the models sdrData / sdrEntries carry one reservation '
    'id through a record / a listing (the SDR theorems assume a caller-supplied reservation to be that id: hgiven).  Whether '
    'the id obtained by get_sdr_chunk_helper after C5h is handed on to the following chunks / records '
    '(C13:data_helper:stale-reservation-after-renewal, fixes/C13-2) shows only when the caller supplies a FOREIGN id: those '
    'reads are compared on every fault script without C5h, and the scripts with C5h are run with the id the BMC grants, where '
    'both variants issue the same requests (compared field by field, reservation included); which id a request carries after a '
    'renewal is C13\'s clause, judged by C13 and mirrored by the C11 model (Variant.staleRes).  The chunk readers\' '
    '`except CompletionCodeError as e: e.reservation_id = …; raise` is read by the translator as what it is: the same error '
    'propagating (no handler kind, no continuation)',
    'HPM.1 long duration commands: the outcome of a command answered 80h is what the script\'s Get Upgrade Status says '
    '(last completion code 00h / 80h for ever / 82h, one device variant each); a long duration command that ends '
    'after n polls is C18\'s reference device, not this one; interface time-outs during polling are not injected',
    'wall-clock time in the polling loops is a virtual clock (Python) / a poll budget (Lean)',
    'class-level attributes of returned objects are not compared (only instance state); C07 owns those',
]
TRUSTED = ['harness/translate/api.py', 'harness/translate/registry.py', 'harness/sim/fault_iface.py']

WORK = os.path.join(repo.VERIF, '.work', 'c08')

QUICK_CODES = [0x80, 0x81, 0xC0, 0xC3, 0xC5, 0xC8, 0xC9, 0xCA, 0xCB, 0xCC, 0xD5, 0xFF, 0x83, 0xCE,
               # one or two codes of every band of IPMI v2.0 table 5-2 that no handler names: device-specific
               # (01h-7Eh), the unassigned 7Fh and BFh, command-specific upper end, the unassigned D7h-FEh
               0x01, 0x7E, 0x7F, 0xBE, 0xBF, 0xD6, 0xD7, 0xFE]
LIB_ERRORS = ('CompletionCodeError', 'RetryError', 'HpmError')
# operations that hand the response (or the raw bytes) to the caller, completion code included
PRIMITIVES = ('send_message', 'raw_command')
# the documented retries / adaptations (property record: read-size back-off, reservation renewal, busy/timeout
# retry, HPM long-duration polling), per operation, with the codes pinned by Props/C08.lean handler_codes_pinned:
# an operation may go on after exactly these codes; going on after any other code is swallowing it
_HPM, _CLR, _FRU = {0x80}, {0xC5}, {0xC8, 0xC9, 0xCA}
_SDR, _SEL = {0xC3, 0xC5, 0xCE, 0xCA}, {0xCA}
DOCUMENTED = {}
for _o in ('activate_firmware_and_wait', 'activation_stage', 'finish_upload_and_wait', 'initiate_manual_rollback_and_wait',
           'initiate_upgrade_action_and_wait', 'upload_binary', 'upgrade_stage', 'install_component_from_image',
           'install_component_from_file'):
    DOCUMENTED[_o] = _HPM
for _o in ('clear_sdr_repository', 'clear_sel'):
    DOCUMENTED[_o] = _CLR
for _o in ('read_fru_data', 'read_fru_data_full', 'get_fru_inventory_header', 'get_fru_board_area', 'get_fru_chassis_area',
           'get_fru_product_area', 'get_fru_multirecord_area', 'get_fru_inventory'):
    DOCUMENTED[_o] = _FRU
for _o in ('get_device_sdr', 'device_sdr_entries', 'get_device_sdr_list', 'get_repository_sdr', 'sdr_repository_entries',
           'get_repository_sdr_list', '_get_sdr_chunk', '_get_device_sdr_chunk'):
    DOCUMENTED[_o] = _SDR
for _o in ('get_sel_entry', 'sel_entries', 'get_sel_entries'):
    DOCUMENTED[_o] = _SEL
DOCUMENTED['get_and_clear_sel_entry'] = _SEL | {0xC5}
DOCUMENTED['get_component_properties'] = {0x83}

# documented adaptations whose result legitimately differs from the fault-free one:
# Get Component Properties answers 0x83 "invalid properties selector" -> that property is left out
ADAPT = {
    ('get_component_properties', 0x83): lambda free, k: free[:k] + free[k + 1:],
}

# =========================================================================================
# Part A — operations
# =========================================================================================


def public_ops():
    import pyipmi
    out = []
    for n in sorted(dir(pyipmi.Ipmi)):
        if n.startswith('_'):
            continue
        a = inspect.getattr_static(pyipmi.Ipmi, n)
        if isinstance(a, (types.FunctionType, staticmethod, classmethod)):
            out.append(n)
    return out


def canon(x, depth=0, seen=None):
    """Structural canonical form of a returned object (instance state only)."""
    seen = seen if seen is not None else set()
    if isinstance(x, Enum):
        return ['enum', type(x).__name__, x.name]
    if x is None or isinstance(x, (bool, int, float, str)):
        return x
    if isinstance(x, (bytes, bytearray)):
        return ['bytes', bytes(x).hex()]
    if isinstance(x, array):
        return ['bytes', bytes(bytearray(x)).hex()] if x.typecode == 'B' else ['array', x.tolist()]
    if depth > 12:
        return ['deep', type(x).__name__]
    if isinstance(x, (list, tuple)):
        return [canon(v, depth + 1, seen) for v in x]
    if isinstance(x, (set, frozenset)):
        return ['set'] + sorted(repr(canon(v, depth + 1, seen)) for v in x)
    if isinstance(x, dict):
        return ['dict'] + [[repr(k), canon(v, depth + 1, seen)]
                           for k, v in sorted(x.items(), key=lambda kv: repr(kv[0]))]
    if isinstance(x, types.GeneratorType):
        return [canon(v, depth + 1, seen) for v in x]
    if type(x).__name__ == 'ByteBuffer' and hasattr(x, 'array'):
        return ['bytes', bytes(bytearray(x.array)).hex()]
    if type(x).__module__ == 'datetime':
        return ['datetime', repr(x)]
    if id(x) in seen:
        return ['cycle', type(x).__name__]
    d = getattr(x, '__dict__', None)
    if d is None:
        return ['repr', type(x).__name__, repr(x)]
    seen = seen | {id(x)}
    body = []
    for k in sorted(d):
        v = d[k]
        if k in ('_bits', '_length') or callable(v):
            continue
        body.append([k, canon(v, depth + 1, seen)])
    return ['obj', type(x).__name__, body]


BY_NAME = {
    'fru_id': 0, 'channel': 1, 'userid': 2, 'sensor_number': 3, 'lun': 0, 'record_id': 0,
    'reservation': 0x0102, 'reservation_id': None, 'option': 1, 'selector': 1, 'mode': 1,
    'attributes': 0, 'component_id': 1, 'property_id': 1, 'component': 1, 'components_mask': 2,
    'action': 2, 'block_number': 0, 'length': 50, 'timeout': 1, 'interval': 0.1,
    'led_id': 1, 'power_type': 0, 'fan_level': 3, 'ctrl': 0, 'state': 1, 'start': 1,
    'channel_number': 1, 'channel_interface': 0, 'interface': 1, 'signaling_class': 1,
    'enable': True, 'current_limit': 1.5, 'ipmb_address': 0x20, 'bus_type': 1, 'bus_id': 2,
    'address': 0x50, 'count': 4, 'offset': 0, 'progress': 1, 'priv_lvl': 4,
    'parameter_selector': 5, 'set_selector': 0, 'block_selector': 0, 'expected_cmd': 0x31,
    'sensor_type': 1, 'event_type': 1, 'retry': 5, 'descriptor': 'boot-c08',
    'ipmi_msg': 1, 'link_auth': 1, 'callback_only': 0, 'username': 'operator', 'password': 'secret',
    'ip_address': '10.0.0.7', 'ip_source': 'static', 'vlan': 394, 'boot_mode': 'efi',
    'boot_persistency': True, 'netfn': 6, 'name': 'GetDeviceId',
}


def _image(env):
    from pyipmi import hpm
    return hpm.UpgradeImage(env['hpm_file'])


def _watchdog(env):
    from pyipmi import bmc
    w = bmc.Watchdog()
    w.timer_use, w.dont_stop, w.dont_log = 4, True, False
    w.pre_timeout_interrupt, w.timeout_action = 1, 2
    w.pre_timeout_interval, w.timer_use_expiration_flags, w.initial_countdown = 5, 0x10, 600
    return w


def _led(env):
    from pyipmi import picmg
    return picmg.LedState(fru_id=0, led_id=1, color=picmg.LedState.COLOR_RED,
                          function=picmg.LedState.FUNCTION_ON)


def _link(env):
    from pyipmi import picmg
    ld = picmg.LinkDescriptor()
    ld.channel, ld.interface, ld.link_flags, ld.type = 3, 1, 0xf, 2
    ld.sig_class, ld.extension, ld.grouping_id = 0, 1, 0
    return ld


def _req(env):
    from pyipmi.msgs import create_request_by_name
    return create_request_by_name('GetDeviceId')


def _boot_device(env):
    from pyipmi import chassis
    return chassis.BootDevice.PXE


def _priv_level(env):
    from pyipmi import messaging
    return messaging.UserPrivilegeLevel.USER


SPECIAL = {
    'config': _watchdog, 'led': _led, 'link_descr': _link, 'image': _image, 'req': _req,
    'filename': lambda env: env['hpm_file'],
    'binary': lambda env: bytes(bytearray((3 * k + 1) & 0xff for k in range(50))),
    'raw_bytes': lambda env: b'\x01',
    'boot_device': _boot_device, 'priv_level': _priv_level,
}

PER_OP = {
    'write_fru_data': {'data': bytes(bytearray(range(1, 41))), 'offset': 8},
    'read_fru_data': {'offset': None, 'count': None},
    'i2c_write': {'data': bytes([1, 2, 3])},
    'i2c_write_read': {'data': bytes([9, 8])},
    'upload_firmware_block': {'data': bytes(bytearray(range(1, 23)))},
    'partial_add_sdr': {'data': bytes(bytearray(range(1, 9))), 'reservation_id': 0x0102, 'record_id': 0},
    'set_system_boot_options': {'data': bytes([0xE0, 0x04, 0, 0, 0])},
    'set_lan_config_param': {'data': bytes([10, 0, 0, 9]), 'parameter_selector': 3},
    'get_lan_config_param': {'parameter_selector': 3},
    'send_platform_event': {'event_data': [1, 2, 3]},
    'get_sel_entry': {'record_id': 1},
    'get_and_clear_sel_entry': {'record_id': 1},
    'delete_sel_entry': {'record_id': 1},
    'delete_sdr': {'record_id': 1},
    'set_sensor_thresholds': {'unr': 90, 'lcr': 5},
    'get_dcmi_capabilities': {'selector': 1},
    'wait_until_new_firmware_comes_up': {'timeout': 1, 'interval': 0.3},
    'wait_until_ipmb_is_accessible': {'timeout': 1, 'interval': 0.3},
    'initiate_upgrade_action': {'components_mask': 2, 'action': 2},
}

def _bmc_reservation(env):
    """the (one) reservation id the scripted BMC grants"""
    r = fi.Bmc().answer('ReserveSdrRepository', b'')
    return r[1] | r[2] << 8


EXTRA = {
    'read_fru_data': [{'offset': 3, 'count': 70}],
    'get_lan_config_param': [{'revision_only': 1}],
    'get_repository_sdr': [{'record_id': 2, 'reservation_id': 0x0304}, {'record_id': 2, 'reservation_id': _bmc_reservation}],
    'get_device_sdr': [{'record_id': 2, 'reservation_id': 0x0304}, {'record_id': 2, 'reservation_id': _bmc_reservation}],
    'activate_firmware': [{'rollback_override': 1}],
    'set_fru_activation_policy': [{'ctrl': 3}],
    'send_channel_power': [{'enable': False}],
}


class Uncallable(Exception):
    pass


def recipes(op):
    """[{param: value-or-factory}] for `op` (the first is the main recipe)."""
    import pyipmi
    fn = getattr(pyipmi.Ipmi, op)
    try:
        sig = inspect.signature(fn)
    except (TypeError, ValueError) as e:
        raise Uncallable('no signature for %s: %s' % (op, e))
    base = {}
    for pname, p in sig.parameters.items():
        if pname == 'self' or p.kind in (p.VAR_POSITIONAL, p.VAR_KEYWORD):
            continue
        over = PER_OP.get(op, {})
        if pname in over:
            base[pname] = over[pname]
        elif pname in SPECIAL:
            base[pname] = SPECIAL[pname]
        elif pname in BY_NAME:
            base[pname] = BY_NAME[pname]
        elif p.default is not p.empty:
            base[pname] = p.default
        elif pname == 'data':
            base[pname] = bytes([1, 2, 3, 4])
        else:
            raise Uncallable('no recipe for parameter %r of %s%s' % (pname, op, sig))
    out = [base]
    for extra in EXTRA.get(op, []):
        d = dict(base)
        d.update(extra)
        out.append(d)
    return out


def make_env():
    """Files the recipes need: an HPM.1 image that matches the fake BMC's Get Device ID."""
    os.makedirs(WORK, exist_ok=True)
    did = list(fi.Bmc().answer('GetDeviceId', b''))
    # IPMI v2.0 §20.1: cc, id, rev, fw1, fw2, ipmi, support, manufacturer[3], product[2]
    device_id, mfg, prod = did[1], did[7] | did[8] << 8 | did[9] << 16, did[10] | did[11] << 8
    path = os.path.join(WORK, 'image-%d.hpm' % os.getpid())
    with open(path, 'wb') as f:
        f.write(fi.hpm_image_bytes(device_id, mfg, prod))
    return {'hpm_file': path}


def drop_env(env):
    try:
        os.unlink(env['hpm_file'])
    except OSError:
        pass


def execute(op, rec, env, variant='default', faults=None, call=None):
    """One run of `op` (or of `call(ipmi)`) on a fresh Ipmi / stateless BMC / virtual clock.
    -> {'kind': 'ok', 'value'} | {'kind': 'exc', 'type', 'cc', 'text', 'where'}, plus
    'trace' [(request class, payload hex)] and 'carried' (code visible in a primitive's result)."""
    import pyipmi
    import pyipmi.helper
    import pyipmi.hpm
    from pyipmi import errors
    from pyipmi.session import Session
    iface = fi.FaultInterface(fi.Bmc(variant), faults)
    clock = fi.Clock()
    mods = (pyipmi, pyipmi.helper, pyipmi.hpm)
    saved = [m.time for m in mods]
    for m in mods:
        m.time = clock
    o = None
    try:
        ipmi = pyipmi.Ipmi(interface=iface, target=pyipmi.Target(0x20), session=Session())
        try:
            with contextlib.redirect_stdout(io.StringIO()):
                if call is not None:
                    res = call(ipmi)
                else:
                    kwargs = dict((k, v(env) if callable(v) else v) for k, v in rec.items())
                    res = getattr(ipmi, op)(**kwargs)
                if isinstance(res, types.GeneratorType):
                    res = list(res)
            o = {'kind': 'ok', 'value': canon(res)}
            if hasattr(res, 'completion_code'):
                o['carried'] = res.completion_code
            elif isinstance(res, (bytes, bytearray)) and len(res):
                o['carried'] = bytearray(res)[0]
        except fi.LoopGuard as e:
            o = {'kind': 'exc', 'type': 'Hang', 'cc': None, 'text': str(e), 'where': None}
        except Exception as e:  # noqa -- the outcome IS the exception
            cc = getattr(e, 'cc', None) if isinstance(e, errors.CompletionCodeError) else None
            o = {'kind': 'exc', 'type': type(e).__name__, 'cc': cc, 'text': str(e)[:160], 'where': None}
            tb = e.__traceback__
            while tb is not None:
                fn = tb.tb_frame.f_code.co_filename
                if os.sep + 'pyipmi' + os.sep in fn:
                    o['where'] = '%s:%d' % (os.path.basename(fn), tb.tb_lineno)
                tb = tb.tb_next
    finally:
        for m, t in zip(mods, saved):
            m.time = t
    o['trace'] = [(n, h) for (n, h, _) in iface.trace]
    return o


def same_outcome(a, b):
    if a['kind'] != b['kind']:
        return False
    if a['kind'] == 'ok':
        return a['value'] == b['value']
    return (a['type'], a['cc'], a['text']) == (b['type'], b['cc'], b['text'])


def tag(o):
    """Outcome in the driver's vocabulary."""
    if o['kind'] == 'ok':
        return 'ok'
    if o['type'] == 'CompletionCodeError':
        return 'CompletionCodeError:%d' % o['cc']
    if o['type'] in ('RetryError', 'HpmError', 'DecodingError', 'EncodingError', 'IpmiTimeoutError',
                     'NotSupportedError'):
        return o['type']
    return 'py:' + o['type']


# =========================================================================================
# Part B — the check
# =========================================================================================

_gen = None


def translate(ctx):
    global _gen
    registry.generate()
    _gen = api.generate()
    for n in api.LOOP_CONST_NOTES:
        ctx.notes.append(n)


# device variants whose Get Upgrade Status does NOT report that the long duration command ended with 00h
LONG_NOT_SUCCEEDED = ('failhpm', 'busyhpm')


def judge(op, faults, free, bad, variant='default'):
    """The property on one faulted run.  -> (verdict, what)  verdict in
    'cc' 'retry' 'hpm' 'recovered' 'adapted' 'carried'  (fine)  |  'VIOLATION'."""
    codes = [c for (_, c, _) in faults]
    k = faults[0][0]
    if bad['kind'] == 'exc':
        if bad['type'] == 'CompletionCodeError':
            return ('cc', None) if bad['cc'] in codes else ('VIOLATION', 'wrong-code')
        if bad['type'] == 'RetryError':
            return 'retry', None
        if bad['type'] == 'HpmError':
            return 'hpm', None
    if op in PRIMITIVES and bad['kind'] == 'ok' and bad.get('carried') in codes:
        return 'carried', None
    if op == 'get_and_clear_sel_entry' and bad['kind'] == 'ok':
        # "atomically gets and clears": the entry handed back was read under the reservation the delete
        # succeeded with -- after "reservation cancelled" (the log changed) it has to be read again
        names = [n for (n, _) in bad['trace']]
        last = dict((n, i) for i, n in enumerate(names))
        if not (last.get('ReserveSel', -1) < last.get('GetSelEntry', -1) < last.get('DeleteSelEntry', -1)):
            return 'VIOLATION', 'stale-after-cancel'
    if same_outcome(bad, free):
        if bad['trace'][k + 1:] != free['trace'][k + 1:]:
            # the run went on after the faults it reached: legitimate only for the codes the documented
            # retries / adaptations of this operation name
            reached = [c for (kk, c, _) in faults if kk < len(bad['trace'])]
            if any(c not in DOCUMENTED.get(op, ()) for c in reached):
                return 'VIOLATION', 'undocumented-retry'
            if variant in LONG_NOT_SUCCEEDED and DOCUMENTED.get(op) is _HPM and 0x80 in reached:
                # HPM.1: the request was answered 80h and the status polled afterwards says "still in progress" /
                # "failed with 82h": the BMC never reported success, the operation completed as if it had
                return 'VIOLATION', 'long-duration-outcome-ignored'
            return 'recovered', None
        return 'VIOLATION', 'ignored-cc'
    if all((op, c) in ADAPT for c in codes) and bad['kind'] == 'ok' and free['kind'] == 'ok':
        try:
            want = free['value']
            for (kk, cc_, _) in sorted(faults, reverse=True):
                want = ADAPT[(op, cc_)](want, kk)
        except Exception:  # noqa
            want = None
        if want == bad['value']:
            return 'adapted', None
    if bad['kind'] == 'exc':
        return 'VIOLATION', bad['type']
    return 'VIOLATION', 'result-differs'


def _fmt_faults(faults):
    return ','.join('%d:%d' % (k, c) for (k, c, _) in faults) if faults else '-'


class Sweep(object):
    """State of one run of the check."""

    def __init__(self, ctx, entries, msg_index):
        self.ctx = ctx
        self.env = make_env()
        self.entries = entries
        self.msg_index = msg_index
        self.by_name = dict((e['name'], e) for e in entries if e['key'][0] == 'm')
        self.codes = QUICK_CODES if ctx.tier == 'quick' else list(range(1, 256))
        self.bad = {}            # (op, what) -> {'codes': set, 'witness': case, 'n': int, 'obs':..}
        self.tested_codes = {}   # op -> set of codes injected at least once
        self.drv_lines = []      # (line, expected, case)  for the skeleton replay
        self.free = {}           # (op, ri, variant) -> baseline outcome
        self.long_callers = set()  # operations through which the ignored long-duration outcome was seen

    def close(self):
        drop_env(self.env)

    # ---- bookkeeping ----------------------------------------------------------------------
    def note_violation(self, op, what, case, free, bad):
        slot = self.bad.setdefault((op, what), {'codes': set(), 'single': set(), 'witness': None, 'n': 0,
                                                'obs': None, 'exp': None})
        slot['n'] += 1
        for f in case['faults']:
            slot['codes'].add(f[1])
        if len(case['faults']) == 1:
            slot['single'].add(case['faults'][0][1])
        size = (len(case['faults']), case['faults'][0][0] if case['faults'] else -1,
                case['faults'][0][1] if case['faults'] else -1)
        if slot['witness'] is None or size < slot['size']:
            slot['witness'], slot['size'] = case, size
            slot['obs'] = describe(bad)
            slot['exp'] = 'CompletionCodeError carrying the code / RetryError / HpmError, or the fault-free ' \
                          'result after a retry or adaptation; fault-free: %s' % describe(free)

    def run_case(self, op, ri, rec, variant, faults, free, kind):
        bad = execute(op, rec, self.env, variant, dict((k, (c, t)) for (k, c, t) in faults))
        verdict, what = judge(op, faults, free, bad, variant)
        self.ctx.case((op, ri, variant, tuple(faults)))
        self.ctx.count('verdict:' + (what if verdict == 'VIOLATION' else verdict))
        self.ctx.count('faults:' + kind)
        for (_, c, _) in faults:
            self.tested_codes.setdefault(op, set()).add(c)
        if verdict == 'VIOLATION':
            case = {'op': op, 'recipe': ri, 'variant': variant, 'faults': [list(f) for f in faults]}
            if what == 'long-duration-outcome-ignored':
                # one defect, in the wait all of them share; reported once, with the callers listed
                self.long_callers.add(op)
                self.note_violation(LONG_WAIT_OP, what, case, free, bad)
            else:
                self.note_violation(op, what, case, free, bad)
        return bad, verdict


LONG_WAIT_OP = 'wait_for_long_duration_command'


def describe(o):
    if o['kind'] == 'ok':
        s = repr(o['value'])
        return 'returns ' + (s if len(s) < 300 else s[:300] + '…')
    return 'raises %s%s (%s) at %s' % (o['type'], '' if o['cc'] is None else ' cc=0x%02x' % o['cc'],
                                       o['text'][:80], o.get('where'))


def _shape_of(sw, op):
    e = sw.by_name.get(op)
    return e['shape'] if e else 'unknown'


def _trace_ids(sw, trace):
    ids = []
    for (name, _) in trace:
        i = sw.msg_index.get(name + 'Req')
        if i is None:
            return None
        ids.append(i)
    return ids


def _natlist(l):
    return ','.join(str(x) for x in l) if l else '-'


def run(ctx):
    entries, msg_index = _gen if _gen is not None else api.analyze()
    sw = Sweep(ctx, entries, msg_index)
    try:
        _run(ctx, sw)
    finally:
        sw.close()


def _run(ctx, sw):
    rng = ctx.rng('c08')
    drv = ctx.driver('drv_c08')
    ops = public_ops()
    uncalled, census, positions = [], {}, {}
    baseline_broken = {}
    if int(drv.ask('info')) != len(sw.entries):
        ctx.disagree('table-size', {}, drv.ask('info'), str(len(sw.entries)))
    replay_lines = []       # (line, expected tag+n, case)
    faulted_traces = []     # (entry index, request-class ids, case) of runs that went on after a fault
    for op in ops:
        shape = _shape_of(sw, op)
        census[shape] = census.get(shape, 0) + 1
        try:
            recs = recipes(op)
        except Uncallable as e:
            uncalled.append('%s: %s' % (op, e))
            continue
        for ri, rec in enumerate(recs):
            free = execute(op, rec, sw.env)
            sw.free[(op, ri, 'default')] = free
            n = len(free['trace'])
            positions[op] = max(positions.get(op, 0), n)
            ctx.case((op, ri, 'free'), nontrivial=False)
            ctx.count('shape:' + shape)
            if free['kind'] == 'exc' and free['type'] not in LIB_ERRORS + ('DecodingError', 'EncodingError'):
                # the operation cannot even complete against an all-OK BMC: an unrelated Python error
                case = {'op': op, 'recipe': ri, 'variant': 'default', 'faults': []}
                slot = sw.bad.setdefault((op, 'baseline-' + free['type']),
                                         {'codes': set(), 'witness': case, 'size': (0, -1, -1), 'n': 0,
                                          'obs': describe(free),
                                          'exp': 'a result, or one of the library\'s errors, when every request is answered OK'})
                slot['n'] += 1
                baseline_broken[op] = free['type']
                ctx.count('verdict:baseline-' + free['type'])
                continue
            # --- K: the generated skeleton admits the requests the real operation issued
            ent = sw.by_name.get(op)
            ids = _trace_ids(sw, free['trace'])
            has_sk = ent is not None and ent['shape'] in ('checked', 'nosend', 'loop') and ids is not None
            if has_sk:
                r = drv.ask('accept %d %s' % (ent['index'], _natlist(ids)))
                ctx.count('skeleton:' + r.split()[0])
                if not r.startswith('yes'):
                    ctx.disagree('skeleton-trace', {'op': op, 'recipe': ri, 'trace': [t[0] for t in free['trace']]},
                                 'skeleton of %s does not admit the trace' % op, 'real operation issued it')
            # --- single faults, exhaustive over positions x alphabet
            for k in range(n):
                for c in sw.codes:
                    bad, verdict = sw.run_case(op, ri, rec, 'default', [(k, c, False)], free, 'single')
                    if has_sk and ent['shape'] == 'checked' and free['kind'] == 'ok' and (
                            ctx.tier == 'quick' or c in QUICK_CODES):
                        replay_lines.append(('run %d %s %d:%d' % (ent['index'], _natlist(ids), k, c),
                                             '%s %d' % (tag(bad), len(bad['trace'])),
                                             {'op': op, 'recipe': ri, 'faults': [[k, c, False]]}))
                    # directed double faults: wherever the library went on after the first fault
                    if verdict in ('recovered', 'adapted'):
                        # K: the skeleton (whose every resolution the composition theorems cover) also admits
                        # the requests of the run that went on after the fault
                        bids = _trace_ids(sw, bad['trace'])
                        if has_sk and bids is not None and (ctx.tier == 'thorough' or c in (0xCA, 0xC5, 0x80, 0xC3, 0x83)):
                            faulted_traces.append((ent['index'], bids, {'op': op, 'recipe': ri, 'faults': [[k, c, False]]}))
                        later = range(k + 1, len(bad['trace']))
                        c2s = sw.codes if ctx.tier == 'thorough' and c in QUICK_CODES else \
                            [c, 0xC5, 0x80, 0xCA, 0xD5, rng.choice(sw.codes)]
                        if ctx.tier == 'quick' and len(later) > 5:
                            later = sorted(set([k + 1, k + 2] + rng.sample(list(later), 3)))
                        for k2 in later:
                            for c2 in sorted(set(c2s)):
                                sw.run_case(op, ri, rec, 'default', [(k, c, False), (k2, c2, False)], free, 'double-directed')
                # sampled: the code followed by the OK payload (decoding must stop at the code)
                for c in rng.sample(sw.codes, 2):
                    sw.run_case(op, ri, rec, 'default', [(k, c, True)], free, 'single+payload')
            # seeded double faults (both positions of the fault-free run)
            if n >= 2:
                for _ in range(4 if ctx.tier == 'quick' else 40):
                    k1 = rng.randrange(n - 1)
                    k2 = rng.randrange(k1 + 1, n)
                    f = [(k1, rng.choice(sw.codes), False), (k2, rng.choice(sw.codes), False)]
                    bad, _ = sw.run_case(op, ri, rec, 'default', f, free, 'double-seeded')
                    if has_sk and ent['shape'] == 'checked' and free['kind'] == 'ok':
                        replay_lines.append(('run %d %s %s' % (ent['index'], _natlist(ids), _fmt_faults(f)),
                                             '%s %d' % (tag(bad), len(bad['trace'])),
                                             {'op': op, 'recipe': ri, 'faults': [list(x) for x in f]}))
        if ctx.time_left() < 20:
            ctx.notes.append('time budget reached in the sweep at %s' % op)
            break
    # --- K: replay of the skeletons under the same faults (checked shapes)
    answers = drv.ask_many([l for (l, _, _) in replay_lines])
    for (line, want, case), got in zip(replay_lines, answers):
        ctx.count('skeleton-replay:' + ('agree' if got == want else 'differ'))
        if got != want:
            ctx.disagree('skeleton-replay', case, got, want)
    seen = set()
    flines, fcases = [], []
    for (i, ids, case) in faulted_traces:
        key = (i, tuple(ids))
        if key not in seen:
            seen.add(key)
            flines.append('accept %d %s' % (i, _natlist(ids)))
            fcases.append(case)
    # the matcher is exponential on long traces of nested loops (get_fru_inventory): shortest first, on a budget
    import time as _time
    order = sorted(range(len(flines)), key=lambda j: len(flines[j]))
    t0, budget = _time.time(), (8.0 if ctx.tier == 'quick' else 90.0)
    cap = 16 if ctx.tier == 'quick' else 18
    for j in order:
        if _time.time() - t0 > budget or flines[j].count(',') + 1 > cap:
            ctx.count('skeleton-faulted:skipped-on-time')
            continue
        r = drv.ask(flines[j])
        ctx.count('skeleton-faulted:' + r.split()[0])
        if not r.startswith('yes'):
            ctx.disagree('skeleton-trace-faulted', fcases[j], 'skeleton does not admit the trace of the faulted run',
                         'real operation issued it')
    _variants(ctx, sw, rng)
    _handlers(ctx, sw, drv, rng)
    _op_models(ctx, sw, drv, rng)
    _report(ctx, sw, baseline_broken)
    ctx.extra['uncalled_ops'] = uncalled
    ctx.extra['public_ops'] = len(ops)
    ctx.extra['shape_census'] = census
    ctx.extra['request_positions'] = sum(positions.values())
    ctx.extra['baseline_python_errors'] = baseline_broken
    _scope(ctx, sw, drv, ops)
    ctx.sample({'op': 'read_fru_data', 'fault': [1, 0xCA], 'outcome': 'recovered: same bytes after request-size back-off'})
    ctx.sample({'op': 'set_user_password', 'fault': [0, 0xCC], 'outcome': 'CompletionCodeError cc=0xcc'})


def _variants(ctx, sw, rng):
    """Device variants: the shortest legal OK answers (baseline only) and an HPM target that
    keeps reporting 'in progress' (faults inside the polling loop)."""
    for op in public_ops():
        try:
            rec = recipes(op)[0]
        except Uncallable:
            continue
        short = execute(op, rec, sw.env, 'short')
        ctx.case((op, 'short'), nontrivial=False)
        if short['kind'] == 'exc':
            ctx.count('short-response:' + short['type'])
            if short['type'] in ('UnboundLocalError', 'NameError') and \
                    (op, 'baseline-' + short['type']) not in sw.bad:
                case = {'op': op, 'recipe': 0, 'variant': 'short', 'faults': []}
                sw.bad.setdefault((op, 'short-response-' + short['type']),
                                  {'codes': set(), 'witness': case, 'size': (0, -1, -1), 'n': 1,
                                   'obs': describe(short),
                                   'exp': 'a result or a library error for an OK answer without optional data'})
    for variant in LONG_NOT_SUCCEEDED:
        for op in ('initiate_upgrade_action_and_wait', 'finish_upload_and_wait', 'activate_firmware_and_wait',
                   'upload_binary', 'wait_for_long_duration_command', 'initiate_manual_rollback_and_wait',
                   'upgrade_stage', 'install_component_from_image', 'install_component_from_file'):
            try:
                rec = recipes(op)[0]
            except (Uncallable, AttributeError):
                continue
            free = execute(op, rec, sw.env, variant)
            if free['kind'] == 'exc' and free['type'] not in LIB_ERRORS:
                continue
            composite = op in ('upgrade_stage', 'install_component_from_image', 'install_component_from_file')
            for k in range(len(free['trace'])):
                codes = [0x80] if composite and ctx.tier == 'quick' else \
                    sw.codes if ctx.tier == 'thorough' else [0x80, 0xC3, 0xD5, 0xFF]
                for c in codes:
                    bad, verdict = sw.run_case(op, 0, rec, variant, [(k, c, False)], free, 'single-' + variant)
                    if verdict == 'recovered' and not composite:
                        for k2 in range(k + 1, len(bad['trace'])):
                            sw.run_case(op, 0, rec, variant, [(k, c, False), (k2, 0xC1, False)], free, 'double-directed')


def _polls(timeout, interval, tick=0.26):
    """Number of status polls hpm.wait_for_long_duration_command makes on the virtual clock
    while the target stays busy."""
    now = 1000.0 + tick
    start = now
    n = 0
    while True:
        now += tick
        if not now < start + timeout:
            return n
        n += 1
        now += interval
        if n > 1000:
            return n


def _handlers(ctx, sw, drv, rng):
    """K for the handler models: real operation vs Lean program on the same faults."""
    codes = sw.codes if ctx.tier == 'thorough' else QUICK_CODES
    img = fi.Bmc().fru
    hexs = lean.hexs(bytes(bytearray(img)))
    # does the tree have the intended variants?  (DESIGN §2.4: probe, then pick the model)
    probe = execute('get_component_properties', recipes('get_component_properties')[0], sw.env,
                    faults={1: (0xC1, False)})
    strict = 1 if probe['kind'] == 'exc' and probe['type'] == 'CompletionCodeError' else 0
    import pyipmi
    has_method = 1 if hasattr(pyipmi.Ipmi, 'send_and_receive') or \
        'send_and_receive' not in inspect.getsource(pyipmi.Ipmi.get_channel_authentication_capabilities) else 0
    # does the wait look at what the status polls report?  (request answered 80h, status says "failed with 82h")
    probe = execute('finish_upload_and_wait', recipes('finish_upload_and_wait')[0], sw.env, 'failhpm',
                    faults={0: (0x80, False)})
    wait_strict = 1 if probe['kind'] == 'exc' and probe['type'] == 'HpmError' else 0
    ctx.extra['model_variants'] = {'componentProps.strict': bool(strict), 'channelAuthCaps.hasMethod': bool(has_method),
                                   'hpmWait.strict': bool(wait_strict)}
    plan = []   # (label, op, recipe index or callable, variant, driver prefix, value?)
    plan.append(('fru-full', 'read_fru_data', 0, 'default', 'fru %s - -' % hexs))
    plan.append(('fru-range', 'read_fru_data', 1, 'default', 'fru %s 3 70' % hexs))
    for ai in (2, 3):      # chassis and board info area offsets of the image (common header bytes 2, 3)
        aoff = img[ai] * 8
        plan.append(('fru-area-%d' % ai, '_read_fru_area',
                     (lambda o: (lambda ipmi: ipmi._read_fru_area(o)))(aoff), 'default', 'fruarea %s %d' % (hexs, aoff)))
    plan.append(('clear-sel', 'clear_sel', 0, 'default', 'clear 4'))
    plan.append(('clear-sdr', 'clear_sdr_repository', 0, 'default', 'clear 4'))
    for op, (to, iv) in (('initiate_upgrade_action_and_wait', (1, 0.1)), ('finish_upload_and_wait', (1, 0.1)),
                         ('activate_firmware_and_wait', (1, 0.1))):
        for mode, variant in enumerate(('default', 'busyhpm', 'failhpm')):
            plan.append(('andwait-' + variant, op, 0, variant,
                         'andwait %d %d %d' % (wait_strict, mode, _polls(to, iv))))
    for mode, variant in enumerate(('default', 'busyhpm', 'failhpm')):
        plan.append(('upload-' + variant, 'upload_binary', 0, variant,
                     'upload %d 3 %d %d' % (wait_strict, mode, _polls(1, 0.1))))
    plan.append(('chunk', '_get_sdr_chunk',
                 lambda ipmi: ipmi._get_sdr_chunk(0x1b0b, 1, 0, 5), 'default', 'chunk 4'))
    plan.append(('props', 'get_component_properties', 0, 'default', 'props %d' % strict))
    plan.append(('chanauth', 'get_channel_authentication_capabilities', 0, 'default', 'chanauth %d' % has_method))
    lines, meta = [], []
    for label, op, ri, variant, prefix in plan:
        call = ri if callable(ri) else None
        rec = None if call else recipes(op)[ri]
        free = execute(op, rec, sw.env, variant, call=call)
        n = len(free['trace'])
        fsets = [[]]
        for k in range(n):
            for c in codes:
                fsets.append([(k, c)])
        for _ in range(30 if ctx.tier == 'quick' else 300):
            m = rng.choice([2, 2, 3, 5])
            ks = sorted(rng.sample(range(n + 3), min(m, n + 3)))
            fsets.append([(k, rng.choice([0x80, 0xC3, 0xC5, 0xCA, 0xCE, 0xC1, rng.choice(codes)])) for k in ks])
        for fs in fsets:
            real = execute(op, rec, sw.env, variant, dict((k, (c, False)) for k, c in fs), call=call)
            want = tag(real)
            if label.startswith('fru') and real['kind'] == 'ok':
                want += ' ' + real['value'][1] if real['value'][1] else ' -'
            if label == 'props' and real['kind'] == 'ok':
                want += ' %d' % len(real['value'])
            want += ' %d' % len(real['trace'])
            lines.append('%s %s' % (prefix, ','.join('%d:%d' % kc for kc in fs) if fs else '-'))
            meta.append((label, op, fs, want))
            ctx.case(('handler', label, tuple(fs)))
            ctx.count('handler:' + label)
    for (label, op, fs, want), got in zip(meta, drv.ask_many(lines)):
        ctx.count('handler-model:' + ('agree' if got == want else 'differ'))
        if got != want:
            ctx.disagree('handler-model:' + label, {'op': op, 'faults': [list(x) for x in fs]}, got, want)



LEAF_MODELS = {0: 'readFru', 1: 'andWait', 2: 'uploadBinary', 3: 'componentProps', 4: 'getAndClear', 5: 'selEntry',
               6: 'sdrChunk', 7: 'sdrData', 8: 'clearLoop'}
COVER_THEOREMS = {
    'skeleton': 'skeleton_fault_safe, skeleton_multi_fault_safe',
    'composite': 'composition_fault_safe, composition_multi_safe (+ listing_multi_safe, sel_entries_multi_safe, '
                 'sdr_entries_multi_safe, script_*_entries_multi_safe for the listings)',
    'primitive': 'primitive_carries_code (send_message, raw_command: the code is handed to the caller); '
                 'send_message_with_name is sendChecked (checked_fault_safe)',
    'transport': 'no IPMI message is exchanged through send_message: no request position exists to answer with a '
                 'completion code (the skeleton issues nothing; skeleton_fault_safe applies vacuously)',
    'leaf:0': 'read_fru_fault_safe, read_fru_multi_safe, op_read_fru_data_*',
    'leaf:1': 'hpm_and_wait_fault_safe, hpm_and_wait_multi_safe, hpm_long_outcome_never_mistaken, '
              'hpm_long_failure_is_hpm_error (intended wait; hpm_and_wait_as_shipped_counterexample for the pinned one)',
    'leaf:2': 'upload_binary_fault_safe, upload_binary_multi_safe, upload_binary_long_outcome_never_mistaken, '
              'upload_binary_long_failure_is_hpm_error (upload_binary_as_shipped_counterexample)',
    'leaf:3': 'component_props_intended_fault_safe, component_props_intended_multi_safe',
    'leaf:4': 'get_and_clear_multi_safe, get_and_clear_fault_safe, script_get_and_clear_multi_safe',
    'leaf:5': 'sel_entry_exact, sel_entry_multi_safe, sel_entry_fault_safe, script_get_sel_entry_multi_safe',
    'leaf:6': 'sdr_chunk_fault_safe, sdr_chunk_multi_safe',
    'leaf:7': 'sdr_data_loop_multi_safe, sdr_data_multi_safe, sdr_record_multi_safe, sdr_record_fault_safe, '
              'script_get_sdr_multi_safe',
    'leaf:8': 'clear_repository_fault_safe, clear_repository_multi_safe',
    'asShipped': 'component_props_as_shipped_counterexample / channel_auth_caps_as_shipped_counterexample',
}


def _scope(ctx, sw, drv, ops):
    """Which theorem covers which public operation -- asked of the Lean function `covers` that the
    kernel-decided theorem table_covered evaluates."""
    idx = [sw.by_name[o]['index'] for o in ops if o in sw.by_name]
    names = [o for o in ops if o in sw.by_name]
    got = drv.ask_many(['cover %d' % i for i in idx])
    by_cover = {}
    for o, c in zip(names, got):
        by_cover.setdefault(c, []).append(o)
        ctx.count('cover:' + c.split(':')[0])
    unknown = sorted(o for o in ops if o not in sw.by_name)
    ctx.extra['theorem_scope'] = {
        'proved': dict((c, sorted(v)) for c, v in sorted(by_cover.items()) if c not in ('none', 'primitive', 'transport')),
        'listed_with_reason': dict((c, {'operations': sorted(by_cover.get(c, [])), 'reason': COVER_THEOREMS[c]})
                                   for c in ('primitive', 'transport')),
        'correspondence_only': sorted(by_cover.get('none', []) + unknown),
        'theorems': COVER_THEOREMS,
        'leaf_models': LEAF_MODELS,
        'other_reasons': dict((e['name'], e['reason']) for e in sw.entries if e['public'] and e['shape'] == 'other'),
    }
    if by_cover.get('none') or unknown:
        ctx.disagree('cover', {'ops': sorted(by_cover.get('none', []) + unknown)},
                     'every public operation is covered by a theorem', 'not covered')


# ---- the SEL / SDR operation models (lean/PyIpmi/Model/ProgOps.lean) ----------------------------------

REQ_TAGS = {'GetSelInfo': 20, 'ReserveSel': 21, 'GetSelEntry': 22, 'DeleteSelEntry': 23,
            'ReserveSdrRepository': 30, 'ReserveDeviceSdrRepository': 30, 'GetSdr': 31, 'GetDeviceSdr': 31}


def _req_token(name, hexpayload):
    """One request of the real trace in the driver's vocabulary (fields as numbers)."""
    t = REQ_TAGS.get(name)
    if t is None:
        return '?' + name
    b = bytes.fromhex(hexpayload)
    if t in (22, 31):
        return '%d.%d.%d.%d.%d' % (t, b[0] | b[1] << 8, b[2] | b[3] << 8, b[4], b[5])
    if t == 23:
        return '%d.%d.%d' % (t, b[0] | b[1] << 8, b[2] | b[3] << 8)
    return '%d' % t


def _attr(obj, name):
    """Attribute of a canonicalised object (['obj', class, [[name, value], ...]])."""
    if isinstance(obj, list) and len(obj) == 3 and obj[0] == 'obj':
        for k, v in obj[2]:
            if k == name:
                return v
    return None


def _hex_of(v):
    return (v[1] or '-') if isinstance(v, list) and len(v) == 2 and v[0] == 'bytes' else '?'


def _recs(table):
    return ';'.join('%d:%s' % (rid, bytes(bytearray(d)).hex()) for rid, d in table) if table else '-'


def _op_models(ctx, sw, drv, rng):
    """K for the SEL / SDR operations: the real operation and its Lean model (the ones the theorems
    script_* are about) on the same device contents and the same fault scripts -- outcome, returned
    bytes and the complete request trace."""
    codes = sw.codes if ctx.tier == 'thorough' else QUICK_CODES
    bmc = fi.Bmc()
    res = bmc.answer('ReserveSel', b'')
    res_id = res[1] | res[2] << 8
    dev = '%d %s %s' % (res_id, _recs(bmc.sels), _recs(bmc.sdrs))

    def v_entry(val):
        return '%s %d' % (_hex_of(_attr(val[0], 'data')), val[1])

    def v_entries(val):
        return ','.join(_hex_of(_attr(x, 'data')) for x in val) if val else '-'

    def v_obj(val):
        return _hex_of(_attr(val, 'data'))

    def v_sdr(val):
        return '%d %s' % (_attr(val, 'next_id'), _hex_of(_attr(val, 'data')))

    def v_sdrs(val):
        return ','.join('%d:%s' % (_attr(x, 'next_id'), _hex_of(_attr(x, 'data'))) for x in val) if val else '-'

    CA, C5 = 0xCA, 0xC5
    sel_consts = api.loop_consts()['sel']
    has_floor, budget = sel_consts.get('floor') is not None, sel_consts.get('budget')
    ctx.extra['sel_loops'] = {'max_req_len_floor': sel_consts.get('floor'), 'get_and_clear_retry_default': budget}
    plan = [
        # label, op, recipe index, driver line prefix, value printer, directed fault scripts
        ('sel-entry', 'get_sel_entry', 0, 'selentry %s %d 1' % (dev, recipes('get_sel_entry')[0].get('reservation', 0)), v_entry,
         [[(i, CA) for i in range(m)] for m in range(2, 17)] +
         # beyond the 16 lengths below FFh (judged by the model only where the source gives up with RetryError)
         [[(i, CA) for i in range(m)] for m in (17, 18, 25)] + [[(i, CA) for i in range(1, 18)]] +
         [[(i, CA) for i in range(m)] + [(m, 0xD5)] for m in (1, 3, 16)] +
         [[(0, CA), (2, CA), (3, 0xC1)], [(1, CA), (2, CA)], [(0, CA), (1, 0xCB), (2, CA)]]),
        ('sel-entries', 'sel_entries', 0, 'selentries %s 100' % dev, v_entries,
         [[(2, CA), (3, CA)], [(2, CA), (4, CA), (5, CA)], [(3, CA), (4, 0xCB)], [(2, CA), (3, CA), (4, CA), (6, 0xC5)]]),
        ('sel-entries-list', 'get_sel_entries', 0, 'selentries %s 100' % dev, v_entries, [[(3, CA), (4, CA)]]),
        ('get-and-clear', 'get_and_clear_sel_entry', 0, 'getclear %s 1 %d' % (dev, 60 if budget is None else budget), v_obj,
         [[(1, C5)], [(2, C5)], [(1, C5), (3, C5)], [(1, C5), (4, C5)], [(2, C5), (5, C5)], [(1, C5), (3, C5), (5, C5)],
          [(1, CA), (3, C5)], [(1, CA), (2, C5), (4, CA), (6, C5)], [(1, C5), (2, 0xD5)], [(0, C5)],
          [(1, C5), (3, C5), (5, C5), (7, C5), (9, C5), (11, C5)],
          [(1, C5), (3, C5), (5, C5), (7, C5)], [(1, C5), (3, C5), (5, C5), (7, C5), (9, C5)],
          [(2, C5), (5, C5), (8, C5), (11, C5), (14, C5)], [(1, C5), (3, CA), (4, CA), (6, C5), (8, C5), (10, C5), (12, C5)]]),
    ]
    # SDR reads with a caller reservation: a foreign id (772) and the id the BMC grants (the hypothesis `hgiven` of
    # script_get_sdr_multi_safe).  The model carries ONE reservation id through a record; with a foreign id the requests
    # after a renewal (C5h) depend on whether the renewed id is handed on (C13, fixes/C13-2) - those fault scripts are
    # run with the BMC's own id only, where both variants issue the same requests
    own_res = _bmc_reservation(None)
    for label, op, prefix in (('sdr-repo', 'get_repository_sdr', 'sdr %s' % dev), ('sdr-dev', 'get_device_sdr', 'sdr %s' % dev)):
        for ri, (resarg, rid) in enumerate((('-', 0), ('772', 2), (str(own_res), 2))):
            plan.append(('%s-%d' % (label, ri), op, ri, '%s %s %d' % (prefix, resarg, rid), v_sdr,
                         [[(k, CA) for k in range(2, 2 + m)] for m in range(1, 7)] +
                         [[(2, CA), (3, C5)], [(2, C5), (4, C5)], [(2, 0xC3), (3, 0xCE), (4, 0xC3)],
                          [(1, 0xC3), (2, 0xC3), (3, 0xC3), (4, 0xC3)], [(2, CA), (4, CA), (5, 0xC9)],
                          [(1, C5), (2, 0xD5)], [(2, C5), (3, 0xC1)]]))
    for label, op in (('sdr-repo-entries', 'sdr_repository_entries'), ('sdr-dev-entries', 'device_sdr_entries'),
                      ('sdr-repo-list', 'get_repository_sdr_list'), ('sdr-dev-list', 'get_device_sdr_list')):
        plan.append((label, op, 0, 'sdrlist %s 100' % dev, v_sdrs,
                     [[(2, CA), (5, CA)], [(3, CA), (4, CA), (6, C5)], [(6, CA), (7, CA), (8, CA), (9, CA), (10, CA)],
                      [(5, 0xCB)], [(3, C5), (4, C5)]]))
    lines, meta = [], []
    for label, op, ri, prefix, show, directed in plan:
        try:
            rec = recipes(op)[ri]
        except (Uncallable, IndexError, AttributeError):
            ctx.disagree('op-model:' + label, {'op': op}, 'operation callable', 'no recipe / not there')
            continue
        free = execute(op, rec, sw.env)
        n = len(free['trace'])
        fsets = [[]] + [[(k, c)] for k in range(n) for c in codes] + directed
        for _ in range(30 if ctx.tier == 'quick' else 300):
            m = rng.choice([2, 2, 3, 4, 6])
            ks = sorted(rng.sample(range(n + 6), min(m, n + 6)))
            fsets.append([(k, rng.choice([CA, CA, C5, 0xC3, 0xCE, 0xCB, 0xC1, rng.choice(codes)])) for k in ks])
        for fs in fsets:
            if op == 'get_sel_entry' or 'sel_entries' in op or op == 'get_and_clear_sel_entry':
                if not has_floor and sum(1 for (_, c) in fs if c == CA) > 16:
                    continue        # a source without floor: Python's request length goes below zero, the read never ends
            if label in ('sdr-repo-1', 'sdr-dev-1') and any(c == C5 for (_, c) in fs):
                ctx.count('op-model:foreign-reservation+C5h (run with the BMC id instead)')
                continue            # see above: recipe 2 runs the same scripts with the id the BMC grants
            real = execute(op, rec, sw.env, 'default', dict((k, (c, False)) for k, c in fs))
            want = tag(real)
            if real['kind'] == 'ok':
                try:
                    want += ' ' + show(real['value'])
                except Exception as e:  # noqa -- an unexpected result shape is a disagreement, shown as such
                    want += ' ?%s' % type(e).__name__
            want += ' | ' + (','.join(_req_token(nm, h) for (nm, h) in real['trace']) or '-')
            lines.append('%s %s' % (prefix, ','.join('%d:%d' % kc for kc in fs) if fs else '-'))
            meta.append((label, op, ri, fs, want))
            ctx.case(('op-model', label, tuple(fs)))
            ctx.count('op-model:' + label)
    for (label, op, ri, fs, want), got in zip(meta, drv.ask_many(lines)):
        ctx.count('op-model-compare:' + ('agree' if got == want else 'differ'))
        if got != want:
            ctx.disagree('op-model:' + label, {'op': op, 'recipe': ri, 'faults': [list(x) for x in fs]}, got, want)
    # the primitives: the code is in what the caller gets (Lean: primitive_carries_code)
    for c in rng.sample(codes, 3):
        got = drv.ask('raw 0:%d' % c)
        real = execute('raw_command', recipes('raw_command')[0], sw.env, 'default', {0: (c, False)})
        want = 'ok %s %d' % (real.get('carried'), len(real['trace'])) if real['kind'] == 'ok' else tag(real)
        ctx.count('op-model-compare:' + ('agree' if got == want else 'differ'))
        if got != want:
            ctx.disagree('op-model:raw_command', {'op': 'raw_command', 'faults': [[0, c]]}, got, want)


def _report(ctx, sw, baseline_broken):
    """Aggregate per (operation, kind of violation); a caller whose violation is its callee's
    is explained by the callee."""
    explained = {}
    sigs = {}
    for (op, what), slot in sw.bad.items():
        tested = sw.tested_codes.get(op, set())
        whitelisted = set(c for (o, c) in ADAPT if o == op)
        codes = slot.get('single') or slot['codes']
        suffix = ''
        if codes and not codes >= (tested - whitelisted):
            cl = sorted(codes)
            suffix = '@cc=' + (','.join('0x%02x' % c for c in cl) if len(cl) <= 4 else '%dcodes' % len(cl))
        sigs[(op, what)] = (what + suffix, slot)
    # transitive syntactic callees among Ipmi methods
    def callees(op, seen=None):
        seen = seen if seen is not None else set()
        e = sw.by_name.get(op)
        for c in (e['callees'] if e else []):
            if c not in seen and c in sw.by_name:
                seen.add(c)
                callees(c, seen)
        return seen
    for (op, what), (label, slot) in sorted(sigs.items()):
        root = None
        for c in sorted(callees(op)):
            if c != op and (c, what) in sigs and sigs[(c, what)][0] == label:
                root = c
                break
        if root is not None:
            explained.setdefault(root, []).append(op)
            continue
        case = dict(slot['witness'])
        case['what'] = what
        ctx.violate('C08:%s:%s' % (op, label),
                    '%s: %s (%d case%s)' % (op, _explain(what), slot['n'], '' if slot['n'] == 1 else 's'),
                    case, expected=slot['exp'], observed=slot['obs'])
    if sw.long_callers:
        explained.setdefault(LONG_WAIT_OP, [])
        explained[LONG_WAIT_OP] = sorted(set(explained[LONG_WAIT_OP]) | sw.long_callers)
    ctx.extra['same_defect_seen_through_callers'] = explained


def _explain(what):
    if what == 'ignored-cc':
        return 'a non-OK completion code is dropped: the operation completes as if the request had succeeded'
    if what == 'stale-after-cancel':
        return 'after "reservation cancelled" the entry read under the lost reservation is returned without being ' \
               'read again'
    if what == 'undocumented-retry':
        return 'a non-OK completion code that no documented retry / adaptation of this operation names is swallowed: ' \
               'the operation goes on and completes as if nothing had been reported'
    if what == 'long-duration-outcome-ignored':
        return 'an HPM.1 request is answered 80h "command in progress" and Get Upgrade Status then reports that the ' \
               'command FAILED (last completion code 82h) or is still in progress when the time-out expires: the ' \
               'operation completes normally all the same - a failure reported by the BMC is taken for success'
    if what == 'result-differs':
        return 'a non-OK completion code changes the returned value instead of raising'
    if what == 'wrong-code':
        return 'the CompletionCodeError raised does not carry the code the BMC answered'
    if what.startswith('baseline-'):
        return 'fails with %s although every request is answered OK' % what[9:]
    if what.startswith('short-response-'):
        return 'fails with %s on an OK answer without optional data' % what[15:]
    return 'a non-OK completion code ends in %s instead of an error carrying the code' % what


def search(ctx):
    """A tie broke and the tier's alphabet showed nothing: widen to every code 0x01..0xFF."""
    if ctx.tier == 'thorough':
        return
    entries, msg_index = _gen if _gen is not None else api.analyze()
    sw = Sweep(ctx, entries, msg_index)
    sw.codes = list(range(1, 256))
    try:
        for op in public_ops():
            if ctx.time_left() < 10:
                break
            try:
                recs = recipes(op)
            except Uncallable:
                continue
            for ri, rec in enumerate(recs):
                free = execute(op, rec, sw.env)
                if free['kind'] == 'exc' and free['type'] not in LIB_ERRORS + ('DecodingError', 'EncodingError'):
                    continue
                for k in range(len(free['trace'])):
                    for c in sw.codes:
                        sw.run_case(op, ri, rec, 'default', [(k, c, False)], free, 'search')
        _report(ctx, sw, {})
    finally:
        sw.close()


def replay(ctx, v):
    case = v['case']
    env = make_env()
    try:
        op, ri, variant = case['op'], case.get('recipe', 0), case.get('variant', 'default')
        try:
            rec = recipes(op)[ri]
        except Exception as e:  # noqa
            print('operation %s can no longer be called: %s' % (op, e))
            return True
        free = execute(op, rec, env, variant)
        print('%s (recipe %d, device variant %s)' % (op, ri, variant))
        print('  every request answered OK : %s   [%d requests]' % (describe(free), len(free['trace'])))
        faults = [tuple(f) for f in case.get('faults', [])]
        if not faults:
            bad_types = LIB_ERRORS + ('DecodingError', 'EncodingError')
            if variant == 'short':
                still = free['kind'] == 'exc' and free['type'] in ('UnboundLocalError', 'NameError')
            else:
                still = free['kind'] == 'exc' and free['type'] not in bad_types
            print('  property demands           : a result or a library error')
            return still
        bad = execute(op, rec, env, variant, dict((k, (c, t)) for (k, c, t) in faults))
        verdict, what = judge(op, faults, free, bad, variant)
        if variant in LONG_NOT_SUCCEEDED:
            print('  Get Upgrade Status reports : last completion code %s' % (
                '80h (in progress) for as long as it is polled' if variant == 'busyhpm' else '82h (the command failed)'))
        for (k, c, t) in faults:
            print('  request #%d answered with completion code 0x%02x%s' % (k, c, ' + payload' if t else ''))
        print('  observed                  : %s   [%d requests]' % (describe(bad), len(bad['trace'])))
        print('  property demands          : CompletionCodeError carrying the code, RetryError, HpmError, '
              'or the fault-free result after a retry/adaptation%s' % (
                  ' (after 80h: only if Get Upgrade Status reports the end of the command with 00h)'
                  if variant in LONG_NOT_SUCCEEDED else ''))
        print('  verdict                   : %s%s' % (verdict, '' if what is None else ' (' + what + ')'))
        return verdict == 'VIOLATION'
    finally:
        drop_env(env)
